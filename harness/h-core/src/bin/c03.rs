//! C03 correspondence harness: selection kernels of arrow-select and the BatchCoalescer.
//!
//! A case line is `C03 <op> <fields…>`.  Rows are small integer ids (`n` = null row); the
//! harness builds the typed array for a type tag from the ids (at a non-zero slice offset
//! when `<off>` > 0), runs the REAL kernel and maps the result back to ids, so the Lean side
//! only reasons about row ids.
use arrow_array::builder::*;
use arrow_array::cast::AsArray;
use arrow_array::types::*;
use arrow_array::*;
use arrow_buffer::{BooleanBuffer, Buffer, NullBuffer, ScalarBuffer};
use arrow_schema::{ArrowError, DataType, Field, Fields, Schema, SchemaRef};
use arrow_select::coalesce::BatchCoalescer;
use arrow_select::concat::{concat, concat_batches};
use arrow_select::filter::{FilterBuilder, filter, filter_record_batch};
use arrow_select::interleave::interleave;
use arrow_select::nullif::nullif;
use arrow_select::take::{TakeOptions, take};
use arrow_select::window::shift;
use arrow_select::merge::{merge, merge_n};
use arrow_select::zip::zip;
use std::sync::Arc;
use vcommon::*;

type Row = Option<u32>;

/// number of result arrays whose `ArrayData::validate_full` failed (reported as a tag only)
static INVALID_RESULTS: std::sync::atomic::AtomicUsize = std::sync::atomic::AtomicUsize::new(0);

fn parse_row(s: &str) -> Row {
    if s == "n" { None } else { Some(s.parse().expect("row id")) }
}
fn parse_rows(s: &str) -> Vec<Row> {
    if s == "-" { vec![] } else { s.split(',').map(parse_row).collect() }
}
fn show_row(r: &Row) -> String {
    match r {
        None => "n".to_string(),
        Some(k) => k.to_string(),
    }
}
fn show_rows(rs: &[Row]) -> String {
    if rs.is_empty() { "-".into() } else { rs.iter().map(show_row).collect::<Vec<_>>().join(",") }
}
/// predicate: '1' true, '0' false, 'n' null
fn parse_mask(s: &str) -> Vec<Option<bool>> {
    if s == "-" {
        return vec![];
    }
    s.chars()
        .map(|c| match c {
            '1' => Some(true),
            '0' => Some(false),
            _ => None,
        })
        .collect()
}
fn show_mask(m: &[Option<bool>]) -> String {
    if m.is_empty() {
        return "-".into();
    }
    m.iter()
        .map(|b| match b {
            Some(true) => '1',
            Some(false) => '0',
            None => 'n',
        })
        .collect()
}

/// the string value of id `k` (short / inline / longer than 12 bytes so views need a buffer)
fn sval(k: u32) -> String {
    if k == 60 {
        return String::new(); // the empty string is a regular value
    }
    // length classes (k % 8): <= 2, <= 3, 8..9 (inline view), > 30 (view needs a data buffer),
    // 11..12 (12 = longest inline view), 12..13 (13 = shortest non-inline view), <= 3, ~300 bytes
    // (a few dozen of them cross the coalescer's 8 KiB / 16 KiB view blocks)
    match k % 8 {
        0 => format!("{k}"),
        1 => format!("x{k}"),
        2 => format!("inline-{k}"),
        3 => format!("a-long-prefix-over-twelve-bytes-{k}"),
        4 => format!("ten-bytes--{k}"),
        5 => format!("eleven-byte-{k}"),
        6 => format!("y{k}"),
        _ => format!("{}{k}", "huge-value-padding-".repeat(16)),
    }
}
fn sval_id(s: &[u8]) -> Option<u32> {
    let s = std::str::from_utf8(s).ok()?;
    if s.is_empty() {
        return Some(60);
    }
    let k: u32 = s.trim_start_matches(|c: char| !c.is_ascii_digit()).parse().ok()?;
    // strict: every byte must be the one the id was built from
    if sval(k) == s { Some(k) } else { None }
}

const ALL_TYPES: &[&str] =
    &["i32", "i64", "bool", "utf8", "lutf8", "bin", "lbin", "sv", "bv", "dict", "fsb", "list", "struct", "f64", "ts", "fsl", "dicts", "dicti8", "dictu8", "dictu16", "dictu64",
    "dictp", "dec", "llist", "lv", "map", "ree", "sunion", "dunion"];

fn union_fields() -> arrow_schema::UnionFields {
    arrow_schema::UnionFields::try_new(vec![0, 1], vec![Field::new("a", DataType::Int32, true), Field::new("b", DataType::Utf8, true)]).unwrap()
}
fn ree_type() -> DataType {
    DataType::RunEndEncoded(Arc::new(Field::new("run_ends", DataType::Int32, false)), Arc::new(Field::new("values", DataType::Int32, true)))
}

/// dictionary realisations: (key type, value type); `dicts` = inputs of one kernel call share one values array
fn dict_kind(ty: &str) -> Option<(&'static str, &'static str)> {
    match ty {
        "dict" | "dicts" => Some(("i32", "utf8")),
        "dicti8" => Some(("i8", "utf8")),
        "dictu8" => Some(("u8", "lutf8")),
        "dictu16" => Some(("u16", "bin")),
        "dictu64" => Some(("u64", "lbin")),
        _ => None,
    }
}
fn key_type(k: &str) -> DataType {
    match k {
        "i8" => DataType::Int8,
        "u8" => DataType::UInt8,
        "u16" => DataType::UInt16,
        "u64" => DataType::UInt64,
        _ => DataType::Int32,
    }
}
fn value_type(v: &str) -> DataType {
    match v {
        "lutf8" => DataType::LargeUtf8,
        "bin" => DataType::Binary,
        "lbin" => DataType::LargeBinary,
        _ => DataType::Utf8,
    }
}

/// dictionary VALUES array from explicit (bytes, valid) entries: a null slot keeps its bytes
fn build_dict_values(vkind: &str, entries: &[(Vec<u8>, bool)]) -> ArrayRef {
    let mut data: Vec<u8> = vec![];
    let mut offs: Vec<i64> = vec![0];
    for (b, _) in entries {
        data.extend_from_slice(b);
        offs.push(data.len() as i64);
    }
    let nulls = if entries.iter().all(|e| e.1) { None } else { Some(NullBuffer::from(entries.iter().map(|e| e.1).collect::<Vec<bool>>())) };
    let o32 = || arrow_buffer::OffsetBuffer::new(ScalarBuffer::from(offs.iter().map(|x| *x as i32).collect::<Vec<i32>>()));
    let o64 = || arrow_buffer::OffsetBuffer::new(ScalarBuffer::from(offs.clone()));
    let buf = Buffer::from_vec(data.clone());
    match vkind {
        "lutf8" => Arc::new(LargeStringArray::new(o64(), buf, nulls)),
        "bin" => Arc::new(BinaryArray::new(o32(), buf, nulls)),
        "lbin" => Arc::new(LargeBinaryArray::new(o64(), buf, nulls)),
        _ => Arc::new(StringArray::new(o32(), buf, nulls)),
    }
}

/// dictionary array for `rows`: values hold the ids present (sometimes twice), unused entries, padding
/// up to near the key type's capacity, and two NULL value slots (one over empty bytes, one over the bytes
/// of a present value); a null row is a null key or a valid key pointing at a null value slot
fn build_dict(ty: &str, rows: &[Row], salt: usize) -> ArrayRef {
    let (kkind, vkind) = dict_kind(ty).unwrap();
    let mut present: Vec<u32> = rows.iter().flatten().copied().collect();
    present.sort();
    present.dedup();
    let mut entries: Vec<(Vec<u8>, bool)> = present.iter().map(|&k| (sval(k).into_bytes(), true)).collect();
    let mut pos: Vec<Vec<usize>> = (0..present.len()).map(|i| vec![i]).collect();
    if salt % 3 == 1 && !present.is_empty() {
        // duplicate entry for the first present id
        pos[0].push(entries.len());
        entries.push((sval(present[0]).into_bytes(), true));
    }
    for u in [61 + salt as u32 % 3, 70] {
        entries.push((sval(u).into_bytes(), true));
    }
    let cap: usize = match kkind {
        "i8" => 127,
        "u8" => 255,
        _ => 400,
    };
    let pad = if salt % 5 == 0 && kkind != "i32" && kkind != "u64" { (cap - 3).saturating_sub(entries.len()) } else { (salt % 7) * 3 };
    for j in 0..pad {
        entries.push((sval(100 + j as u32).into_bytes(), true));
    }
    let null_empty = entries.len();
    entries.push((vec![], false));
    let null_garbage = entries.len();
    entries.push((present.first().map(|&k| sval(k).into_bytes()).filter(|b| !b.is_empty()).unwrap_or_else(|| b"x".to_vec()), false));
    // salt-dependent order
    let n = entries.len();
    let rot = salt % n;
    let place = |i: usize| (i + n - rot) % n;
    let mut rotated = entries.clone();
    rotated.rotate_left(rot);
    let mut key_valid = vec![];
    let mut keys: Vec<u64> = vec![];
    for (i, r) in rows.iter().enumerate() {
        match r {
            Some(id) => {
                let p = &pos[present.binary_search(id).unwrap()];
                keys.push(place(p[i % p.len()]) as u64);
                key_valid.push(true);
            }
            None => match (i + salt) % 3 {
                0 => {
                    keys.push((i % n) as u64);
                    key_valid.push(false);
                }
                1 => {
                    keys.push(place(null_empty) as u64);
                    key_valid.push(true);
                }
                _ => {
                    keys.push(place(null_garbage) as u64);
                    key_valid.push(true);
                }
            },
        }
    }
    let nulls = if key_valid.iter().all(|b| *b) && salt % 2 == 0 { None } else { Some(NullBuffer::from(key_valid)) };
    let values = build_dict_values(vkind, &rotated);
    macro_rules! mk {
        ($t:ty, $n:ty) => {
            Arc::new(DictionaryArray::<$t>::new(PrimitiveArray::<$t>::new(keys.iter().map(|k| *k as $n).collect::<Vec<$n>>().into(), nulls), values)) as ArrayRef
        };
    }
    match kkind {
        "i8" => mk!(Int8Type, i8),
        "u8" => mk!(UInt8Type, u8),
        "u16" => mk!(UInt16Type, u16),
        "u64" => mk!(UInt64Type, u64),
        _ => mk!(Int32Type, i32),
    }
}

/// logical rows of a dictionary array: null if the key is null OR the value slot is null
fn decode_dict(ty: &str, a: &dyn Array) -> Result<Vec<Row>, String> {
    let (_, vkind) = dict_kind(ty).unwrap();
    let d = a.as_any_dictionary();
    let values = d.values();
    if values.is_empty() {
        // empty dictionary: every row must be a null key
        return if d.keys().null_count() == a.len() { Ok(vec![None; a.len()]) } else { Err("GARBLED-ROW:0".into()) };
    }
    let nk = d.normalized_keys();
    let mut out = vec![];
    for i in 0..a.len() {
        if d.keys().is_null(i) {
            out.push(None);
            continue;
        }
        let k = nk[i];
        if k >= values.len() {
            return Err(format!("GARBLED-ROW:{}", i));
        }
        if values.is_null(k) {
            out.push(None);
            continue;
        }
        let bytes: &[u8] = match vkind {
            "lutf8" => values.as_string::<i64>().value(k).as_bytes(),
            "bin" => values.as_binary::<i32>().value(k),
            "lbin" => values.as_binary::<i64>().value(k),
            _ => values.as_string::<i32>().value(k).as_bytes(),
        };
        match sval_id(bytes) {
            Some(id) => out.push(Some(id)),
            None => return Err(format!("GARBLED-ROW:{}", i)),
        }
    }
    Ok(out)
}


fn data_type_of(ty: &str) -> DataType {
    match ty {
        "i32" => DataType::Int32,
        "i64" => DataType::Int64,
        "f64" => DataType::Float64,
        "ts" => DataType::Timestamp(arrow_schema::TimeUnit::Millisecond, Some("+01:00".into())),
        "bool" => DataType::Boolean,
        "utf8" => DataType::Utf8,
        "lutf8" => DataType::LargeUtf8,
        "bin" => DataType::Binary,
        "lbin" => DataType::LargeBinary,
        "sv" => DataType::Utf8View,
        "bv" => DataType::BinaryView,
        t if dict_kind(t).is_some() => {
            let (k, v) = dict_kind(t).unwrap();
            DataType::Dictionary(Box::new(key_type(k)), Box::new(value_type(v)))
        }
        "fsb" => DataType::FixedSizeBinary(3),
        "list" => DataType::List(Arc::new(Field::new_list_field(DataType::Int32, true))),
        "fsl" => DataType::FixedSizeList(Arc::new(Field::new_list_field(DataType::Int32, true)), 2),
        "struct" => DataType::Struct(struct_fields()),
        "dictp" => DataType::Dictionary(Box::new(DataType::Int32), Box::new(DataType::Int64)),
        "dec" => DataType::Decimal128(20, 3),
        "llist" => DataType::LargeList(Arc::new(Field::new_list_field(DataType::Int32, true))),
        "lv" => DataType::ListView(Arc::new(Field::new_list_field(DataType::Int32, true))),
        "map" => MapBuilder::new(None, StringBuilder::new(), Int32Builder::new()).finish().data_type().clone(),
        "ree" => ree_type(),
        "sunion" => DataType::Union(union_fields(), arrow_schema::UnionMode::Sparse),
        "dunion" => DataType::Union(union_fields(), arrow_schema::UnionMode::Dense),
        _ => panic!("bad type tag"),
    }
}
fn struct_fields() -> Fields {
    Fields::from(vec![Field::new("a", DataType::Int32, true), Field::new("b", DataType::Utf8, true)])
}

/// typed array holding exactly `rows` (no slicing); `salt` varies incidental layout
/// (dictionary order, values under nulls)
fn build_full(ty: &str, rows: &[Row], salt: usize) -> ArrayRef {
    let under = (salt as u32 % 5) + 90; // value stored under a null slot
    let nulls: Option<NullBuffer> = if rows.iter().all(|r| r.is_some()) && salt % 2 == 0 {
        None
    } else {
        Some(NullBuffer::from(rows.iter().map(|r| r.is_some()).collect::<Vec<bool>>()))
    };
    let ids: Vec<u32> = rows.iter().map(|r| r.unwrap_or(under)).collect();
    match ty {
        "i32" => Arc::new(Int32Array::new(ids.iter().map(|&k| k as i32 * 3 - 50).collect::<Vec<i32>>().into(), nulls)),
        "i64" => Arc::new(Int64Array::new(ids.iter().map(|&k| k as i64 * 1_000_000_007).collect::<Vec<i64>>().into(), nulls)),
        "f64" => Arc::new(Float64Array::new(ids.iter().map(|&k| k as f64 + 0.5).collect::<Vec<f64>>().into(), nulls)),
        "ts" => Arc::new(
            TimestampMillisecondArray::new(ids.iter().map(|&k| k as i64).collect::<Vec<i64>>().into(), nulls).with_timezone("+01:00"),
        ),
        "bool" => Arc::new(BooleanArray::new(ids.iter().map(|&k| k % 2 == 1).collect::<Vec<bool>>().into(), nulls)),
        "utf8" | "lutf8" | "bin" | "lbin" if salt % 2 == 1 => {
            // explicit offsets: a null slot covers the bytes of another value
            let entries: Vec<(Vec<u8>, bool)> = rows.iter().map(|r| (sval(r.unwrap_or(under)).into_bytes(), r.is_some())).collect();
            build_dict_values(ty, &entries)
        }
        "utf8" => Arc::new(StringArray::from_iter(rows.iter().map(|r| r.map(sval)))),
        "lutf8" => Arc::new(LargeStringArray::from_iter(rows.iter().map(|r| r.map(sval)))),
        "bin" => Arc::new(BinaryArray::from_iter(rows.iter().map(|r| r.map(|k| sval(k).into_bytes())))),
        "lbin" => Arc::new(LargeBinaryArray::from_iter(rows.iter().map(|r| r.map(|k| sval(k).into_bytes())))),
        "sv" => Arc::new(StringViewArray::from_iter(rows.iter().map(|r| r.map(sval)))),
        "bv" => Arc::new(BinaryViewArray::from_iter(rows.iter().map(|r| r.map(|k| sval(k).into_bytes())))),
        t if dict_kind(t).is_some() => build_dict(t, rows, salt),
        "fsb" => {
            let bytes: Vec<u8> = ids.iter().flat_map(|&k| [k as u8, k as u8 ^ 0x5a, 7]).collect();
            Arc::new(FixedSizeBinaryArray::new(3, Buffer::from_vec(bytes), nulls))
        }
        "list" => {
            // id 0 ↔ empty list, id k ↔ [k; 1 + k % 3]; a null row keeps a non-empty slot when salt is odd
            let mut b = ListBuilder::new(Int32Builder::new());
            for r in rows {
                match r {
                    Some(k) => {
                        if *k > 0 {
                            for j in 0..(1 + k % 3) {
                                if j == 1 { b.values().append_null() } else { b.values().append_value(*k as i32) }
                            }
                        }
                        b.append(true);
                    }
                    None => {
                        if salt % 2 == 1 {
                            b.values().append_value(-1);
                        }
                        b.append(false);
                    }
                }
            }
            Arc::new(b.finish())
        }
        "fsl" => {
            let vals: Vec<Option<i32>> = ids.iter().flat_map(|&k| [Some(k as i32), if k % 2 == 0 { None } else { Some(k as i32 + 1) }]).collect();
            Arc::new(FixedSizeListArray::new(
                Arc::new(Field::new_list_field(DataType::Int32, true)),
                2,
                Arc::new(Int32Array::from(vals)),
                nulls,
            ))
        }
        "struct" => {
            // children are valid (and hold junk) under a null struct row
            // (and are themselves slices at different offsets of longer arrays when salt % 3 != 0)
            let (oa, ob) = if salt % 3 == 0 { (0, 0) } else { (salt % 5 + 1, salt % 3 + 2) };
            let pad = |o: usize| -> Vec<u32> { (0..o).map(|i| 70 + i as u32).chain(ids.iter().copied()).chain([71u32]).collect() };
            let a = Int32Array::from(pad(oa).iter().map(|&k| k as i32).collect::<Vec<i32>>()).slice(oa, ids.len());
            let b = StringArray::from_iter_values(pad(ob).iter().map(|&k| sval(k))).slice(ob, ids.len());
            Arc::new(StructArray::new(struct_fields(), vec![Arc::new(a), Arc::new(b)], nulls))
        }
        "dec" => Arc::new(
            Decimal128Array::new(ids.iter().map(|&k| k as i128 * 1_000_003).collect::<Vec<i128>>().into(), nulls).with_precision_and_scale(20, 3).unwrap(),
        ),
        "dictp" => {
            // primitive dictionary values with a NULL slot whose payload equals a present value
            let mut present: Vec<u32> = rows.iter().flatten().copied().collect();
            present.sort();
            present.dedup();
            let mut vals: Vec<Option<i64>> = present.iter().map(|&k| Some(k as i64 * 7)).collect();
            vals.push(Some(999));
            let null_slot = vals.len();
            let payload = present.first().map(|&k| k as i64 * 7).unwrap_or(0);
            let values = Int64Array::new(
                vals.iter().map(|v| v.unwrap()).chain([payload]).collect::<Vec<i64>>().into(),
                Some(NullBuffer::from((0..=null_slot).map(|i| i != null_slot).collect::<Vec<bool>>())),
            );
            let mut kv = vec![];
            let keys: Vec<i32> = rows
                .iter()
                .enumerate()
                .map(|(i, r)| match r {
                    Some(id) => {
                        kv.push(true);
                        present.binary_search(id).unwrap() as i32
                    }
                    None if (i + salt) % 2 == 0 => {
                        kv.push(false);
                        0
                    }
                    None => {
                        kv.push(true);
                        null_slot as i32
                    }
                })
                .collect();
            let kn = if kv.iter().all(|b| *b) && salt % 2 == 0 { None } else { Some(NullBuffer::from(kv)) };
            Arc::new(DictionaryArray::<Int32Type>::new(Int32Array::new(keys.into(), kn), Arc::new(values)))
        }
        "llist" | "lv" => {
            let it = rows.iter().map(|r| {
                r.map(|k| if k == 0 { vec![] } else { (0..(1 + k % 3)).map(|j| if j == 1 { None } else { Some(k as i32) }).collect::<Vec<Option<i32>>>() })
            });
            if ty == "llist" {
                Arc::new(LargeListArray::from_iter_primitive::<Int32Type, _, _>(it))
            } else {
                Arc::new(ListViewArray::from_iter_primitive::<Int32Type, _, _>(it))
            }
        }
        "map" => {
            let mut b = MapBuilder::new(None, StringBuilder::new(), Int32Builder::new());
            for r in rows {
                match r {
                    Some(k) => {
                        if *k > 0 {
                            for j in 0..(1 + k % 2) {
                                b.keys().append_value(sval(*k + j));
                                b.values().append_value(*k as i32);
                            }
                        }
                        b.append(true).unwrap();
                    }
                    None => b.append(false).unwrap(),
                }
            }
            Arc::new(b.finish())
        }
        "ree" => {
            // runs: equal neighbours merged when salt is even, one run per row otherwise
            let mut run_rows: Vec<Row> = vec![];
            let mut ends: Vec<i32> = vec![];
            for (i, r) in rows.iter().enumerate() {
                if salt % 2 == 0 && !run_rows.is_empty() && run_rows.last().unwrap() == r {
                    *ends.last_mut().unwrap() = i as i32 + 1;
                } else {
                    run_rows.push(*r);
                    ends.push(i as i32 + 1);
                }
            }
            let values = build_full("i32", &run_rows, salt);
            Arc::new(RunArray::<Int32Type>::try_new(&Int32Array::from(ends), values.as_ref()).unwrap())
        }
        "sunion" | "dunion" => {
            // even id → child 0 (Int32), odd id → child 1 (Utf8); a null row is a null Int32 child slot
            let type_ids: Vec<i8> = rows.iter().map(|r| r.map(|k| (k % 2) as i8).unwrap_or(0)).collect();
            if ty == "sunion" {
                let a = Int32Array::from(rows.iter().map(|r| r.filter(|k| k % 2 == 0).map(|k| k as i32)).collect::<Vec<Option<i32>>>());
                let b = StringArray::from_iter(rows.iter().map(|r| r.filter(|k| k % 2 == 1).map(sval)));
                Arc::new(UnionArray::try_new(union_fields(), type_ids.into(), None, vec![Arc::new(a), Arc::new(b)]).unwrap())
            } else {
                let mut a: Vec<Option<i32>> = vec![];
                let mut b: Vec<Option<String>> = vec![];
                let mut offsets: Vec<i32> = vec![];
                for r in rows {
                    match r {
                        Some(k) if k % 2 == 1 => {
                            offsets.push(b.len() as i32);
                            b.push(Some(sval(*k)));
                        }
                        _ => {
                            offsets.push(a.len() as i32);
                            a.push(r.map(|k| k as i32));
                        }
                    }
                }
                Arc::new(UnionArray::try_new(union_fields(), type_ids.into(), Some(offsets.into()), vec![Arc::new(Int32Array::from(a)), Arc::new(StringArray::from(b))]).unwrap())
            }
        }
        _ => panic!("bad type tag"),
    }
}

fn junk_row(ty: &str, i: usize) -> Row {
    if i % 3 == 2 {
        None
    } else if ty == "bool" {
        Some((i % 2) as u32)
    } else {
        Some(80 + (i % 7) as u32)
    }
}

/// the array for `rows` in the physical realisation coded by `off` (kind = off / 100, k = off % 100):
///   0, k = 0  the whole array                    0, k > 0  middle slice: k leading and 2 trailing junk rows
///   1         head slice: no leading, k (≥ 1) trailing junk rows (first offset 0, child longer than referenced)
///   2         tail slice: k (≥ 1) leading junk rows, nothing trailing
///   3         List / LargeList / Map whose offsets start at k by construction (k unused leading child rows,
///             no slicing involved); other types: as kind 2
fn build(ty: &str, rows: &[Row], off: usize) -> ArrayRef {
    let (kind, k) = (off / 100, off % 100);
    if kind == 0 && k == 0 {
        return build_full(ty, rows, rows.len());
    }
    if kind >= 3 && ["list", "llist", "map"].contains(&ty) && k > 0 {
        let a = build_full(ty, rows, rows.len() + k);
        let junk = build_full(ty, &vec![Some(81); k], k);
        let nulls = a.nulls().cloned();
        return match ty {
            "list" | "llist" => {
                fn shifted<O: OffsetSizeTrait>(a: &GenericListArray<O>, junk: &GenericListArray<O>, k: usize, nulls: Option<NullBuffer>) -> ArrayRef {
                    let child = concat(&[junk.values().slice(0, k).as_ref(), a.values().as_ref()]).unwrap();
                    let offs: Vec<O> = a.value_offsets().iter().map(|o| *o + O::usize_as(k)).collect();
                    let field = match a.data_type() {
                        DataType::List(f) | DataType::LargeList(f) => f.clone(),
                        _ => unreachable!(),
                    };
                    Arc::new(GenericListArray::<O>::new(field, arrow_buffer::OffsetBuffer::new(offs.into()), child, nulls))
                }
                if ty == "list" { shifted::<i32>(a.as_list(), junk.as_list(), k, nulls) } else { shifted::<i64>(a.as_list(), junk.as_list(), k, nulls) }
            }
            _ => {
                let (m, j) = (a.as_map(), junk.as_map());
                let je: &dyn Array = j.entries();
                let me: &dyn Array = m.entries();
                let entries = concat(&[je.slice(0, k).as_ref(), me]).unwrap();
                let offs: Vec<i32> = m.value_offsets().iter().map(|o| *o + k as i32).collect();
                let field = match m.data_type() {
                    DataType::Map(f, _) => f.clone(),
                    _ => unreachable!(),
                };
                Arc::new(MapArray::new(field, arrow_buffer::OffsetBuffer::new(offs.into()), entries.as_struct().clone(), nulls, false))
            }
        };
    }
    let (lead, trail) = match kind {
        0 => (k, 2),
        1 => (0, k.max(1)),
        _ => (k.max(1), 0),
    };
    let mut full: Vec<Row> = (0..lead).map(|i| junk_row(ty, i)).collect();
    full.extend_from_slice(rows);
    for i in 0..trail {
        full.push(junk_row(ty, lead + i));
    }
    build_full(ty, &full, lead + rows.len() + 1).slice(lead, rows.len())
}

/// map a result array back to row ids; `Err` = the array does not hold what any input row held
fn decode(ty: &str, a: &dyn Array) -> Result<Vec<Row>, String> {
    if a.data_type() != &data_type_of(ty) {
        return Err(format!("TYPE:{}", a.data_type()));
    }
    // well-formedness of results is property C01's business: only counted here (tag `wf:…`)
    if a.to_data().validate_full().is_err() {
        INVALID_RESULTS.fetch_add(1, std::sync::atomic::Ordering::Relaxed);
    }
    if dict_kind(ty).is_some() {
        return decode_dict(ty, a);
    }
    if ty == "ree" {
        let r = a.as_any().downcast_ref::<RunArray<Int32Type>>().ok_or("TYPE")?;
        let vals = decode("i32", r.values().as_ref())?;
        return Ok((0..r.len()).map(|i| vals[r.get_physical_index(i)]).collect());
    }
    if ty == "sunion" || ty == "dunion" {
        let u = a.as_union();
        let mut out = vec![];
        for i in 0..u.len() {
            let v = u.value(i);
            if v.is_null(0) {
                out.push(None);
            } else if u.type_id(i) == 0 {
                let k = v.as_primitive::<Int32Type>().value(0) as u32;
                if k % 2 != 0 {
                    return Err(format!("GARBLED-ROW:{}", i));
                }
                out.push(Some(k));
            } else {
                match sval_id(v.as_string::<i32>().value(0).as_bytes()) {
                    Some(k) if k % 2 == 1 => out.push(Some(k)),
                    _ => return Err(format!("GARBLED-ROW:{}", i)),
                }
            }
        }
        return Ok(out);
    }
    if ty == "dictp" {
        let d = a.as_dictionary::<Int32Type>();
        let vals = d.values().as_primitive::<Int64Type>();
        let mut out = vec![];
        for i in 0..a.len() {
            if d.keys().is_null(i) {
                out.push(None);
                continue;
            }
            let k = d.keys().value(i) as usize;
            if k >= vals.len() {
                return Err(format!("GARBLED-ROW:{}", i));
            }
            if vals.is_null(k) {
                out.push(None);
            } else if vals.value(k) % 7 == 0 && vals.value(k) >= 0 {
                out.push(Some((vals.value(k) / 7) as u32));
            } else {
                return Err(format!("GARBLED-ROW:{}", i));
            }
        }
        return Ok(out);
    }
    let n = a.len();
    let mut out = Vec::with_capacity(n);
    for i in 0..n {
        if a.is_null(i) {
            out.push(None);
            continue;
        }
        let id: Option<u32> = match ty {
            "i32" => {
                let v = a.as_primitive::<Int32Type>().value(i) + 50;
                if v >= 0 && v % 3 == 0 { Some((v / 3) as u32) } else { None }
            }
            "i64" => {
                let v = a.as_primitive::<Int64Type>().value(i);
                if v >= 0 && v % 1_000_000_007 == 0 { Some((v / 1_000_000_007) as u32) } else { None }
            }
            "f64" => Some((a.as_primitive::<Float64Type>().value(i) - 0.5) as u32),
            "ts" => Some(a.as_primitive::<TimestampMillisecondType>().value(i) as u32),
            "bool" => Some(a.as_boolean().value(i) as u32),
            "utf8" => sval_id(a.as_string::<i32>().value(i).as_bytes()),
            "lutf8" => sval_id(a.as_string::<i64>().value(i).as_bytes()),
            "bin" => sval_id(a.as_binary::<i32>().value(i)),
            "lbin" => sval_id(a.as_binary::<i64>().value(i)),
            "sv" => sval_id(a.as_string_view().value(i).as_bytes()),
            "bv" => sval_id(a.as_binary_view().value(i)),
            "fsb" => {
                let v = a.as_fixed_size_binary().value(i);
                if v[1] == v[0] ^ 0x5a && v[2] == 7 { Some(v[0] as u32) } else { None }
            }
            "list" => {
                let v = a.as_list::<i32>().value(i);
                let v = v.as_primitive::<Int32Type>();
                if v.is_empty() {
                    Some(0)
                } else {
                    let k = v.value(0) as u32;
                    let ok = k > 0
                        && v.len() == (1 + k % 3) as usize
                        && (0..v.len()).all(|j| if j == 1 { v.is_null(j) } else { v.is_valid(j) && v.value(j) as u32 == k });
                    if ok { Some(k) } else { None }
                }
            }
            "fsl" => {
                let v = a.as_fixed_size_list().value(i);
                let v = v.as_primitive::<Int32Type>();
                let k = v.value(0);
                let ok = v.len() == 2 && v.is_valid(0) && (if k % 2 == 0 { v.is_null(1) } else { v.is_valid(1) && v.value(1) == k + 1 });
                if ok { Some(k as u32) } else { None }
            }
            "dec" => {
                let v = a.as_primitive::<Decimal128Type>().value(i);
                if v >= 0 && v % 1_000_003 == 0 { Some((v / 1_000_003) as u32) } else { None }
            }
            "llist" | "lv" => {
                let v = if ty == "llist" { a.as_list::<i64>().value(i) } else { a.as_list_view::<i32>().value(i) };
                let v = v.as_primitive::<Int32Type>();
                if v.is_empty() {
                    Some(0)
                } else {
                    let k = v.value(0) as u32;
                    let ok = k > 0
                        && v.len() == (1 + k % 3) as usize
                        && (0..v.len()).all(|j| if j == 1 { v.is_null(j) } else { v.is_valid(j) && v.value(j) as u32 == k });
                    if ok { Some(k) } else { None }
                }
            }
            "map" => {
                let e = a.as_map().value(i);
                if e.len() == 0 {
                    Some(0)
                } else {
                    let k = e.column(1).as_primitive::<Int32Type>().value(0) as u32;
                    let ok = k > 0
                        && e.len() == (1 + k % 2) as usize
                        && (0..e.len()).all(|j| sval_id(e.column(0).as_string::<i32>().value(j).as_bytes()) == Some(k + j as u32) && e.column(1).as_primitive::<Int32Type>().value(j) as u32 == k);
                    if ok { Some(k) } else { None }
                }
            }
            "struct" => {
                let s = a.as_struct();
                let k = s.column(0).as_primitive::<Int32Type>().value(i) as u32;
                if s.column(0).is_valid(i) && s.column(1).is_valid(i) && sval_id(s.column(1).as_string::<i32>().value(i).as_bytes()) == Some(k) {
                    Some(k)
                } else {
                    None
                }
            }
            _ => None,
        };
        match id {
            Some(k) => out.push(Some(k)),
            None => return Err(format!("GARBLED-ROW:{}", i)),
        }
    }
    Ok(out)
}

fn show_decoded(ty: &str, a: &dyn Array) -> String {
    match decode(ty, a) {
        Ok(r) => show_rows(&r),
        Err(e) => format!("BAD:{}", e),
    }
}

fn err_class(e: &ArrowError) -> String {
    match e {
        ArrowError::InvalidArgumentError(_) => "ERR:arg".into(),
        ArrowError::ComputeError(_) => "ERR:compute".into(),
        ArrowError::OffsetOverflowError(_) => "ERR:overflow".into(),
        ArrowError::NotYetImplemented(_) => "ERR:not-impl".into(),
        _ => "ERR:other".into(),
    }
}

/// predicate array: null slots keep an underlying `true` value bit; sliced at `moff`
fn build_mask(mask: &[Option<bool>], moff: usize) -> BooleanArray {
    let moff = moff % 100;
    let mut full: Vec<Option<bool>> = (0..moff).map(|i| if i % 3 == 0 { None } else { Some(i % 2 == 0) }).collect();
    full.extend_from_slice(mask);
    if moff > 0 {
        full.push(Some(true));
    }
    let values: BooleanBuffer = full.iter().map(|b| b.unwrap_or(true)).collect();
    let nulls = if full.iter().all(|b| b.is_some()) && moff % 2 == 0 {
        None
    } else {
        Some(NullBuffer::from(full.iter().map(|b| b.is_some()).collect::<Vec<bool>>()))
    };
    let a = BooleanArray::new(values, nulls);
    if moff > 0 { a.slice(moff, mask.len()) } else { a }
}

/// index item: (raw value, valid)
fn parse_idx(s: &str) -> Vec<(i128, bool)> {
    if s == "-" {
        return vec![];
    }
    s.split(',')
        .map(|t| {
            if let Some(rest) = t.strip_prefix('n') {
                (if rest.is_empty() { 0 } else { rest.parse().expect("idx") }, false)
            } else {
                (t.parse().expect("idx"), true)
            }
        })
        .collect()
}

fn build_idx(ity: &str, items: &[(i128, bool)], ioff: usize) -> ArrayRef {
    let ioff = ioff % 100;
    let mut full: Vec<(i128, bool)> = (0..ioff).map(|i| (i as i128 % 3, i % 2 == 0)).collect();
    full.extend_from_slice(items);
    let nulls = if full.iter().all(|x| x.1) && ioff % 2 == 0 { None } else { Some(NullBuffer::from(full.iter().map(|x| x.1).collect::<Vec<bool>>())) };
    macro_rules! mk {
        ($t:ty, $n:ty) => {{
            let v: Vec<$n> = full.iter().map(|x| x.0 as $n).collect();
            Arc::new(PrimitiveArray::<$t>::new(ScalarBuffer::from(v), nulls)) as ArrayRef
        }};
    }
    let a = match ity {
        "i8" => mk!(Int8Type, i8),
        "u8" => mk!(UInt8Type, u8),
        "i16" => mk!(Int16Type, i16),
        "u16" => mk!(UInt16Type, u16),
        "i32" => mk!(Int32Type, i32),
        "u32" => mk!(UInt32Type, u32),
        "i64" => mk!(Int64Type, i64),
        "u64" => mk!(UInt64Type, u64),
        _ => panic!("bad index type"),
    };
    if ioff > 0 { a.slice(ioff, items.len()) } else { a }
}

fn us(s: &str) -> usize {
    s.parse().expect("usize")
}

/// `off:rows;off:rows;…`
fn parse_arrs(ty: &str, s: &str) -> Vec<ArrayRef> {
    if s == "-" {
        return vec![];
    }
    if ty == "dicts" {
        // all inputs are slices of ONE dictionary array: same values buffers (ptr_eq fast path)
        let parts: Vec<Vec<Row>> = s.split(';').map(|a| parse_rows(a.split_once(':').expect("arr").1)).collect();
        let all: Vec<Row> = parts.iter().flatten().copied().collect();
        let big = build_full(ty, &all, all.len() + 1);
        let mut at = 0;
        return parts
            .iter()
            .map(|p| {
                let x = big.slice(at, p.len());
                at += p.len();
                x
            })
            .collect();
    }
    s.split(';')
        .map(|a| {
            let (off, rows) = a.split_once(':').expect("arr");
            build(ty, &parse_rows(rows), us(off))
        })
        .collect()
}

fn coalesce_columns(ty: &str) -> Vec<&str> {
    ty.split('+').collect()
}
fn coalesce_schema(ty: &str) -> SchemaRef {
    Arc::new(Schema::new(
        coalesce_columns(ty).iter().enumerate().map(|(i, t)| Field::new(format!("c{i}"), data_type_of(t), true)).collect::<Vec<_>>(),
    ))
}
fn coalesce_batch(ty: &str, schema: &SchemaRef, rows: &[Row], off: usize) -> RecordBatch {
    let cols: Vec<ArrayRef> = coalesce_columns(ty).iter().enumerate().map(|(i, t)| build(t, rows, if off > 0 { off + i } else { 0 })).collect();
    RecordBatch::try_new(schema.clone(), cols).expect("batch")
}
/// rows of a batch (all columns must agree)
fn decode_batch(ty: &str, b: &RecordBatch) -> String {
    let mut res: Option<String> = None;
    for (i, t) in coalesce_columns(ty).iter().enumerate() {
        if b.column(i).len() != b.num_rows() {
            return "BAD:ROWCOUNT".into();
        }
        let s = show_decoded(t, b.column(i).as_ref());
        match &res {
            None => res = Some(s),
            Some(p) if *p != s => return format!("BAD:COLUMNS-DIFFER:{}/{}", p, s),
            _ => {}
        }
    }
    res.unwrap_or_else(|| "-".into())
}


/// physical byte array token `<offsets>/<datahex>/<validity|->` → Binary (wide = LargeBinary)
fn build_bytes(wide: bool, tok: &str) -> ArrayRef {
    let f: Vec<&str> = tok.split('/').collect();
    let offs: Vec<i64> = parse_list(f[0]);
    let data = Buffer::from_vec(unhex(f[1]));
    let nulls = if f[2] == "-" { None } else { Some(NullBuffer::from(parse_bits(f[2]))) };
    if wide {
        Arc::new(LargeBinaryArray::new(arrow_buffer::OffsetBuffer::new(ScalarBuffer::from(offs)), data, nulls))
    } else {
        let o: Vec<i32> = offs.iter().map(|x| *x as i32).collect();
        Arc::new(BinaryArray::new(arrow_buffer::OffsetBuffer::new(ScalarBuffer::from(o)), data, nulls))
    }
}
/// physical observable of a byte array: offsets as stored, the whole value buffer, validity
fn show_bytes(wide: bool, a: &dyn Array) -> String {
    // validity is reported as `-` when there is no null (buffer present or not)
    let nulls = |n: Option<&NullBuffer>| match n {
        Some(n) if n.null_count() > 0 => show_bits(&n.iter().collect::<Vec<bool>>()),
        _ => "-".to_string(),
    };
    if wide {
        let b = a.as_binary::<i64>();
        format!("o={} d={} n={}", show_list(&b.value_offsets().to_vec()), hex(b.value_data()), nulls(b.nulls()))
    } else {
        let b = a.as_binary::<i32>();
        format!("o={} d={} n={}", show_list(&b.value_offsets().to_vec()), hex(b.value_data()), nulls(b.nulls()))
    }
}
fn apply_filter_variant(var: usize, a: &dyn Array, m: &BooleanArray) -> Result<ArrayRef, ArrowError> {
    match var % 3 {
        0 => filter(a, m),
        1 => FilterBuilder::new(m).build().filter(a),
        _ => FilterBuilder::new(m).optimize().build().filter(a),
    }
}
fn parse_pairs(pairs: &str) -> Vec<(usize, usize)> {
    if pairs == "-" {
        vec![]
    } else {
        pairs
            .split(',')
            .map(|p| {
                let (a, b) = p.split_once('.').unwrap();
                (us(a), us(b))
            })
            .collect()
    }
}

fn run_phys(t: &[&str]) -> String {
    match t[1] {
        "bfilter" => {
            // C03 bfilter <wide> <variant> <bytes-array> <moff> <mask>
            let (wide, var, tok, moff, mask) = (t[2] == "1", us(t[3]), t[4].to_string(), us(t[5]), parse_mask(t[6]));
            guarded(move || {
                let a = build_bytes(wide, &tok);
                match apply_filter_variant(var, a.as_ref(), &build_mask(&mask, moff)) {
                    Ok(x) => show_bytes(wide, x.as_ref()),
                    Err(e) => err_class(&e),
                }
            })
        }
        "btake" => {
            // C03 btake <wide> <ity> <bytes-array> <ioff> <indices>   (in-range indices only)
            let (wide, ity, tok, ioff, idx) = (t[2] == "1", t[3].to_string(), t[4].to_string(), us(t[5]), parse_idx(t[6]));
            guarded(move || {
                let a = build_bytes(wide, &tok);
                match take(a.as_ref(), build_idx(&ity, &idx, ioff).as_ref(), None) {
                    Ok(x) => show_bytes(wide, x.as_ref()),
                    Err(e) => err_class(&e),
                }
            })
        }
        "bconcat" | "binterleave" => {
            // C03 bconcat <wide> <arr;arr;…>      C03 binterleave <wide> <arr;arr;…> <a.b,…>
            let (op, wide, toks) = (t[1].to_string(), t[2] == "1", t[3].to_string());
            let pairs = if t.len() > 4 { t[4].to_string() } else { "-".to_string() };
            guarded(move || {
                let arrs: Vec<ArrayRef> = toks.split(';').map(|x| build_bytes(wide, x)).collect();
                let refs: Vec<&dyn Array> = arrs.iter().map(|a| a.as_ref()).collect();
                let r = if op == "bconcat" { concat(&refs) } else { interleave(&refs, &parse_pairs(&pairs)) };
                match r {
                    Ok(x) => show_bytes(wide, x.as_ref()),
                    Err(e) => err_class(&e),
                }
            })
        }
        "fsbfilter" | "fsbtake" => {
            // C03 fsbfilter <width> <variant> <datahex> <validity|-> <moff> <mask>
            // C03 fsbtake   <width> <ity>     <datahex> <validity|-> <ioff> <indices>
            let (op, w, p3, data, nl, off, last) = (t[1].to_string(), us(t[2]), t[3].to_string(), unhex(t[4]), t[5].to_string(), us(t[6]), t[7].to_string());
            guarded(move || {
                let nulls = if nl == "-" { None } else { Some(NullBuffer::from(parse_bits(&nl))) };
                let a = FixedSizeBinaryArray::new(w as i32, Buffer::from_vec(data), nulls);
                let r = if op == "fsbfilter" {
                    apply_filter_variant(us(&p3), &a, &build_mask(&parse_mask(&last), off))
                } else {
                    take(&a, build_idx(&p3, &parse_idx(&last), off).as_ref(), None)
                };
                match r {
                    Ok(x) => {
                        let b = x.as_fixed_size_binary();
                        let n = match b.nulls() {
                            Some(n) if n.null_count() > 0 => show_bits(&n.iter().collect::<Vec<bool>>()),
                            _ => "-".to_string(),
                        };
                        // value bytes under a null slot are not part of the contract: zero them
                        let mut d = b.value_data()[..b.len() * w].to_vec();
                        for i in 0..b.len() {
                            if b.is_null(i) {
                                d[i * w..(i + 1) * w].fill(0);
                            }
                        }
                        format!("d={} n={}", hex(&d), n)
                    }
                    Err(e) => err_class(&e),
                }
            })
        }
        "lconcat" => {
            // C03 lconcat <list|llist|map> <variant> <offsets/childhex/validity;…>: concat of offset-based nested arrays
            // given physically; a child row is one byte b (List: Int32 b; Map: key "k<b>", value b).
            // variant 0 concat, 1 concat_batches, 2 BatchCoalescer (push each, finish)
            let (kind, var, toks) = (t[2].to_string(), us(t[3]), t[4].to_string());
            guarded(move || {
                let arrs: Vec<ArrayRef> = toks
                    .split(';')
                    .map(|tok| {
                        let f: Vec<&str> = tok.split('/').collect();
                        let offs: Vec<i64> = parse_list(f[0]);
                        let child: Vec<u8> = unhex(f[1]);
                        let nulls = if f[2] == "-" { None } else { Some(NullBuffer::from(parse_bits(f[2]))) };
                        let vals = Int32Array::from(child.iter().map(|b| *b as i32).collect::<Vec<i32>>());
                        let o32 = arrow_buffer::OffsetBuffer::new(ScalarBuffer::from(offs.iter().map(|x| *x as i32).collect::<Vec<i32>>()));
                        match kind.as_str() {
                            "list" => Arc::new(ListArray::new(Arc::new(Field::new_list_field(DataType::Int32, true)), o32, Arc::new(vals), nulls)) as ArrayRef,
                            "llist" => Arc::new(LargeListArray::new(
                                Arc::new(Field::new_list_field(DataType::Int32, true)),
                                arrow_buffer::OffsetBuffer::new(ScalarBuffer::from(offs.clone())),
                                Arc::new(vals),
                                nulls,
                            )),
                            _ => {
                                let keys = StringArray::from_iter_values(child.iter().map(|b| format!("k{b}")));
                                let field = match data_type_of("map") {
                                    DataType::Map(f, _) => f,
                                    _ => unreachable!(),
                                };
                                let fields = match field.data_type() {
                                    DataType::Struct(fs) => fs.clone(),
                                    _ => unreachable!(),
                                };
                                let entries = StructArray::new(fields, vec![Arc::new(keys), Arc::new(vals)], None);
                                Arc::new(MapArray::new(field, o32, entries, nulls, false))
                            }
                        }
                    })
                    .collect();
                let refs: Vec<&dyn Array> = arrs.iter().map(|a| a.as_ref()).collect();
                let schema = Arc::new(Schema::new(vec![Field::new("c0", arrs[0].data_type().clone(), true)]));
                let bs: Vec<RecordBatch> = arrs.iter().map(|a| RecordBatch::try_new(schema.clone(), vec![a.clone()]).unwrap()).collect();
                let r: Result<ArrayRef, ArrowError> = match var % 3 {
                    0 => concat(&refs),
                    1 => concat_batches(&schema, bs.iter()).map(|b| b.column(0).clone()),
                    _ => {
                        let mut c = BatchCoalescer::new(schema.clone(), 1 << 20);
                        for b in bs {
                            c.push_batch(b).unwrap();
                        }
                        c.finish_buffered_batch().unwrap();
                        match c.next_completed_batch() {
                            Some(b) => Ok(b.column(0).clone()),
                            None => Ok(arrs[0].slice(0, 0)),
                        }
                    }
                };
                match r {
                    Ok(x) => {
                        // logical rows: each slot as the hex string of its child bytes (key/value consistency checked for maps)
                        let rows: Vec<String> = (0..x.len())
                            .map(|i| {
                                if x.is_null(i) {
                                    return "n".to_string();
                                }
                                let bytes: Vec<u8> = match kind.as_str() {
                                    "list" => x.as_list::<i32>().value(i).as_primitive::<Int32Type>().values().iter().map(|v| *v as u8).collect(),
                                    "llist" => x.as_list::<i64>().value(i).as_primitive::<Int32Type>().values().iter().map(|v| *v as u8).collect(),
                                    _ => {
                                        let e = x.as_map().value(i);
                                        let (k, v) = (e.column(0).as_string::<i32>(), e.column(1).as_primitive::<Int32Type>());
                                        (0..e.len()).map(|j| if k.value(j) == format!("k{}", v.value(j)) { v.value(j) as u8 } else { 0xEE }).collect()
                                    }
                                };
                                hex(&bytes)
                            })
                            .collect();
                        show_list(&rows)
                    }
                    Err(e) => err_class(&e),
                }
            })
        }
        "dconcat" => {
            // C03 dconcat <ktype> <variant> <keys/values;…> <pairs|->
            //   keys: `n` | index;  values: `e` (empty) | hex valid, `n` | `n<hex>` NULL slot over those bytes
            //   variant 0 concat, 1 concat_batches, 2 interleave (pairs), 3 interleave_record_batch (pairs)
            let (kt, var, toks, pairs) = (t[2].to_string(), us(t[3]), t[4].to_string(), t[5].to_string());
            guarded(move || {
                let arrs: Vec<ArrayRef> = toks
                    .split(';')
                    .map(|d| {
                        let (ks, vs) = d.split_once('/').unwrap();
                        let entries: Vec<(Vec<u8>, bool)> = if vs == "-" {
                            vec![]
                        } else {
                            vs.split(',')
                                .map(|v| match v {
                                    "e" => (vec![], true),
                                    "n" => (vec![], false),
                                    _ if v.starts_with('n') => (unhex(&v[1..]), false),
                                    _ => (unhex(v), true),
                                })
                                .collect()
                        };
                        let values = build_dict_values("bin", &entries);
                        let keys: Vec<Option<u64>> = if ks == "-" { vec![] } else { ks.split(',').map(|k| if k == "n" { None } else { Some(k.parse().unwrap()) }).collect() };
                        macro_rules! mk {
                            ($t:ty, $n:ty) => {
                                Arc::new(DictionaryArray::<$t>::new(PrimitiveArray::<$t>::from(keys.iter().map(|k| k.map(|x| x as $n)).collect::<Vec<Option<$n>>>()), values)) as ArrayRef
                            };
                        }
                        match kt.as_str() {
                            "i8" => mk!(Int8Type, i8),
                            "u16" => mk!(UInt16Type, u16),
                            _ => mk!(Int32Type, i32),
                        }
                    })
                    .collect();
                let refs: Vec<&dyn Array> = arrs.iter().map(|a| a.as_ref()).collect();
                let schema = Arc::new(Schema::new(vec![Field::new("c0", arrs[0].data_type().clone(), true)]));
                let bs: Vec<RecordBatch> = arrs.iter().map(|a| RecordBatch::try_new(schema.clone(), vec![a.clone()]).unwrap()).collect();
                let r = match var % 4 {
                    0 => concat(&refs),
                    1 => concat_batches(&schema, bs.iter()).map(|b| b.column(0).clone()),
                    2 => interleave(&refs, &parse_pairs(&pairs)),
                    _ => arrow_select::interleave::interleave_record_batch(&bs.iter().collect::<Vec<_>>(), &parse_pairs(&pairs)).map(|b| b.column(0).clone()),
                };
                match r {
                    Ok(x) => {
                        let d = x.as_any_dictionary();
                        let vals = d.values().as_binary::<i32>();
                        let nk = if vals.is_empty() { vec![] } else { d.normalized_keys() };
                        let rows: Vec<String> = (0..x.len())
                            .map(|i| {
                                if d.keys().is_null(i) || vals.is_empty() || vals.is_null(nk[i]) {
                                    "n".to_string()
                                } else if vals.value(nk[i]).is_empty() {
                                    "e".to_string()
                                } else {
                                    hex(vals.value(nk[i]))
                                }
                            })
                            .collect();
                        show_list(&rows)
                    }
                    Err(e) => err_class(&e),
                }
            })
        }
        "slices" => {
            // C03 slices <moff> <mask>: SlicesIterator (raw value bits, validity ignored) + FilterPredicate::count
            let (moff, mask) = (us(t[2]), parse_mask(t[3]));
            guarded(move || {
                let m = build_mask(&mask, moff);
                let a: Vec<String> = arrow_select::filter::SlicesIterator::new(&m).map(|(s, e)| format!("{}:{}", s, e)).collect();
                let b: Vec<String> = arrow_select::filter::SlicesIterator::from(m.values()).map(|(s, e)| format!("{}:{}", s, e)).collect();
                assert_eq!(a, b);
                format!("s={} c={}", show_list(&a), FilterBuilder::new(&m).optimize().build().count())
            })
        }
        "prepmask" => {
            // C03 prepmask <moff> <mask with at least one null>: prep_null_mask_filter
            let (moff, mask) = (us(t[2]), parse_mask(t[3]));
            guarded(move || {
                let m = build_mask(&mask, moff);
                if m.nulls().is_none() {
                    return "NO-NULL-BUFFER".into();
                }
                let r = arrow_select::filter::prep_null_mask_filter(&m);
                format!("{} nulls={}", show_bits(&r.values().iter().collect::<Vec<bool>>()), r.nulls().is_some() as u8)
            })
        }
        "filternulls" => {
            // C03 filternulls <variant> <validity bits|-> <moff> <mask>: FilterPredicate::filter_nulls
            let (var, bits, moff, mask) = (us(t[2]), t[3].to_string(), us(t[4]), parse_mask(t[5]));
            guarded(move || {
                let m = build_mask(&mask, moff);
                let p = if var % 2 == 0 { FilterBuilder::new(&m).build() } else { FilterBuilder::new(&m).optimize().build() };
                let nb = if bits == "-" { None } else { Some(NullBuffer::from(parse_bits(&bits))) };
                match p.filter_nulls(nb.as_ref()) {
                    None => "-".into(),
                    Some(n) => format!("{}/{}", show_bits(&n.iter().collect::<Vec<bool>>()), n.null_count()),
                }
            })
        }
        "gc" => {
            // C03 gc <dict type> <off> <rows>: garbage_collect_any_dictionary
            let (ty, off, rows) = (t[2].to_string(), us(t[3]), parse_rows(t[4]));
            guarded(move || {
                let a = build(&ty, &rows, off);
                let d = a.as_any_dictionary();
                // distinct value slots referenced by valid keys
                let mut used: Vec<usize> = if d.values().is_empty() { vec![] } else { d.normalized_keys().iter().enumerate().filter(|(i, _)| d.keys().is_valid(*i)).map(|(_, k)| *k).collect() };
                used.sort();
                used.dedup();
                match arrow_select::dictionary::garbage_collect_any_dictionary(d) {
                    Ok(x) => {
                        let n = x.as_any_dictionary().values().len();
                        let untouched = used.len() == d.values().len();
                        if n != used.len() && !untouched {
                            return format!("BAD:GC-KEPT-{}-OF-{}-USED", n, used.len());
                        }
                        show_decoded(&ty, x.as_ref())
                    }
                    Err(e) => err_class(&e),
                }
            })
        }
        "slice" => {
            // C03 slice <ty> <off> <rows> <start> <len>: Array::slice of an already sliced array
            let (ty, off, rows, a0, len) = (t[2].to_string(), us(t[3]), parse_rows(t[4]), us(t[5]), us(t[6]));
            guarded(move || show_decoded(&ty, build(&ty, &rows, off).slice(a0, len).as_ref()))
        }
        "ree" => {
            // C03 ree <variant> <run_ends> <value rows> <off> <len> <moff> <mask>: filter a sliced RunArray<Int32, Int32>
            let (var, ends, vals, off, len, moff, mask) =
                (us(t[2]), parse_list::<i32>(t[3]), parse_rows(t[4]), us(t[5]), us(t[6]), us(t[7]), parse_mask(t[8]));
            guarded(move || {
                let values = build("i32", &vals, 0);
                let ra = RunArray::<Int32Type>::try_new(&Int32Array::from(ends), values.as_ref()).unwrap();
                let ra = ra.slice(off, len);
                match apply_filter_variant(var, &ra, &build_mask(&mask, moff)) {
                    Ok(x) => {
                        let r = x.as_any().downcast_ref::<RunArray<Int32Type>>().unwrap();
                        format!("ends={} vals={}", show_list(&r.run_ends().values().to_vec()), show_decoded("i32", r.values().as_ref()))
                    }
                    Err(e) => err_class(&e),
                }
            })
        }
        _ => "bad-op".into(),
    }
}

fn run_case(line: &str) -> String {
    let t: Vec<&str> = line.split(' ').collect();
    assert_eq!(t[0], "C03");
    match t[1] {
        "bfilter" | "btake" | "bconcat" | "binterleave" | "fsbfilter" | "fsbtake" | "ree" | "dconcat" | "lconcat" | "slices" | "prepmask" | "filternulls" | "gc" | "slice" => run_phys(&t),
        "filter" => {
            // C03 filter <ty> <variant> <off> <rows> <moff> <mask>
            let (ty, var, off, rows, moff, mask) = (t[2], us(t[3]), us(t[4]), parse_rows(t[5]), us(t[6]), parse_mask(t[7]));
            guarded(move || {
                let a = build(ty, &rows, off);
                let m = build_mask(&mask, moff);
                let r = match var % 5 {
                    0 => filter(a.as_ref(), &m),
                    1 => FilterBuilder::new(&m).build().filter(a.as_ref()),
                    2 => FilterBuilder::new(&m).optimize().build().filter(a.as_ref()),
                    3 => {
                        // record batch form: second column carries the same ids as Int32
                        let ids = build("i32", &rows, 0);
                        let schema = Arc::new(Schema::new(vec![Field::new("c0", data_type_of(ty), true), Field::new("c1", DataType::Int32, true)]));
                        let b = RecordBatch::try_new(schema, vec![a.clone(), ids]).unwrap();
                        match filter_record_batch(&b, &m) {
                            Ok(fb) => {
                                let x = show_decoded(ty, fb.column(0).as_ref());
                                let y = show_decoded("i32", fb.column(1).as_ref());
                                if x != y || fb.num_rows() != fb.column(0).len() {
                                    return format!("BAD:COLUMNS-DIFFER:{}/{}", x, y);
                                }
                                Ok(fb.column(0).clone())
                            }
                            Err(e) => Err(e),
                        }
                    }
                    _ => {
                        let schema = Arc::new(Schema::new(vec![Field::new("c0", data_type_of(ty), true)]));
                        let b = RecordBatch::try_new(schema, vec![a.clone()]).unwrap();
                        FilterBuilder::new(&m).optimize().build().filter_record_batch(&b).map(|fb| fb.column(0).clone())
                    }
                };
                match r {
                    Ok(x) => show_decoded(ty, x.as_ref()),
                    Err(e) => err_class(&e),
                }
            })
        }
        "take" => {
            // C03 take <ty> <ity> <check> <off> <rows> <ioff> <indices>
            let (ty, ity, check, off, rows, ioff, idx) = (t[2], t[3], t[4] == "1", us(t[5]), parse_rows(t[6]), us(t[7]), parse_idx(t[8]));
            // failure classes: `ERR:oob` = the ComputeError of check_bounds; every other failure
            // (panic, or an error raised deeper inside a kernel) is `FAIL` — the property only
            // says that an out-of-range valid index is not answered with rows
            let r = guarded(move || {
                let a = build(ty, &rows, off);
                let ia = build_idx(ity, &idx, ioff);
                // entry points: take (ioff % 3 == 0), take_arrays over two columns (== 1),
                // take_record_batch (== 2, it has no options: only used when check_bounds is off)
                let ids = build("i32", &rows, 0);
                let both_cols = |cols: &[ArrayRef]| -> Result<ArrayRef, ArrowError> {
                    let x = show_decoded(ty, cols[0].as_ref());
                    let y = show_decoded("i32", cols[1].as_ref());
                    if x != y { Err(ArrowError::CastError(format!("BAD:COLUMNS-DIFFER:{}/{}", x, y))) } else { Ok(cols[0].clone()) }
                };
                let r = match ioff % 3 {
                    1 => arrow_select::take::take_arrays(&[a.clone(), ids], ia.as_ref(), Some(TakeOptions { check_bounds: check })).and_then(|c| both_cols(&c)),
                    2 if !check => {
                        let schema = Arc::new(Schema::new(vec![Field::new("c0", data_type_of(ty), true), Field::new("c1", DataType::Int32, true)]));
                        let b = RecordBatch::try_new(schema, vec![a.clone(), ids]).unwrap();
                        arrow_select::take::take_record_batch(&b, ia.as_ref()).and_then(|b| both_cols(b.columns()))
                    }
                    _ => take(a.as_ref(), ia.as_ref(), Some(TakeOptions { check_bounds: check })),
                };
                match r {
                    Ok(x) => show_decoded(ty, x.as_ref()),
                    Err(ArrowError::ComputeError(_)) => "ERR:oob".into(),
                    Err(ArrowError::CastError(m)) if m.starts_with("BAD:") => m,
                    Err(e) => err_class(&e),
                }
            });
            // FixedSizeList take has its own in-kernel bounds test returning the same error class
            // as check_bounds: for it the two failure kinds are not distinguished
            if r == "PANIC" || (r.starts_with("ERR:") && (r != "ERR:oob" || ty == "fsl")) { "FAIL".into() } else { r }
        }
        "concat" => {
            // C03 concat <ty> <variant> <off:rows;…>
            let (ty, var, arrs) = (t[2], us(t[3]), t[4]);
            guarded(move || {
                let arrs = parse_arrs(ty, arrs);
                let refs: Vec<&dyn Array> = arrs.iter().map(|a| a.as_ref()).collect();
                if var % 2 == 0 || arrs.is_empty() {
                    match concat(&refs) {
                        Ok(x) => show_decoded(ty, x.as_ref()),
                        Err(e) => err_class(&e),
                    }
                } else {
                    let schema = Arc::new(Schema::new(vec![Field::new("c0", data_type_of(ty), true)]));
                    let bs: Vec<RecordBatch> = arrs.iter().map(|a| RecordBatch::try_new(schema.clone(), vec![a.clone()]).unwrap()).collect();
                    match concat_batches(&schema, bs.iter()) {
                        Ok(b) => show_decoded(ty, b.column(0).as_ref()),
                        Err(e) => err_class(&e),
                    }
                }
            })
        }
        "interleave" => {
            // C03 interleave <ty> <off:rows;…> <a.b,a.b,…>
            let (ty, arrs, pairs) = (t[2], t[3], t[4]);
            guarded(move || {
                let arrs = parse_arrs(ty, arrs);
                let refs: Vec<&dyn Array> = arrs.iter().map(|a| a.as_ref()).collect();
                let pairs: Vec<(usize, usize)> = if pairs == "-" {
                    vec![]
                } else {
                    pairs
                        .split(',')
                        .map(|p| {
                            let (a, b) = p.split_once('.').unwrap();
                            (us(a), us(b))
                        })
                        .collect()
                };
                if pairs.len() % 2 == 1 {
                    // record-batch form
                    let schema = Arc::new(Schema::new(vec![Field::new("c0", data_type_of(ty), true)]));
                    let bs: Vec<RecordBatch> = arrs.iter().map(|a| RecordBatch::try_new(schema.clone(), vec![a.clone()]).unwrap()).collect();
                    let brefs: Vec<&RecordBatch> = bs.iter().collect();
                    return match arrow_select::interleave::interleave_record_batch(&brefs, &pairs) {
                        Ok(b) => show_decoded(ty, b.column(0).as_ref()),
                        Err(e) => err_class(&e),
                    };
                }
                match interleave(&refs, &pairs) {
                    Ok(x) => show_decoded(ty, x.as_ref()),
                    Err(e) => err_class(&e),
                }
            })
        }
        "zip" | "merge" => {
            // C03 zip|merge <ty> <moff> <mask> <truthy> <falsy>
            //   operand: a:<off>:<rows> array | s:<row>[:<off>] scalar (a 1-row slice at <off> of a longer array)
            let (op, ty, moff, mask, tr, fa) = (t[1], t[2], us(t[3]), parse_mask(t[4]), t[5], t[6]);
            guarded(move || {
                let m = build_mask(&mask, moff);
                let operand = |s: &str| -> (ArrayRef, bool) {
                    let f: Vec<&str> = s.split(':').collect();
                    if f[0] == "s" {
                        (build(ty, &[parse_row(f[1])], if f.len() > 2 { us(f[2]) } else { 0 }), true)
                    } else {
                        (build(ty, &parse_rows(f[2]), us(f[1])), false)
                    }
                };
                let (ta, ts) = operand(tr);
                let (fa, fs) = operand(fa);
                let f = if op == "zip" { zip } else { merge };
                let r = match (ts, fs) {
                    // second entry point for two scalars: the reusable ScalarZipper
                    (true, true) if op == "zip" && mask.len() % 2 == 0 => {
                        arrow_select::zip::ScalarZipper::try_new(&Scalar::new(ta), &Scalar::new(fa)).and_then(|z| z.zip(&m))
                    }
                    (true, true) => f(&m, &Scalar::new(ta), &Scalar::new(fa)),
                    (true, false) => f(&m, &Scalar::new(ta), &fa),
                    (false, true) => f(&m, &ta, &Scalar::new(fa)),
                    (false, false) => f(&m, &ta, &fa),
                };
                match r {
                    Ok(x) => show_decoded(ty, x.as_ref()),
                    Err(e) => err_class(&e),
                }
            })
        }
        "mergen" => {
            // C03 mergen <ty> <off:rows;…> <k,k,n,…>   (index k = next row of array k, n = null row)
            let (ty, arrs, idx) = (t[2], t[3], t[4]);
            guarded(move || {
                let arrs = parse_arrs(ty, arrs);
                let refs: Vec<&dyn Array> = arrs.iter().map(|a| a.as_ref()).collect();
                let idx: Vec<Option<usize>> = if idx == "-" { vec![] } else { idx.split(',').map(|x| if x == "n" { None } else { Some(us(x)) }).collect() };
                // MergeIndex for usize when there is no null index
                let r = if idx.iter().all(|x| x.is_some()) { merge_n(&refs, &idx.iter().map(|x| x.unwrap()).collect::<Vec<usize>>()) } else { merge_n(&refs, &idx) };
                match r {
                    Ok(x) => show_decoded(ty, x.as_ref()),
                    Err(e) => err_class(&e),
                }
            })
        }
        "nullif" => {
            let (ty, off, rows, moff, mask) = (t[2], us(t[3]), parse_rows(t[4]), us(t[5]), parse_mask(t[6]));
            guarded(move || {
                let a = build(ty, &rows, off);
                let m = build_mask(&mask, moff);
                match nullif(a.as_ref(), &m) {
                    Ok(x) => show_decoded(ty, x.as_ref()),
                    Err(e) => err_class(&e),
                }
            })
        }
        "shift" => {
            let (ty, off, rows, k) = (t[2], us(t[3]), parse_rows(t[4]), t[5].parse::<i64>().unwrap());
            guarded(move || {
                let a = build(ty, &rows, off);
                match shift(a.as_ref(), k) {
                    Ok(x) => show_decoded(ty, x.as_ref()),
                    Err(e) => err_class(&e),
                }
            })
        }
        "coalesce" => {
            // C03 coalesce <ty> <target> <limit|-> <op;op;…>
            //   p:<off>:<rows>  f:<off>:<rows>:<moff>:<mask>  i:<ity>:<rows>:<indices>  x (finish)  n (next)
            let (ty, target, limit, ops) = (t[2], us(t[3]), t[4], t[5]);
            guarded(move || {
                let schema = coalesce_schema(ty);
                let mut c = BatchCoalescer::new(schema.clone(), target);
                if limit != "-" {
                    c = c.with_biggest_coalesce_batch_size(Some(us(limit)));
                }
                let mut outs: Vec<String> = vec![];
                let mut errs: Vec<usize> = vec![];
                if ops != "-" {
                    for (k, op) in ops.split(';').enumerate() {
                        let f: Vec<&str> = op.split(':').collect();
                        let r = match f[0] {
                            "p" => c.push_batch(coalesce_batch(ty, &schema, &parse_rows(f[2]), us(f[1]))),
                            "f" => {
                                let b = coalesce_batch(ty, &schema, &parse_rows(f[2]), us(f[1]));
                                let m = build_mask(&parse_mask(f[4]), us(f[3]));
                                c.push_batch_with_filter(b, &m)
                            }
                            "i" => {
                                let b = coalesce_batch(ty, &schema, &parse_rows(f[2]), 0);
                                let ia = build_idx(f[1], &parse_idx(f[3]), 0);
                                c.push_batch_with_indices(b, ia.as_ref())
                            }
                            "x" => c.finish_buffered_batch(),
                            "q" => {
                                // accessors: is_empty / has_completed_batch / get_buffered_rows / limit / schema
                                assert_eq!(c.schema(), schema);
                                let _ = c.size();
                                outs.push(format!(
                                    "E{}C{}B{}L{}",
                                    c.is_empty() as u8,
                                    c.has_completed_batch() as u8,
                                    c.get_buffered_rows(),
                                    c.biggest_coalesce_batch_size().map(|l| l.to_string()).unwrap_or("-".into())
                                ));
                                Ok(())
                            }
                            "l" => {
                                c.set_biggest_coalesce_batch_size(if f[1] == "-" { None } else { Some(us(f[1])) });
                                Ok(())
                            }
                            "n" => {
                                outs.push(match c.next_completed_batch() {
                                    Some(b) => decode_batch(ty, &b),
                                    None => "_".into(),
                                });
                                Ok(())
                            }
                            _ => panic!("bad coalescer op"),
                        };
                        if r.is_err() {
                            errs.push(k);
                        }
                    }
                }
                let mut queue: Vec<String> = vec![];
                while let Some(b) = c.next_completed_batch() {
                    queue.push(decode_batch(ty, &b));
                }
                let buf = c.get_buffered_rows();
                c.finish_buffered_batch().unwrap();
                let mut tail: Vec<String> = vec![];
                while let Some(b) = c.next_completed_batch() {
                    tail.push(decode_batch(ty, &b));
                }
                let bar = |v: &Vec<String>| if v.is_empty() { "-".to_string() } else { v.join("|") };
                format!("out={} queue={} buf={} tail={} errs={}", bar(&outs), bar(&queue), buf, bar(&tail), show_list(&errs))
            })
        }
        _ => "bad-op".into(),
    }
}

// ------------------------------------------------------------------------------------ generator

fn gen_len(rng: &mut Rng) -> usize {
    if rng.chance(1, 25) {
        200 + rng.usize(900)
    } else if rng.chance(1, 3) {
        *rng.pick(&[0usize, 1, 2, 7, 8, 9, 15, 16, 17, 31, 32, 33, 63, 64, 65, 66, 127, 128, 129, 130])
    } else {
        rng.usize(160)
    }
}

fn gen_off(rng: &mut Rng) -> usize {
    // whole / middle slice (lead k, 2 trailing) / head slice 10k / tail slice 20k / constructed first offset 30k
    if rng.chance(2, 5) { 0 } else { *rng.pick(&[1usize, 2, 3, 5, 7, 8, 9, 13, 63, 64, 65, 101, 102, 105, 201, 203, 208, 301, 303]) }
}

fn gen_rows(rng: &mut Rng, ty: &str, n: usize) -> (Vec<Row>, &'static str) {
    let (p, tag) = match rng.below(6) {
        0 | 1 => (0u64, "nulls:none"),
        2 | 3 => (4, "nulls:some"),
        4 => (16, "nulls:many"),
        _ => (if rng.chance(1, 3) { 20 } else { 1 }, "nulls:few-or-all"),
    };
    let hi = if ty.split('+').any(|t| t == "bool") { 2 } else { 61 };
    ((0..n).map(|_| if rng.below(20) < p { None } else { Some(rng.below(hi) as u32) }).collect(), tag)
}

/// predicate by selectivity class
fn gen_mask(rng: &mut Rng, n: usize) -> (Vec<Option<bool>>, String) {
    let mut m: Vec<bool> = vec![false; n];
    let set_k = |rng: &mut Rng, m: &mut Vec<bool>, k: usize| {
        // exactly k set bits at random positions
        let n = m.len();
        let k = k.min(n);
        let mut idx: Vec<usize> = (0..n).collect();
        for i in 0..k {
            let j = i + rng.usize(n - i);
            idx.swap(i, j);
            m[idx[i]] = true;
        }
    };
    let class = match rng.below(10) {
        0 => {
            m = vec![true; n];
            "sel:all"
        }
        1 => "sel:none",
        2 => {
            set_k(rng, &mut m, 1);
            "sel:one"
        }
        3 => {
            for b in m.iter_mut() {
                *b = rng.chance(1, 20);
            }
            "sel:sparse"
        }
        4 => {
            for b in m.iter_mut() {
                *b = !rng.chance(1, 20);
            }
            "sel:dense"
        }
        5 => {
            let mut i = 0;
            let mut val = rng.bool();
            while i < n {
                let run = 1 + rng.usize(40);
                for j in i..(i + run).min(n) {
                    m[j] = val;
                }
                i += run;
                val = !val;
            }
            "sel:runs"
        }
        6 => {
            // around the 0.8 slices/indices threshold
            let k = (n * 4 / 5 + rng.usize(3)).saturating_sub(1);
            set_k(rng, &mut m, k);
            "sel:around-0.8"
        }
        7 => {
            // around the 1/16 sparse-copy threshold
            let k = (n / 16 + rng.usize(3)).saturating_sub(1);
            set_k(rng, &mut m, k);
            "sel:around-1/16"
        }
        8 => {
            // all but one
            m = vec![true; n];
            if n > 0 {
                let i = rng.usize(n);
                m[i] = false;
            }
            "sel:all-but-one"
        }
        _ => {
            for b in m.iter_mut() {
                *b = rng.bool();
            }
            "sel:half"
        }
    };
    let with_nulls = rng.chance(1, 3);
    let out: Vec<Option<bool>> = m.iter().map(|&b| if with_nulls && rng.chance(1, 8) { None } else { Some(b) }).collect();
    (out, format!("{}{}", class, if with_nulls { " mask:nulls" } else { "" }))
}

fn mask_nontrivial(m: &[Option<bool>]) -> bool {
    let k = m.iter().filter(|b| **b == Some(true)).count();
    k > 0 && k < m.len()
}

const IDX_TYPES: &[(&str, i128, i128)] = &[
    ("i8", i8::MIN as i128, i8::MAX as i128),
    ("u8", 0, u8::MAX as i128),
    ("i16", i16::MIN as i128, i16::MAX as i128),
    ("u16", 0, u16::MAX as i128),
    ("i32", i32::MIN as i128, i32::MAX as i128),
    ("u32", 0, u32::MAX as i128),
    ("i64", i64::MIN as i128, i64::MAX as i128),
    ("u64", 0, u64::MAX as i128),
];

/// index list for a values array of length `n`; returns (text, any valid index out of range, has nulls)
fn gen_indices(rng: &mut Rng, ity: (&str, i128, i128), n: usize, allow_oob: bool) -> (String, bool, bool) {
    let (_, lo, hi) = ity;
    let k = if rng.chance(1, 8) { 0 } else { gen_len(rng).min(300) };
    let with_nulls = rng.chance(1, 2);
    let oob_case = allow_oob && rng.chance(1, 8);
    let mut items = vec![];
    let mut oob = false;
    let mut has_null = false;
    let in_range = |rng: &mut Rng| -> Option<i128> {
        let m = (n as i128).min(hi + 1);
        if m <= 0 { None } else { Some(rng.below(m as u64) as i128) }
    };
    let pattern = rng.below(4);
    for j in 0..k {
        if with_nulls && rng.chance(1, 6) {
            has_null = true;
            // raw value under the null slot: arbitrary, often out of range
            let raw: i128 = match rng.below(3) {
                0 => 0,
                1 => hi.min(n as i128 + rng.below(5) as i128),
                _ => lo.max(-1 - rng.below(3) as i128),
            };
            items.push(if raw == 0 && rng.bool() { "n".to_string() } else { format!("n{}", raw) });
            continue;
        }
        if oob_case && rng.chance(1, 10) {
            // just past the end, negative, and values that alias a valid row after a 32-bit wrap
            let v: i128 = match rng.below(6) {
                0 => n as i128,
                1 => n as i128 + 1 + rng.below(40) as i128,
                2 => -1 - rng.below(3) as i128,
                3 => (1i128 << 31) + rng.below(n as u64 + 2) as i128,
                4 => (1i128 << 32) - 1 - rng.below(3) as i128,
                _ => (1i128 << 32) + rng.below(n as u64 + 2) as i128,
            };
            if v >= lo && v <= hi {
                items.push(v.to_string());
                oob = true;
                continue;
            }
        }
        let v = match pattern {
            0 => in_range(rng),                                                   // random, duplicates
            1 => if (j as i128) < (n as i128).min(hi + 1) { Some(j as i128) } else { in_range(rng) }, // identity prefix
            2 => if n > 0 && (n - 1 - j % n) as i128 <= hi { Some((n - 1 - j % n) as i128) } else { in_range(rng) }, // reversed
            _ => if n > 0 { Some(((n - 1) as i128).min(hi)) } else { None },      // all the last row
        };
        match v {
            Some(v) => items.push(v.to_string()),
            None => {
                // empty values array: only null slots are legal
                has_null = true;
                items.push("n".to_string());
            }
        }
    }
    (show_list(&items), oob, has_null)
}

fn gen_arr_list(rng: &mut Rng, ty: &str, max_arrays: usize) -> (String, Vec<usize>) {
    let k = 1 + rng.usize(max_arrays);
    let mut parts = vec![];
    let mut lens = vec![];
    for _ in 0..k {
        let n = if rng.chance(1, 5) { 0 } else { gen_len(rng).min(90) };
        let (rows, _) = gen_rows(rng, ty, n);
        parts.push(format!("{}:{}", gen_off(rng), show_rows(&rows)));
        lens.push(n);
    }
    (parts.join(";"), lens)
}

fn gen_case(rng: &mut Rng) -> (String, String) {
    let ty = *rng.pick(ALL_TYPES);
    let sel = rng.below(29);
    // zip / merge / merge_n go through MutableArrayData, which concatenates dictionaries naively and
    // panics when a narrow key type overflows: keep near-capacity i8/u8 dictionaries out of those ops
    let ty = if (sel == 14 || (21..=27).contains(&sel)) && (ty == "dicti8" || ty == "dictu8") { "dictu16" } else { ty };
    match sel {
        20 => gen_take_oob(rng, ty),
        21..=27 => gen_phys(rng, ty),
        28 => gen_zip_view_scalars(rng),
        0..=5 => {
            let n = gen_len(rng);
            let (rows, ntag) = gen_rows(rng, ty, n);
            // predicate length: equal (mostly), shorter, or longer (rejected)
            let (mlen, ltag) = match rng.below(12) {
                0 if n > 0 => (rng.usize(n), "mask:shorter"),
                1 => (n + 1 + rng.usize(3), "mask:longer"),
                _ => (n, ""),
            };
            let (mask, mtag) = gen_mask(rng, mlen);
            let var = rng.usize(5);
            (
                format!("C03 filter {} {} {} {} {} {}", ty, var, gen_off(rng), show_rows(&rows), gen_off(rng), show_mask(&mask)),
                format!("op:filter ty:{} fvar:{} {} {} {} {}", ty, var, ntag, ltag, mtag, if mask_nontrivial(&mask) { "nt" } else { "" }),
            )
        }
        6..=9 => {
            let n = gen_len(rng);
            let (rows, ntag) = gen_rows(rng, ty, n);
            let ity = *rng.pick(IDX_TYPES);
            let check = rng.bool();
            let (idx, oob, has_null) = gen_indices(rng, ity, n, true);
            (
                format!("C03 take {} {} {} {} {} {} {}", ty, ity.0, check as u8, gen_off(rng), show_rows(&rows), gen_off(rng), idx),
                format!(
                    "op:take ty:{} ity:{} {} {} {} {}",
                    ty,
                    ity.0,
                    ntag,
                    if oob { if check { "take:oob-checked" } else { "take:oob-unchecked" } } else { "" },
                    if has_null { "idx:nulls" } else { "" },
                    if idx != "-" && !oob { "nt" } else { "" }
                ),
            )
        }
        10 | 11 => {
            let (arrs, lens) = if rng.chance(1, 30) { ("-".to_string(), vec![]) } else { gen_arr_list(rng, ty, 5) };
            let var = rng.usize(2);
            (
                format!("C03 concat {} {} {}", ty, var, arrs),
                format!("op:concat ty:{} cvar:{} arrays:{} {}", ty, var, lens.len().min(3), if lens.iter().filter(|l| **l > 0).count() > 1 { "nt" } else { "" }),
            )
        }
        12 | 13 => {
            let (arrs, lens) = gen_arr_list(rng, ty, 4);
            let total: usize = lens.iter().sum();
            let k = if total == 0 || rng.chance(1, 10) { 0 } else { gen_len(rng).min(200) };
            let nonempty: Vec<usize> = (0..lens.len()).filter(|i| lens[*i] > 0).collect();
            let pairs: Vec<String> = (0..k)
                .map(|_| {
                    let a = *rng.pick(&nonempty);
                    format!("{}.{}", a, rng.usize(lens[a]))
                })
                .collect();
            (
                format!("C03 interleave {} {} {}", ty, arrs, show_list(&pairs)),
                format!("op:interleave ty:{} arrays:{} {}", ty, lens.len().min(3), if k > 1 && nonempty.len() > 1 { "nt" } else { "" }),
            )
        }
        14 => {
            let n = gen_len(rng).min(150);
            let (mask, mtag) = gen_mask(rng, n);
            let operand = |rng: &mut Rng| -> (String, &'static str) {
                if rng.chance(1, 3) {
                    let (r, _) = gen_rows(rng, ty, 1);
                    if rng.bool() { (format!("s:{}", show_row(&r[0])), "scalar") } else { (format!("s:{}:{}", show_row(&r[0]), 1 + rng.usize(8)), "scalar-sliced") }
                } else {
                    let len = if rng.chance(1, 15) { n + 1 } else { n };
                    let (r, _) = gen_rows(rng, ty, len);
                    (format!("a:{}:{}", gen_off(rng), show_rows(&r)), if len == n { "array" } else { "array-badlen" })
                }
            };
            let (tr, tt) = operand(rng);
            let (fa, ft) = operand(rng);
            (
                format!("C03 zip {} {} {} {} {}", ty, gen_off(rng), show_mask(&mask), tr, fa),
                format!("op:zip ty:{} zip:{}/{} {} {}", ty, tt, ft, mtag, if mask_nontrivial(&mask) { "nt" } else { "" }),
            )
        }
        15 => {
            let n = gen_len(rng).min(200);
            let (rows, ntag) = gen_rows(rng, ty, n);
            let mlen = if rng.chance(1, 15) { n + 1 } else { n };
            let (mask, mtag) = gen_mask(rng, mlen);
            (
                format!("C03 nullif {} {} {} {} {}", ty, gen_off(rng), show_rows(&rows), gen_off(rng), show_mask(&mask)),
                format!("op:nullif ty:{} {} {} {}", ty, ntag, mtag, if mask_nontrivial(&mask) && mlen == n { "nt" } else { "" }),
            )
        }
        16 => {
            let n = gen_len(rng).min(200);
            let (rows, ntag) = gen_rows(rng, ty, n);
            let k: i64 = match rng.below(6) {
                0 => 0,
                1 => n as i64,
                2 => -(n as i64),
                3 => *rng.pick(&[i64::MIN, i64::MAX, n as i64 + 1, -(n as i64) - 1]),
                _ => rng.range(-(n as i64), n as i64),
            };
            (
                format!("C03 shift {} {} {} {}", ty, gen_off(rng), show_rows(&rows), k),
                format!(
                    "op:shift ty:{} {} shift:{} {}",
                    ty,
                    ntag,
                    if k == 0 { "zero" } else if k.unsigned_abs() as u128 >= n as u128 { "all-null" } else if k > 0 { "right" } else { "left" },
                    if k != 0 && (k.unsigned_abs() as u128) < n as u128 { "nt" } else { "" }
                ),
            )
        }
        _ => gen_coalesce(rng),
    }
}


/// random physical byte array token with `n` slots: first offset may be > 0, null slots may be non-empty
fn gen_bytes_tok(rng: &mut Rng, n: usize) -> String {
    let mut offs: Vec<i64> = vec![if rng.chance(1, 3) { rng.usize(5) as i64 } else { 0 }];
    let null_p = *rng.pick(&[0u64, 0, 3, 10]);
    let mut valid = vec![];
    for _ in 0..n {
        let l = if rng.chance(1, 4) { 0 } else { rng.usize(7) as i64 };
        offs.push(offs.last().unwrap() + l);
        valid.push(rng.below(20) >= null_p);
    }
    let total = *offs.last().unwrap() as usize + rng.usize(3);
    let data: Vec<u8> = (0..total).map(|i| (i as u8).wrapping_mul(37).wrapping_add(rng.below(3) as u8)).collect();
    let nulls = if valid.iter().all(|b| *b) && rng.bool() { "-".to_string() } else if n == 0 { "-".to_string() } else { show_bits(&valid) };
    format!("{}/{}/{}", show_list(&offs), hex(&data), nulls)
}

/// explicit dictionaries: few distinct byte values (incl. the empty string), duplicates, unused entries,
/// NULL value slots over empty and over non-empty bytes that equal a valid value's bytes
fn gen_dconcat(rng: &mut Rng) -> (String, String) {
    let pool = ["e", "e", "78", "78", "7879", "00", "6162", "e"];
    let k = 2 + rng.usize(3);
    let mut toks = vec![];
    let mut lens = vec![];
    for _ in 0..k {
        let nv = 1 + rng.usize(7);
        let vals: Vec<String> = (0..nv)
            .map(|_| {
                let b = *rng.pick(&pool);
                if rng.chance(1, 3) { if b == "e" { "n".to_string() } else { format!("n{}", b) } } else { b.to_string() }
            })
            .collect();
        let n = rng.usize(9);
        let keys: Vec<String> = (0..n).map(|_| if rng.chance(1, 6) { "n".to_string() } else { rng.usize(nv).to_string() }).collect();
        toks.push(format!("{}/{}", show_list(&keys), vals.join(",")));
        lens.push(n);
    }
    let var = rng.usize(4);
    let total: usize = lens.iter().sum();
    let pairs = if var >= 2 && total > 0 {
        let nonempty: Vec<usize> = (0..k).filter(|i| lens[*i] > 0).collect();
        let m = 1 + rng.usize(12);
        show_list(&(0..m).map(|_| { let a = *rng.pick(&nonempty); format!("{}.{}", a, rng.usize(lens[a])) }).collect::<Vec<_>>())
    } else {
        "-".to_string()
    };
    let var = if var >= 2 && total == 0 { 0 } else { var };
    let kt = *rng.pick(&["i8", "i32", "u16"]);
    (format!("C03 dconcat {} {} {} {}", kt, var, toks.join(";"), pairs), format!("op:dconcat dvar:{} kt:{} nt", var, kt))
}

fn gen_small_ops(rng: &mut Rng, ty: &str) -> (String, String) {
    match rng.below(5) {
        0 => {
            let n = gen_len(rng).min(200);
            let (mask, mtag) = gen_mask(rng, n);
            (format!("C03 slices {} {}", gen_off(rng), show_mask(&mask)), format!("op:slices {} {}", mtag, if mask_nontrivial(&mask) { "nt" } else { "" }))
        }
        1 => {
            let n = 1 + gen_len(rng).min(200);
            let (mut mask, mtag) = gen_mask(rng, n);
            let i = rng.usize(n);
            mask[i] = None;
            (format!("C03 prepmask {} {}", gen_off(rng), show_mask(&mask)), format!("op:prepmask {} nt", mtag))
        }
        2 => {
            let n = 2 + gen_len(rng).min(150);
            let (mut mask, mtag) = gen_mask(rng, n);
            // filter_nulls is only reachable for a non-trivial selection
            mask[0] = Some(true);
            mask[1] = Some(false);
            let extra = rng.usize(3);
            let p = *rng.pick(&[0u64, 1, 5, 19]);
            let bits: Vec<bool> = (0..n + extra).map(|_| rng.below(20) >= p).collect();
            let tok = if rng.chance(1, 10) { "-".to_string() } else { show_bits(&bits) };
            let var = rng.usize(2);
            (format!("C03 filternulls {} {} {} {}", var, tok, gen_off(rng), show_mask(&mask)), format!("op:filternulls fvar:{} {} nt", var, mtag))
        }
        3 => {
            let dty = *rng.pick(&["dict", "dicts", "dicti8", "dictu8", "dictu16", "dictu64", "dictp"]);
            let n = gen_len(rng).min(120);
            let (rows, ntag) = gen_rows(rng, dty, n);
            (format!("C03 gc {} {} {}", dty, gen_off(rng), show_rows(&rows)), format!("op:gc ty:{} {} {}", dty, ntag, if n > 1 { "nt" } else { "" }))
        }
        _ => {
            let n = gen_len(rng).min(120);
            let (rows, ntag) = gen_rows(rng, ty, n);
            let a = rng.usize(n + 1);
            let len = if rng.bool() { n - a } else { rng.usize(n - a + 1) };
            (format!("C03 slice {} {} {} {} {}", ty, gen_off(rng), show_rows(&rows), a, len), format!("op:slice ty:{} {} {}", ty, ntag, if a > 0 && len > 0 { "nt" } else { "" }))
        }
    }
}

fn gen_phys(rng: &mut Rng, ty: &str) -> (String, String) {
    let wide = rng.below(2);
    if rng.chance(1, 6) {
        return gen_dconcat(rng);
    }
    if rng.chance(1, 5) {
        return gen_small_ops(rng, ty);
    }
    if rng.chance(1, 6) {
        let k = 1 + rng.usize(4);
        let toks: Vec<String> = (0..k).map(|_| { let n = if rng.chance(1, 5) { 0 } else { rng.usize(6) }; gen_bytes_tok(rng, n) }).collect();
        let kind = *rng.pick(&["list", "llist", "map"]);
        let var = rng.usize(3);
        return (format!("C03 lconcat {} {} {}", kind, var, toks.join(";")), format!("op:lconcat lkind:{} lvar:{} {}", kind, var, if k > 1 { "nt" } else { "" }));
    }
    match rng.below(9) {
        0 | 1 => {
            let n = gen_len(rng).min(80);
            let mlen = if n > 0 && rng.chance(1, 12) { rng.usize(n) } else { n };
            let (mask, mtag) = gen_mask(rng, mlen);
            let var = rng.usize(3);
            (
                format!("C03 bfilter {} {} {} {} {}", wide, var, gen_bytes_tok(rng, n), gen_off(rng), show_mask(&mask)),
                format!("op:bfilter fvar:{} {} {}", var, mtag, if mask_nontrivial(&mask) { "nt" } else { "" }),
            )
        }
        2 => {
            let n = gen_len(rng).min(60);
            let ity = *rng.pick(IDX_TYPES);
            let (idx, _, has_null) = gen_indices(rng, ity, n, false);
            (
                format!("C03 btake {} {} {} {} {}", wide, ity.0, gen_bytes_tok(rng, n), gen_off(rng), idx),
                format!("op:btake ity:{} {} {}", ity.0, if has_null { "idx:nulls" } else { "" }, if idx != "-" { "nt" } else { "" }),
            )
        }
        3 => {
            let k = 1 + rng.usize(4);
            let toks: Vec<String> = (0..k).map(|_| { let n = if rng.chance(1, 5) { 0 } else { rng.usize(20) }; gen_bytes_tok(rng, n) }).collect();
            (format!("C03 bconcat {} {}", wide, toks.join(";")), format!("op:bconcat arrays:{} {}", k.min(3), if k > 1 { "nt" } else { "" }))
        }
        4 => {
            let k = 1 + rng.usize(3);
            let lens: Vec<usize> = (0..k).map(|_| 1 + rng.usize(15)).collect();
            let toks: Vec<String> = lens.iter().map(|n| gen_bytes_tok(rng, *n)).collect();
            let m = rng.usize(40);
            let pairs: Vec<String> = (0..m).map(|_| { let a = rng.usize(k); format!("{}.{}", a, rng.usize(lens[a])) }).collect();
            (format!("C03 binterleave {} {} {}", wide, toks.join(";"), show_list(&pairs)), format!("op:binterleave arrays:{} {}", k, if m > 1 { "nt" } else { "" }))
        }
        5 | 6 => {
            let w = *rng.pick(&[1usize, 2, 3, 4, 5, 8, 16, 17]);
            let n = gen_len(rng).min(40);
            let data = rng.bytes(n * w);
            let valid: Vec<bool> = (0..n).map(|_| !rng.chance(1, 5)).collect();
            let nulls = if n == 0 || rng.chance(1, 3) { "-".to_string() } else { show_bits(&valid) };
            if rng.bool() {
                let (mask, mtag) = gen_mask(rng, n);
                let var = rng.usize(3);
                (
                    format!("C03 fsbfilter {} {} {} {} {} {}", w, var, hex(&data), nulls, gen_off(rng), show_mask(&mask)),
                    format!("op:fsbfilter w:{} fvar:{} {} {}", w, var, mtag, if mask_nontrivial(&mask) { "nt" } else { "" }),
                )
            } else {
                let ity = *rng.pick(IDX_TYPES);
                let (idx, _, has_null) = gen_indices(rng, ity, n, false);
                (
                    format!("C03 fsbtake {} {} {} {} {} {}", w, ity.0, hex(&data), nulls, gen_off(rng), idx),
                    format!("op:fsbtake w:{} ity:{} {} {}", w, ity.0, if has_null { "idx:nulls" } else { "" }, if idx != "-" { "nt" } else { "" }),
                )
            }
        }
        7 => {
            // run-end encoded: runs of length 1..6
            let runs = 1 + rng.usize(12);
            let mut ends: Vec<i32> = vec![];
            let mut e = 0;
            for _ in 0..runs {
                e += 1 + rng.usize(6) as i32;
                ends.push(e);
            }
            let (vals, _) = gen_rows(rng, "i32", runs);
            let total = e as usize;
            let off = if rng.bool() { 0 } else { rng.usize(total) };
            let len = if rng.chance(1, 2) { total - off } else { rng.usize(total - off + 1) };
            let mlen = if len > 0 && rng.chance(1, 10) { rng.usize(len) } else { len };
            let (mask, mtag) = gen_mask(rng, mlen);
            let var = rng.usize(3);
            (
                format!("C03 ree {} {} {} {} {} {} {}", var, show_list(&ends), show_rows(&vals), off, len, gen_off(rng), show_mask(&mask)),
                format!("op:ree fvar:{} {} {} {}", var, if off > 0 { "ree:sliced" } else { "" }, mtag, if mask_nontrivial(&mask) { "nt" } else { "" }),
            )
        }
        _ => {
            if rng.bool() {
                // merge: truthy has one row per true slot, falsy one per false slot
                let n = gen_len(rng).min(120);
                let (mask, mtag) = gen_mask(rng, n);
                let nt = mask.iter().filter(|b| **b == Some(true)).count();
                let operand = |rng: &mut Rng, k: usize| -> (String, &'static str) {
                    if rng.chance(1, 3) {
                        let (r, _) = gen_rows(rng, ty, 1);
                        (format!("s:{}", show_row(&r[0])), "scalar")
                    } else {
                        let extra = rng.usize(2);
                        let (r, _) = gen_rows(rng, ty, k + extra);
                        (format!("a:{}:{}", gen_off(rng), show_rows(&r)), "array")
                    }
                };
                let (tr, tt) = operand(rng, nt);
                let (fa, ft) = operand(rng, n - nt);
                (
                    format!("C03 merge {} {} {} {} {}", ty, gen_off(rng), show_mask(&mask), tr, fa),
                    format!("op:merge ty:{} merge:{}/{} {} {}", ty, tt, ft, mtag, if mask_nontrivial(&mask) { "nt" } else { "" }),
                )
            } else {
                let (arrs, lens) = gen_arr_list(rng, ty, 4);
                let mut left = lens.clone();
                let m = rng.usize(60);
                let mut idx: Vec<String> = vec![];
                let mut cur: Option<usize> = None;
                for _ in 0..m {
                    // runs of the same source
                    if cur.is_none() || rng.chance(1, 3) {
                        cur = Some(rng.usize(lens.len() + 1));
                    }
                    let c = cur.unwrap();
                    if c == lens.len() {
                        idx.push("n".into());
                    } else if left[c] > 0 {
                        left[c] -= 1;
                        idx.push(c.to_string());
                    } else {
                        idx.push("n".into());
                    }
                }
                (format!("C03 mergen {} {} {}", ty, arrs, show_list(&idx)), format!("op:mergen ty:{} arrays:{} {}", ty, lens.len().min(3), if m > 1 { "nt" } else { "" }))
            }
        }
    }
}

/// zip / merge of two Utf8View / BinaryView scalars, the falsy one a 1-row slice of an array that
/// owns data buffers (inline values of <= 4 and 5..12 bytes)
fn gen_zip_view_scalars(rng: &mut Rng) -> (String, String) {
    let ty = *rng.pick(&["sv", "bv"]);
    let n = 2 + rng.usize(12);
    let (mask, mtag) = gen_mask(rng, n);
    let scalar = |rng: &mut Rng| -> String {
        let row = if rng.chance(1, 8) { "n".to_string() } else { rng.below(61).to_string() };
        if rng.chance(1, 4) { format!("s:{}", row) } else { format!("s:{}:{}", row, *rng.pick(&[1usize, 4, 5, 8, 9])) }
    };
    let (tr, fa) = (scalar(rng), scalar(rng));
    let op = if rng.chance(1, 4) { "merge" } else { "zip" };
    (
        format!("C03 {} {} {} {} {} {}", op, ty, gen_off(rng), show_mask(&mask), tr, fa),
        format!("op:{} ty:{} zip:view-scalars {} {}", op, ty, mtag, if mask_nontrivial(&mask) { "nt" } else { "" }),
    )
}

/// small `take` with exactly one out-of-range valid index of a chosen kind (just past the end,
/// negative, or a value that aliases a valid row after 32-bit truncation / multiplication)
fn gen_take_oob(rng: &mut Rng, ty: &str) -> (String, String) {
    let n = 1 + rng.usize(9);
    let (mut rows, ntag) = gen_rows(rng, ty, n);
    if rng.bool() {
        let hi = if ty == "bool" { 2 } else { 61 };
        rows = (0..n).map(|_| Some(rng.below(hi) as u32)).collect();
    }
    let ity = *rng.pick(IDX_TYPES);
    let (_, lo, hi) = ity;
    let cands: [i128; 9] = [
        n as i128,
        n as i128 + 1 + rng.below(5) as i128,
        -1,
        -(n as i128),
        (1i128 << 31) + rng.below(n as u64) as i128,
        (1i128 << 32) - 1,
        (1i128 << 32) + rng.below(n as u64) as i128,
        (1i128 << 63) + rng.below(n as u64) as i128,
        127.max(n as i128),
    ];
    let fits: Vec<i128> = cands.iter().copied().filter(|v| *v >= lo && *v <= hi && !(*v >= 0 && *v < n as i128)).collect();
    let k = 1 + rng.usize(4);
    let mut items: Vec<String> = (0..k).map(|_| if rng.chance(1, 6) { "n".to_string() } else { rng.usize(n).to_string() }).collect();
    let oob = !fits.is_empty();
    if oob {
        let pos = rng.usize(items.len() + 1);
        items.insert(pos, rng.pick(&fits).to_string());
    }
    let check = rng.bool();
    (
        format!("C03 take {} {} {} {} {} {} {}", ty, ity.0, check as u8, if rng.chance(1, 3) { gen_off(rng) } else { 0 }, show_rows(&rows), if rng.chance(1, 3) { gen_off(rng) } else { 0 }, show_list(&items)),
        format!("op:take ty:{} ity:{} {} take:oob-focus {}", ty, ity.0, ntag, if oob { if check { "take:oob-checked" } else { "take:oob-unchecked" } } else { "" }),
    )
}

fn gen_coalesce(rng: &mut Rng) -> (String, String) {
    let ty = *rng.pick(&["i32", "i64", "sv", "utf8", "i32+utf8", "i32+i64", "i32+sv", "i32", "sv", "list", "dict", "dicti8", "dictu16", "dict", "dec", "i32+dec", "dictp", "lv"]);
    let target = if rng.chance(1, 4) { *rng.pick(&[1usize, 2, 3, 8, 16, 17, 64, 70]) } else { 1 + rng.usize(70) };
    let (limit, ltag) = match rng.below(4) {
        0 => (Some(rng.usize(target + 1)), "limit:small"),
        1 => (Some(target + rng.usize(100)), "limit:large"),
        _ => (None, "limit:none"),
    };
    let n_ops = 1 + rng.usize(40);
    let mut ops = vec![];
    let mut tags = std::collections::BTreeSet::new();
    let mut pushes = 0;
    for _ in 0..n_ops {
        let n = match rng.below(6) {
            0 => 0,
            1 => rng.usize(4),
            2 => target * (1 + rng.usize(3)) + rng.usize(3),
            3 => 100 + rng.usize(200),
            _ => rng.usize(2 * target + 2),
        };
        match rng.below(12) {
            0..=3 => {
                let (rows, _) = gen_rows(rng, ty, n);
                ops.push(format!("p:{}:{}", gen_off(rng), show_rows(&rows)));
                tags.insert("cop:push");
                pushes += 1;
            }
            4..=7 => {
                let n = if rng.chance(1, 2) { n.max(16 * (1 + rng.usize(12))) } else { n };
                let (rows, _) = gen_rows(rng, ty, n);
                let mlen = match rng.below(20) {
                    0 if n > 0 => rng.usize(n),
                    1 => n + 1,
                    _ => n,
                };
                let (mask, _) = gen_mask(rng, mlen);
                ops.push(format!("f:{}:{}:{}:{}", gen_off(rng), show_rows(&rows), gen_off(rng), show_mask(&mask)));
                tags.insert("cop:push-filter");
                if mlen < n {
                    tags.insert("cop:filter-shorter");
                }
                if mlen > n {
                    tags.insert("cop:filter-longer");
                }
                let sel = mask.iter().filter(|b| **b == Some(true)).count();
                if sel > 0 && !(sel == n && mlen == n) && sel <= mlen / 16 {
                    tags.insert("cop:sparse-eligible");
                }
                pushes += 1;
            }
            8 => {
                let n = n.min(120);
                let (rows, _) = gen_rows(rng, ty, n);
                let ity = *rng.pick(IDX_TYPES);
                let (idx, _, _) = gen_indices(rng, ity, n, false);
                ops.push(format!("i:{}:{}:{}", ity.0, show_rows(&rows), idx));
                tags.insert("cop:push-indices");
                pushes += 1;
            }
            9 => {
                ops.push("x".to_string());
                tags.insert("cop:finish");
            }
            10 if rng.chance(1, 3) => {
                ops.push("q".to_string());
                tags.insert("cop:query");
            }
            10 if rng.chance(1, 4) => {
                ops.push(match rng.below(3) {
                    0 => "l:-".to_string(),
                    1 => format!("l:{}", rng.usize(target + 1)),
                    _ => format!("l:{}", target + rng.usize(100)),
                });
                tags.insert("cop:set-limit");
            }
            _ => {
                ops.push("n".to_string());
                tags.insert("cop:next");
            }
        }
    }
    let tagstr: Vec<&str> = tags.into_iter().collect();
    (
        format!("C03 coalesce {} {} {} {}", ty, target, limit.map(|l| l.to_string()).unwrap_or("-".into()), ops.join(";")),
        format!("op:coalesce cty:{} {} {} {}", ty, ltag, tagstr.join(" "), if pushes > 1 { "nt" } else { "" }),
    )
}

/// tags derived from a case line and the implementation's answer (same in gen and replay
/// mode): a `take` with an out-of-range valid index that nevertheless returned rows
fn answer_tags(line: &str, answer: &str) -> &'static str {
    let t: Vec<&str> = line.split(' ').collect();
    if t.len() == 9 && t[1] == "take" {
        let n = parse_rows(t[6]).len() as i128;
        let oob = parse_idx(t[8]).iter().any(|(v, valid)| *valid && (*v < 0 || *v >= n));
        if oob && answer != "FAIL" && !answer.starts_with("ERR:") {
            return " take:oob-returned-ok";
        }
    }
    let has_null_idx = |s: &str| s.split(',').any(|x| x.starts_with('n'));
    if t.len() == 9 && t[1] == "take" && t[2] == "ree" && has_null_idx(t[8]) {
        return " kf:take-ree-null-index";
    }
    if t.len() == 9 && t[1] == "take" && t[2] == "dunion" && has_null_idx(t[8]) {
        return " kf:take-dense-union-null-index";
    }
    if t.len() == 7 && t[1] == "nullif" && ["ree", "sunion", "dunion"].contains(&t[2]) && t[6].contains('1') {
        return " kf:nullif-no-validity-layout";
    }
    if t.len() == 5 && t[1] == "concat" && t[2] == "ree" && t[4].split(';').all(|a| a.ends_with(":-")) && t[4].contains(';') {
        return " kf:concat-ree-all-empty";
    }
    // known finding: zip of two byte-view scalars rewrites the buffer index of an INLINE falsy view
    // (5..12 bytes: content corrupted) when the falsy scalar is a slice of an array owning data buffers
    if t.len() == 7 && (t[1] == "zip" || t[1] == "merge") && (t[2] == "sv" || t[2] == "bv") && answer.starts_with("BAD:GARBLED") {
        let tr: Vec<&str> = t[5].split(':').collect();
        let fa: Vec<&str> = t[6].split(':').collect();
        if tr[0] == "s" && tr[1] != "n" && fa[0] == "s" && fa.len() == 3 && fa[2] != "0" && fa[1] != "n" {
            if fa[1].parse::<u32>().map(|k| (5..=12).contains(&sval(k).len())).unwrap_or(false) {
                return " kf:zip-view-inline-buffer-index";
            }
        }
    }
    ""
}


/// a fixed, seed-independent block of boundary cases run at the start of every `gen` run:
/// every type × every kernel at lengths around 8 / 64, first/last/alternating selections, exact
/// threshold selectivities, chunk-of-8 interleaves, extreme shifts, slices at both ends, and
/// coalescer histories that fill the buffer exactly, bypass in all three ways, sit on the 1/16
/// sparse-copy threshold and cross the 8 KiB view block
fn fixed_block() -> Vec<(String, String)> {
    let mut out: Vec<(String, String)> = vec![];
    let rows_of = |ty: &str, n: usize, salt: usize| -> Vec<Row> {
        (0..n).map(|i| if (i + salt) % 5 == 3 { None } else if ty == "bool" { Some(((i + salt) % 2) as u32) } else { Some((((i + salt) * 7 + 1) % 61) as u32) }).collect()
    };
    let mask_of = |n: usize, kind: usize| -> Vec<Option<bool>> {
        (0..n)
            .map(|i| match kind {
                0 => Some(i == 0),
                1 => Some(i + 1 == n),
                2 => Some(i % 2 == 0),
                3 => Some(i != 0),
                4 => if i % 4 == 1 { None } else { Some(i % 2 == 0) },
                _ => Some(i * 10 < n * 8), // exactly 0.8 when n is a multiple of 5
            })
            .collect()
    };
    for (ti, ty) in ALL_TYPES.iter().enumerate() {
        let narrow = *ty == "dicti8" || *ty == "dictu8";
        for (ni, n) in [1usize, 8, 9, 10, 64, 65].iter().enumerate() {
            let rows = rows_of(ty, *n, ti);
            for kind in 0..6 {
                let var = (ti + ni + kind) % 5;
                let off = if (ni + kind) % 2 == 0 { 0 } else { 3 };
                out.push((
                    format!("C03 filter {} {} {} {} {} {}", ty, var, off, show_rows(&rows), (kind * 3) % 8, show_mask(&mask_of(*n, kind))),
                    format!("fixed op:filter ty:{} fvar:{} fx:mask{} nt", ty, var, kind),
                ));
            }
        }
        let n = 9;
        let rows = rows_of(ty, n, ti + 1);
        for (k, idx) in ["0", "8", "8,8,0", "-", "n,0,n8", "0,1,2,3,4,5,6,7,8", "8,7,6,5,4,3,2,1,0"].iter().enumerate() {
            let ity = IDX_TYPES[(ti + k) % IDX_TYPES.len()].0;
            out.push((format!("C03 take {} {} {} {} {} {} {}", ty, ity, k % 2, (k * 2) % 5, show_rows(&rows), k % 3, idx), format!("fixed op:take ty:{} ity:{} fx:take{} nt", ty, ity, k)));
        }
        let (a, b) = (rows_of(ty, 3, ti), rows_of(ty, 5, ti + 2));
        for var in 0..2 {
            out.push((format!("C03 concat {} {} 0:{};2:-;1:{};0:-", ty, var, show_rows(&a), show_rows(&b)), format!("fixed op:concat ty:{} cvar:{} nt", ty, var)));
        }
        out.push((format!("C03 concat {} 0 0:-;3:-", ty), format!("fixed op:concat ty:{} fx:all-empty", ty)));
        for m in [1usize, 7, 8, 9, 16, 17] {
            let pairs: Vec<String> = (0..m).map(|i| if i % 3 == 0 { format!("0.{}", i % 3) } else { format!("1.{}", (i * 2) % 5) }).collect();
            out.push((format!("C03 interleave {} 1:{};0:{} {}", ty, show_rows(&a), show_rows(&b), pairs.join(",")), format!("fixed op:interleave ty:{} fx:pairs{} nt", ty, m)));
        }
        for k in [1i64, -1, 8, -8, 9, -9, i64::MIN] {
            out.push((format!("C03 shift {} 2 {} {}", ty, show_rows(&rows), k), format!("fixed op:shift ty:{} nt", ty)));
        }
        for (a0, len) in [(0usize, 0usize), (0, 9), (1, 8), (8, 1), (9, 0), (4, 3)] {
            out.push((format!("C03 slice {} 5 {} {} {}", ty, show_rows(&rows), a0, len), format!("fixed op:slice ty:{} nt", ty)));
        }
        if !narrow {
            let m8 = show_mask(&mask_of(8, 2));
            let r8 = rows_of(ty, 8, ti);
            let r8b = rows_of(ty, 8, ti + 3);
            for (tr, fa) in [
                (format!("s:{}", show_row(&r8[0])), format!("s:{}", show_row(&r8b[1]))),
                (format!("s:{}", show_row(&r8[1])), format!("a:3:{}", show_rows(&r8b))),
                (format!("a:0:{}", show_rows(&r8)), "s:n".to_string()),
                (format!("a:1:{}", show_rows(&r8)), format!("a:2:{}", show_rows(&r8b))),
            ] {
                out.push((format!("C03 zip {} 1 {} {} {}", ty, m8, tr, fa), format!("fixed op:zip ty:{} nt", ty)));
            }
            out.push((format!("C03 merge {} 0 {} a:1:{} a:0:{}", ty, m8, show_rows(&r8[..4]), show_rows(&r8b[..4])), format!("fixed op:merge ty:{} nt", ty)));
            out.push((format!("C03 mergen {} 0:{};1:{} 0,0,1,n,1,0,1,1", ty, show_rows(&a), show_rows(&b)), format!("fixed op:mergen ty:{} nt", ty)));
            out.push((format!("C03 mergen {} 0:{};1:{} 1,1,0,0,0,1", ty, show_rows(&a), show_rows(&b)), format!("fixed op:mergen ty:{} fx:usize-indices nt", ty)));
        }
        out.push((format!("C03 nullif {} 1 {} 2 {}", ty, show_rows(&rows), show_mask(&mask_of(9, 4))), format!("fixed op:nullif ty:{} nt", ty)));
        if dict_kind(ty).is_some() || *ty == "dictp" {
            out.push((format!("C03 gc {} 0 {}", ty, show_rows(&rows_of(ty, 20, ti))), format!("fixed op:gc ty:{} nt", ty)));
            out.push((format!("C03 gc {} 4 {}", ty, show_rows(&rows_of(ty, 7, ti))), format!("fixed op:gc ty:{} nt", ty)));
        }
    }
    // coalescer
    for ty in ["i32", "sv", "utf8", "dict", "i32+utf8", "dec", "i32+sv"] {
        for target in [1usize, 2, 8, 64] {
            let r = |n: usize, s: usize| show_rows(&rows_of(ty, n, s));
            // exact fills and off-by-one around the target
            out.push((
                format!("C03 coalesce {} {} - p:0:{};q;p:1:{};p:0:{};q;p:3:{};n;q;x;n;n;n;x;q", ty, target, r(target, 0), r(target.saturating_sub(1), 1), r(1, 2), r(target + 1, 3)),
                format!("fixed op:coalesce cty:{} fx:exact-fill nt", ty),
            ));
            // the three bypass cases, then a limit change in mid-history
            let lim = target / 2;
            out.push((
                format!(
                    "C03 coalesce {} {} {} p:0:{};q;p:0:{};p:0:{};p:0:{};q;p:0:{};p:0:{};q;l:-;p:0:{};l:0;p:0:{};x;q",
                    ty, target, lim, r(lim + 1, 0), r(lim.max(1), 1), r(1, 2), r(lim + 2, 3), r(1, 4), r(lim + target + 1, 5), r(target + 3, 6), r(2, 7)
                ),
                format!("fixed op:coalesce cty:{} fx:bypass-cases nt", ty),
            ));
            // sparse fused copy: selected = len/16 exactly and one more; fitting the buffer exactly and not
            for k in [1usize, 2] {
                let n = 16 * k.max(target.min(4));
                let sel = n / 16;
                let mk = |cnt: usize| -> String { show_mask(&(0..n).map(|i| Some(i % 16 == 5 && i / 16 < cnt || (cnt > n / 16 && i == n - 1))).collect::<Vec<_>>()) };
                out.push((
                    format!(
                        "C03 coalesce {} {} - p:0:{};f:0:{}:0:{};q;f:3:{}:5:{};q;f:0:{}:0:{};x;n;n;n",
                        ty, target, r(target.saturating_sub(sel).min(target - 1).max(0), 0), r(n, 1), mk(sel), r(n, 2), mk(sel + 1), r(n, 3), mk(sel)
                    ),
                    format!("fixed op:coalesce cty:{} fx:sparse-threshold nt", ty),
                ));
            }
        }
    }
    // slice kinds × positions for multi-input kernels: per input {whole, head slice with unused trailing child
    // rows, tail slice, middle slice, empty slice, first offset ≠ 0 by construction}; the full cross product over
    // 3 inputs for the offset-based nested types, one non-whole input at a time for every other type
    let kinds: [(usize, bool); 6] = [(0, false), (102, false), (202, false), (2, false), (3, true), (302, false)];
    let nested = ["list", "llist", "lv", "map"];
    for (ti, ty) in ALL_TYPES.iter().enumerate() {
        if *ty == "dicts" {
            continue;
        }
        let full = nested.contains(ty);
        let narrow = *ty == "dicti8" || *ty == "dictu8";
        let input = |pos: usize, kind: usize| -> (String, usize) {
            let (off, empty) = kinds[kind];
            let rows = if empty { vec![] } else { rows_of(ty, 4, ti + 3 * pos + 1) };
            (format!("{}:{}", off, show_rows(&rows)), rows.len())
        };
        for a in 0..6 {
            for b in 0..6 {
                for c in 0..6 {
                    if !full && [a, b, c].iter().filter(|k| **k != 0).count() != 1 {
                        continue;
                    }
                    let ins = [input(0, a), input(1, b), input(2, c)];
                    let arrs = ins.iter().map(|x| x.0.clone()).collect::<Vec<_>>().join(";");
                    let tag = format!("fixed ty:{} fx:slice-kinds k:{}{}{}", ty, a, b, c);
                    for var in 0..2 {
                        out.push((format!("C03 concat {} {} {}", ty, var, arrs), format!("{} op:concat cvar:{} nt", tag, var)));
                    }
                    let pairs: Vec<String> = (0..9).filter_map(|i| { let p = (i * 2) % 3; if ins[p].1 > 0 { Some(format!("{}.{}", p, (i * 3 + p) % ins[p].1)) } else { None } }).collect();
                    if !pairs.is_empty() {
                        out.push((format!("C03 interleave {} {} {}", ty, arrs, pairs.join(",")), format!("{} op:interleave nt", tag)));
                    }
                    if !narrow {
                        let ops: Vec<String> = ins.iter().map(|x| format!("p:{}", x.0)).collect();
                        out.push((format!("C03 coalesce {} 5 - {};x", ty, ops.join(";")), format!("{} op:coalesce cty:{} nt", tag, ty)));
                    }
                }
            }
        }
        if full {
            for a in 0..6 {
                for b in 0..6 {
                    if kinds[a].1 || kinds[b].1 {
                        continue;
                    }
                    let (x, y) = (input(0, a).0, input(1, b).0);
                    out.push((format!("C03 zip {} 0 1001 a:{} a:{}", ty, x, y), format!("fixed ty:{} fx:slice-kinds k:{}{} op:zip nt", ty, a, b)));
                    out.push((format!("C03 merge {} 0 10010110 a:{} a:{}", ty, x, y), format!("fixed ty:{} fx:slice-kinds k:{}{} op:merge nt", ty, a, b)));
                    out.push((format!("C03 mergen {} {};{} 0,1,1,0,n,0,1,0,1", ty, x, y), format!("fixed ty:{} fx:slice-kinds k:{}{} op:mergen nt", ty, a, b)));
                }
            }
        }
    }
    // the same slice kinds given physically (offsets / child bytes / validity) for concat, concat_batches, coalescer
    let ptoks = ["0,2,3,5/0102030405/-", "0,2,3/0102030a0b/-", "2,3,5/0a0b030405/10", "1,2,4/0a02030405/-", "2/0a0b0c/-", "0,0,2/0102/01"];
    for kind in ["list", "llist", "map"] {
        for a in 0..6 {
            for b in 0..6 {
                for c in 0..6 {
                    let var = (a + b + c) % 3;
                    out.push((format!("C03 lconcat {} {} {};{};{}", kind, var, ptoks[a], ptoks[b], ptoks[c]), format!("fixed op:lconcat lkind:{} lvar:{} fx:slice-kinds nt", kind, var)));
                }
            }
        }
    }
    // view blocks: dozens of ~300-byte strings in one output batch (8 KiB and 16 KiB block boundaries)
    let huge: Vec<Row> = (0..70).map(|i| if i % 9 == 4 { None } else { Some([7u32, 15, 23, 31, 39, 47, 55][i % 7]) }).collect();
    for target in [64usize, 70] {
        out.push((
            format!("C03 coalesce sv {} - p:0:{};p:2:{};f:0:{}:0:{};x;n;n;n;n", target, show_rows(&huge), show_rows(&huge[..50]), show_rows(&huge), show_mask(&(0..70).map(|i| Some(i % 2 == 0)).collect::<Vec<_>>())),
            "fixed op:coalesce cty:sv fx:view-block-8k nt".to_string(),
        ));
    }
    out
}

fn main() {
    let args = parse_args();
    if std::env::var("VERIF_LOUD").is_err() {
        quiet_panics();
    }
    let mut sink = Sink::new(&args.out);
    if args.mode == "replay" {
        for line in read_cases(args.replay.as_ref().unwrap()) {
            let a = run_case(&line);
            let tags = format!("replay{}", answer_tags(&line, &a));
            sink.case(line, a, &tags);
        }
    } else {
        let mut rng = Rng::new(args.seed ^ 0xC03);
        let n = n_cases(&args, 12000, 200000);
        let mut fixed = if args.cases.is_some() { vec![] } else { fixed_block() };
        fixed.reverse();
        let total = n + fixed.len();
        for _ in 0..total {
            let (line, tags) = match fixed.pop() {
                Some(x) => x,
                None => gen_case(&mut rng),
            };
            let before = INVALID_RESULTS.load(std::sync::atomic::Ordering::Relaxed);
            let a = run_case(&line);
            let mut tags = tags;
            if INVALID_RESULTS.load(std::sync::atomic::Ordering::Relaxed) != before {
                tags.push_str(" wf:result-fails-validate_full");
            }
            tags.push_str(answer_tags(&line, &a));
            if a.starts_with("BAD:") {
                // the result array is not made of input rows / fails validation: property violated
                // on the implementation itself, independent of the Lean model
                sink.oracle_failure(line.clone(), a.clone(), &tags);
                tags.push_str(" answer:BAD");
            }
            sink.case(line, a, &tags);
        }
    }
    sink.finish();
}
