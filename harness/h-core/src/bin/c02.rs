//! C02 correspondence harness: array content, `==` and kernel results depend only on logical values.
//!
//! Case lines (physical dump grammar `A(type;len;offset;nulls;buffers;children)` of
//! lean/ArrowModel/C09/Driver.lean; the validity bitmap shares the array's offset):
//!   C02 eq <A> <B>          `ArrayData == ArrayData` and accessor-level logical equality -> `eq=<0|1> spec=<0|1>`
//!   C02 dec <A>             the column read back through the typed accessors (`value(i)`, `is_null(i)`)
//!   C02 slice <o> <l> <A>   `ArrayData::slice(o, l)` read back through accessors
//!   C02 take <idx,..> <A>   `arrow_select::take` read back
//!   C02 filter <bits> <A>   `arrow_select::filter` read back
//!   C02 col <type> <n> <seed>   oracle-only: draw a logical column of <n> rows and >= 4 physical
//!                           realisations of it; read-back (accessors, iterators, ArrayFormatter), `==` on
//!                           all pairs (and `!=` against a different column), a kernel battery on every
//!                           realisation, row-wise commutation with take/slice/concat.  Answer `ok`
//!                           (the Lean driver answers SKIP); every discrepancy is an oracle failure.
//! Logical column syntax: values `,`-separated (`-` empty); `N` null, `b0|b1`, `x<hex>` (fixed-width
//! values little-endian, i.e. floats by bit pattern), `[..]` list, `{..}` struct; dictionary and
//! run-end encoded arrays are shown by the values they denote.
use arrow_array::cast::AsArray;
use arrow_array::types::*;
use arrow_array::*;
use arrow_buffer::{Buffer, ToByteSlice};
use arrow_cast::cast::{CastOptions, cast_with_options};
use arrow_cast::display::{ArrayFormatter, FormatOptions};
use arrow_data::ArrayData;
use arrow_schema::{ArrowError, DataType, Field, Fields};
use std::cell::RefCell;
use std::sync::Arc;
use vcommon::*;

thread_local! {
    static ORACLE: RefCell<Vec<String>> = RefCell::new(vec![]);
    static TAGS: RefCell<Vec<String>> = RefCell::new(vec![]);
}
/// record an oracle failure; the first word of `what` is its class (`fail:<class>` tag); at most
/// two failures per class and case are kept
fn fail(what: String) {
    ORACLE.with(|o| {
        let mut o = o.borrow_mut();
        // class = first word, plus the kernel name for kernel failures
        let key = |x: &str| -> String {
            let mut it = x.split(|c: char| c == ' ' || c == '[');
            let c = it.next().unwrap_or("").to_string();
            if c.starts_with("kernel") || c.starts_with("commute") { format!("{} {}", c, it.next().unwrap_or("")) } else { c }
        };
        let class = key(&what);
        if o.len() < 40 && o.iter().filter(|x: &&String| key(x) == class).count() < 2 {
            o.push(what);
        }
    });
}
fn tag(t: &str) {
    TAGS.with(|o| {
        let mut o = o.borrow_mut();
        if !o.iter().any(|x| x == t) {
            o.push(t.to_string());
        }
    });
}

// ------------------------------------------------------------------------------ logical values

#[derive(Clone, PartialEq, Debug)]
enum V {
    N,
    B(bool),
    X(Vec<u8>),
    L(Vec<V>),
    S(Vec<V>),
}

fn show_v(v: &V) -> String {
    match v {
        V::N => "N".into(),
        V::B(b) => if *b { "b1" } else { "b0" }.into(),
        V::X(b) => format!("x{}", if b.is_empty() { String::new() } else { hex(b) }),
        V::L(vs) => format!("[{}]", vs.iter().map(show_v).collect::<Vec<_>>().join(",")),
        V::S(vs) => format!("{{{}}}", vs.iter().map(show_v).collect::<Vec<_>>().join(",")),
    }
}
fn show_col(c: &[V]) -> String {
    if c.is_empty() { "-".into() } else { c.iter().map(show_v).collect::<Vec<_>>().join(",") }
}

/// read an array back through its typed accessors (`is_null(i)`, `value(i)`, …)
fn logical(arr: &dyn Array) -> Vec<V> {
    use arrow_array::downcast_primitive_array;
    let n = arr.len();
    let pick = |i: usize, f: &dyn Fn(usize) -> V| if arr.is_null(i) { V::N } else { f(i) };
    downcast_primitive_array!(
        arr => { (0..n).map(|i| if arr.is_null(i) { V::N } else { V::X(arr.value(i).to_byte_slice().to_vec()) }).collect() }
        DataType::Null => vec![V::N; n],
        DataType::Boolean => { let a = arr.as_boolean(); (0..n).map(|i| pick(i, &|i| V::B(a.value(i)))).collect() }
        DataType::Utf8 => { let a = arr.as_string::<i32>(); (0..n).map(|i| pick(i, &|i| V::X(a.value(i).as_bytes().to_vec()))).collect() }
        DataType::LargeUtf8 => { let a = arr.as_string::<i64>(); (0..n).map(|i| pick(i, &|i| V::X(a.value(i).as_bytes().to_vec()))).collect() }
        DataType::Binary => { let a = arr.as_binary::<i32>(); (0..n).map(|i| pick(i, &|i| V::X(a.value(i).to_vec()))).collect() }
        DataType::LargeBinary => { let a = arr.as_binary::<i64>(); (0..n).map(|i| pick(i, &|i| V::X(a.value(i).to_vec()))).collect() }
        DataType::Utf8View => { let a = arr.as_string_view(); (0..n).map(|i| pick(i, &|i| V::X(a.value(i).as_bytes().to_vec()))).collect() }
        DataType::BinaryView => { let a = arr.as_binary_view(); (0..n).map(|i| pick(i, &|i| V::X(a.value(i).to_vec()))).collect() }
        DataType::FixedSizeBinary(_) => { let a = arr.as_fixed_size_binary(); (0..n).map(|i| pick(i, &|i| V::X(a.value(i).to_vec()))).collect() }
        DataType::List(_) => { let a = arr.as_list::<i32>(); (0..n).map(|i| pick(i, &|i| V::L(logical(a.value(i).as_ref())))).collect() }
        DataType::LargeList(_) => { let a = arr.as_list::<i64>(); (0..n).map(|i| pick(i, &|i| V::L(logical(a.value(i).as_ref())))).collect() }
        DataType::ListView(_) => { let a = arr.as_list_view::<i32>(); (0..n).map(|i| pick(i, &|i| V::L(logical(a.value(i).as_ref())))).collect() }
        DataType::FixedSizeList(_, _) => { let a = arr.as_fixed_size_list(); (0..n).map(|i| pick(i, &|i| V::L(logical(a.value(i).as_ref())))).collect() }
        DataType::Struct(_) => {
            let a = arr.as_struct();
            let cols: Vec<Vec<V>> = a.columns().iter().map(|c| logical(c.as_ref())).collect();
            (0..n).map(|i| pick(i, &|i| V::S(cols.iter().map(|c| c[i].clone()).collect()))).collect()
        }
        DataType::Dictionary(_, _) => {
            let a = arr.as_any_dictionary();
            let vals = logical(a.values().as_ref());
            let keys = logical_keys(a.keys());
            (0..n).map(|i| pick(i, &|i| vals[keys[i] as usize].clone())).collect()
        }
        DataType::RunEndEncoded(_, _) => {
            macro_rules! run {
                ($t:ty) => {{
                    let a = arr.as_any().downcast_ref::<RunArray<$t>>().unwrap();
                    let vals = logical(a.values().as_ref());
                    (0..n).map(|i| vals[a.get_physical_index(i)].clone()).collect()
                }};
            }
            match arr.data_type() {
                DataType::RunEndEncoded(f, _) if f.data_type() == &DataType::Int16 => run!(Int16Type),
                DataType::RunEndEncoded(f, _) if f.data_type() == &DataType::Int64 => run!(Int64Type),
                _ => run!(Int32Type),
            }
        }
        t => panic!("logical: unsupported type {t:?}")
    )
}
/// dictionary keys as i128 (garbage under nulls kept as is; only valid slots are looked at)
fn logical_keys(keys: &dyn Array) -> Vec<i128> {
    use arrow_array::downcast_integer_array;
    downcast_integer_array!(
        keys => { keys.values().iter().map(|k| *k as i128).collect() }
        _ => unreachable!()
    )
}

// -------------------------------------------------------------------------------- logical types

#[derive(Clone, PartialEq, Debug)]
enum LT {
    Bool,
    /// fixed-width primitive with its Arrow type
    Prim(DataType),
    Utf8(bool),
    Binary(bool),
    Fsb(usize),
    List(Box<LT>),
    LargeList(Box<LT>),
    Fsl(usize, Box<LT>),
    Struct(Vec<LT>),
    Dict(DataType, Box<LT>),
    Ree(Box<LT>),
    Utf8View,
    BinView,
    Null,
    ListView(Box<LT>),
}

fn prim_width(dt: &DataType) -> usize {
    dt.primitive_width().expect("primitive")
}

fn lt_dt(t: &LT) -> DataType {
    match t {
        LT::Bool => DataType::Boolean,
        LT::Prim(d) => d.clone(),
        LT::Utf8(l) => if *l { DataType::LargeUtf8 } else { DataType::Utf8 },
        LT::Binary(l) => if *l { DataType::LargeBinary } else { DataType::Binary },
        LT::Fsb(n) => DataType::FixedSizeBinary(*n as i32),
        LT::List(i) => DataType::List(Arc::new(Field::new("item", lt_dt(i), true))),
        LT::LargeList(i) => DataType::LargeList(Arc::new(Field::new("item", lt_dt(i), true))),
        LT::ListView(i) => DataType::ListView(Arc::new(Field::new("item", lt_dt(i), true))),
        LT::Fsl(n, i) => DataType::FixedSizeList(Arc::new(Field::new("item", lt_dt(i), true)), *n as i32),
        LT::Struct(fs) => DataType::Struct(Fields::from(fs.iter().enumerate().map(|(k, t)| Field::new(format!("f{k}"), lt_dt(t), true)).collect::<Vec<_>>())),
        LT::Dict(k, v) => DataType::Dictionary(Box::new(k.clone()), Box::new(lt_dt(v))),
        LT::Ree(v) => DataType::RunEndEncoded(Arc::new(Field::new("run_ends", DataType::Int32, false)), Arc::new(Field::new("values", lt_dt(v), true))),
        LT::Utf8View => DataType::Utf8View,
        LT::BinView => DataType::BinaryView,
        LT::Null => DataType::Null,
    }
}

const GRID: [&str; 36] = [  // see also BITS (nested bit-/byte-level leaves)
    "bool", "i8", "i16", "i32", "i64", "u8", "u32", "u64", "f32", "f64", "dec128", "utf8", "lutf8", "bin", "fsb3", "list", "fsl2",
    "struct", "dict8", "dict32", "ree", "utf8view", "listview", "liststr",
    "listsv", "structsv", "dictsv", "fslstr", "lbin", "reestr",
    "date32", "ts_ms", "ts_ns", "time64us", "null", "binview",
];

/// nested bit-/byte-level leaves: parents whose child range start and child `ArrayData::offset`
/// are drawn over all residue pairs mod 8 (see `realisations`)
const BITS: [&str; 9] = ["listbool", "llistbool", "fsl5bool", "fsl3bool", "liststructbool", "listi8", "llistfsb", "fsl3i8", "listlistbool"];
fn is_bits(ts: &str) -> bool {
    BITS.contains(&ts)
}

/// primitive / string / binary dictionaries over all eight key types whose null rows are valid
/// keys into null dictionary VALUES (`NULLVAL` family)
const DNV: [&str; 10] = ["dnv_i8_i32", "dnv_i16_i64", "dnv_i32_u8", "dnv_i64_f64", "dnv_u8_i32", "dnv_u16_utf8", "dnv_u32_bin", "dnv_u64_i64", "dnv_i8_utf8", "dnv_i32_i32"];
fn is_dnv(ts: &str) -> bool {
    ts.starts_with("dnv_")
}

fn parse_lt(s: &str) -> LT {
    if let Some(rest) = s.strip_prefix("dnv_") {
        let (k, v) = rest.split_once('_').expect("dnv_<key>_<value>");
        let kt = match k {
            "i8" => DataType::Int8, "i16" => DataType::Int16, "i32" => DataType::Int32, "i64" => DataType::Int64,
            "u8" => DataType::UInt8, "u16" => DataType::UInt16, "u32" => DataType::UInt32, _ => DataType::UInt64,
        };
        let vt = match v {
            "i32" => LT::Prim(DataType::Int32), "i64" => LT::Prim(DataType::Int64), "u8" => LT::Prim(DataType::UInt8),
            "f64" => LT::Prim(DataType::Float64), "utf8" => LT::Utf8(false), _ => LT::Binary(false),
        };
        return LT::Dict(kt, Box::new(vt));
    }
    match s {
        "listbool" => LT::List(Box::new(LT::Bool)),
        "llistbool" => LT::LargeList(Box::new(LT::Bool)),
        "fsl5bool" => LT::Fsl(5, Box::new(LT::Bool)),
        "fsl3bool" => LT::Fsl(3, Box::new(LT::Bool)),
        "liststructbool" => LT::List(Box::new(LT::Struct(vec![LT::Bool, LT::Prim(DataType::Int8)]))),
        "listi8" => LT::List(Box::new(LT::Prim(DataType::Int8))),
        "llistfsb" => LT::LargeList(Box::new(LT::Fsb(3))),
        "fsl3i8" => LT::Fsl(3, Box::new(LT::Prim(DataType::Int8))),
        "listlistbool" => LT::List(Box::new(LT::List(Box::new(LT::Bool)))),
        "bool" => LT::Bool,
        "i8" => LT::Prim(DataType::Int8),
        "i16" => LT::Prim(DataType::Int16),
        "i32" => LT::Prim(DataType::Int32),
        "i64" => LT::Prim(DataType::Int64),
        "u8" => LT::Prim(DataType::UInt8),
        "u32" => LT::Prim(DataType::UInt32),
        "u64" => LT::Prim(DataType::UInt64),
        "f32" => LT::Prim(DataType::Float32),
        "f64" => LT::Prim(DataType::Float64),
        "dec128" => LT::Prim(DataType::Decimal128(38, 3)),
        "utf8" => LT::Utf8(false),
        "lutf8" => LT::Utf8(true),
        "bin" => LT::Binary(false),
        "fsb3" => LT::Fsb(3),
        "list" => LT::List(Box::new(LT::Prim(DataType::Int32))),
        "liststr" => LT::List(Box::new(LT::Utf8(false))),
        "fsl2" => LT::Fsl(2, Box::new(LT::Prim(DataType::Int32))),
        "struct" => LT::Struct(vec![LT::Prim(DataType::Int32), LT::Utf8(false), LT::Bool]),
        "dict8" => LT::Dict(DataType::Int8, Box::new(LT::Utf8(false))),
        "dict32" => LT::Dict(DataType::Int32, Box::new(LT::Utf8(false))),
        "ree" => LT::Ree(Box::new(LT::Prim(DataType::Int32))),
        "reestr" => LT::Ree(Box::new(LT::Utf8(false))),
        "listsv" => LT::List(Box::new(LT::Utf8View)),
        "structsv" => LT::Struct(vec![LT::Utf8View, LT::Prim(DataType::Int64)]),
        "dictsv" => LT::Dict(DataType::Int16, Box::new(LT::Utf8View)),
        "fslstr" => LT::Fsl(3, Box::new(LT::Utf8(false))),
        "lbin" => LT::Binary(true),
        "date32" => LT::Prim(DataType::Date32),
        "ts_ms" => LT::Prim(DataType::Timestamp(arrow_schema::TimeUnit::Millisecond, None)),
        "ts_ns" => LT::Prim(DataType::Timestamp(arrow_schema::TimeUnit::Nanosecond, Some("+01:00".into()))),
        "time64us" => LT::Prim(DataType::Time64(arrow_schema::TimeUnit::Microsecond)),
        "null" => LT::Null,
        "binview" => LT::BinView,
        "utf8view" => LT::Utf8View,
        "listview" => LT::ListView(Box::new(LT::Prim(DataType::Int32))),
        _ => panic!("unknown type {s}"),
    }
}

// ------------------------------------------------------------------------- logical generator

const WORDS: [&str; 14] = [
    "", "a", "ab", "abc", "\u{e9}t\u{e9}", "\u{20ac}", "a\u{1d11e}b", "zzzzzzzzzzzz", "a long string beyond twelve bytes", "another long string, sharing nothing",
    // inline limit 12 / 13, and long values that share the 4-byte prefix and the length
    "zzzzzzzzzzzzz", "zzzzzzzzzzzy", "a long string beyond twelve bytez", "a lonG string beyond twelve bytes",
];
const F64S: [u64; 8] = [0, 0x8000000000000000, 0x7ff8000000000000, 0x7ff8000000000001, 0xfff8000000000000, 0x3ff0000000000000, 0xbff0000000000000, 0x7ff0000000000000];
const F32S: [u32; 8] = [0, 0x80000000, 0x7fc00000, 0x7fc00001, 0xffc00000, 0x3f800000, 0xbf800000, 0x7f800000];

thread_local! {
    /// when set, `gen_val` produces no nulls at any depth (columns for the no-null fast paths)
    static NO_NULLS: std::cell::Cell<bool> = std::cell::Cell::new(false);
}

fn gen_val(rng: &mut Rng, t: &LT, nullable: bool) -> V {
    if matches!(t, LT::Null) {
        return V::N;
    }
    if nullable && !NO_NULLS.with(|c| c.get()) && rng.chance(1, 4) {
        return V::N;
    }
    match t {
        LT::Bool => V::B(rng.bool()),
        LT::Prim(d) => {
            let w = prim_width(d);
            match d {
                DataType::Float64 if rng.chance(2, 3) => V::X(rng.pick(&F64S).to_le_bytes().to_vec()),
                DataType::Float32 if rng.chance(2, 3) => V::X(rng.pick(&F32S).to_le_bytes().to_vec()),
                DataType::Float64 => V::X((rng.range(-50, 50) as f64 / 4.0).to_le_bytes().to_vec()),
                DataType::Float32 => V::X((rng.range(-50, 50) as f32 / 4.0).to_le_bytes().to_vec()),
                _ => {
                    // small values mostly (so that add/neg rarely overflow), extremes sometimes
                    let signed = !matches!(d, DataType::UInt8 | DataType::UInt16 | DataType::UInt32 | DataType::UInt64);
                    let v: i128 = match rng.below(10) {
                        0 => if signed { -(1i128 << (8 * w.min(15) - 1)) } else { 0 },
                        1 => if signed { (1i128 << (8 * w.min(15) - 1)) - 1 } else { (1i128 << (8 * w.min(15))) - 1 },
                        _ => if signed { rng.range(-5, 5) as i128 } else { rng.range(0, 9) as i128 },
                    };
                    V::X(v.to_le_bytes()[..w].to_vec())
                }
            }
        }
        LT::Utf8(_) | LT::Utf8View => V::X(rng.pick(&WORDS).as_bytes().to_vec()),
        LT::Null => V::N,
        LT::BinView => {
            // lengths around the inline limit 12, long values sharing their 4-byte prefix
            let n = *rng.pick(&[0usize, 1, 4, 11, 12, 13, 16, 20]);
            let mut v: Vec<u8> = (0..n).map(|i| if i < 4 { 0x61 } else { *rng.pick(&[0u8, 0x61, 0xff]) }).collect();
            if n > 0 && rng.chance(1, 4) {
                v[0] = 0x62;
            }
            V::X(v)
        }
        LT::Binary(_) => {
            let n = rng.usize(4);
            V::X((0..n).map(|_| *rng.pick(&[0u8, 1, 0x61, 0xff])).collect())
        }
        LT::Fsb(n) => V::X((0..*n).map(|_| *rng.pick(&[0u8, 1, 0x61, 0xff])).collect()),
        LT::List(i) | LT::LargeList(i) | LT::ListView(i) => {
            let n = if matches!(**i, LT::Bool | LT::Prim(DataType::Int8) | LT::Fsb(_)) { rng.usize(10) } else { rng.usize(4) };
            V::L((0..n).map(|_| gen_val(rng, i, true)).collect())
        }
        LT::Fsl(n, i) => V::L((0..*n).map(|_| gen_val(rng, i, true)).collect()),
        LT::Struct(fs) => V::S(fs.iter().map(|f| gen_val(rng, f, true)).collect()),
        LT::Dict(_, v) => gen_val(rng, v, false),
        LT::Ree(v) => gen_val(rng, v, true),
    }
}

fn gen_col(rng: &mut Rng, t: &LT, n: usize) -> Vec<V> {
    let nested = matches!(t, LT::List(_) | LT::LargeList(_) | LT::Fsl(..) | LT::Struct(_));
    let none = nested && rng.chance(2, 5);
    NO_NULLS.with(|c| c.set(none));
    let r = gen_col_inner(rng, t, n, none);
    NO_NULLS.with(|c| c.set(false));
    r
}
fn gen_col_inner(rng: &mut Rng, t: &LT, n: usize, none: bool) -> Vec<V> {
    let nullable = !none && !matches!(t, LT::Ree(_)) && !rng.chance(1, 5);
    let dense = rng.chance(1, 3);
    let mut out: Vec<V> = vec![];
    for _ in 0..n {
        // runs of repeated values (run-end arrays, dictionaries, sort ties)
        if !out.is_empty() && rng.chance(1, 3) {
            out.push(out[out.len() - 1].clone());
        } else if nullable && dense && rng.bool() {
            out.push(V::N);
        } else {
            out.push(gen_val(rng, t, nullable || matches!(t, LT::Ree(_))));
        }
    }
    out
}

/// a value of type `t` that can sit under a null slot / in an unused region
fn garbage(rng: &mut Rng, t: &LT) -> V {
    if matches!(t, LT::Null) {
        return V::N;
    }
    loop {
        let v = gen_val(rng, t, false);
        if v != V::N {
            return v;
        }
    }
}

// --------------------------------------------------------------------------- physical builder

#[derive(Clone)]
struct Knobs {
    /// leading unused slots (become `ArrayData::offset`)
    pad: usize,
    /// random payload under null slots / unused regions (else zeros / empty)
    garbage: bool,
    /// emit an all-valid bitmap when the column has no nulls
    force_validity: bool,
    /// type specific layout variation (dictionary order, run splitting, view buffers, list offsets)
    variant: bool,
    /// unused child slots before the first list row (= start of the child range); None: 0..2 if variant
    prefix: Option<usize>,
    /// `ArrayData::offset` of the children; None: 0..3 if variant
    kidpad: Option<usize>,
}

thread_local! {
    /// layout class `ones`: every payload under a null slot is all ones (Boolean value bit 1,
    /// fixed-width values = the largest positive pattern ff..7f)
    static ONES: std::cell::Cell<bool> = std::cell::Cell::new(false);
}
thread_local! {
    /// column family `dnv_*`: every null row of a dictionary column is encoded as a VALID key that
    /// points at a NULL dictionary value (never as a null key)
    static NULLVAL: std::cell::Cell<bool> = std::cell::Cell::new(false);
    /// payload to store under null slots of the array being built (dictionary values of `dnv_*`)
    static NULL_PAYLOAD: RefCell<Option<Vec<u8>>> = RefCell::new(None);
}
fn nullval() -> bool {
    NULLVAL.with(|c| c.get())
}
fn null_payload() -> Option<Vec<u8>> {
    NULL_PAYLOAD.with(|c| c.borrow().clone())
}
fn ones() -> bool {
    ONES.with(|c| c.get())
}
/// payload of `w` bytes under a null slot
fn junk(rng: &mut Rng, w: usize, garbage: bool) -> Vec<u8> {
    let maxpos = |w: usize| {
        let mut v = vec![0xffu8; w];
        if w > 0 {
            v[w - 1] = 0x7f;
        }
        v
    };
    if let Some(p) = null_payload() {
        if p.len() == w {
            return p;
        }
    }
    if ones() {
        return maxpos(w);
    }
    if !garbage {
        return vec![0u8; w];
    }
    match rng.below(5) {
        0 => maxpos(w),
        1 => {
            let mut v = vec![0u8; w];
            if w > 0 {
                v[w - 1] = 0x80;
            }
            v
        }
        2 => vec![0u8; w],
        _ => rng.bytes(w),
    }
}

fn abuf(b: &[u8]) -> Buffer {
    Buffer::from_slice_ref(b)
}
fn set_bit(b: &mut [u8], i: usize) {
    b[i / 8] |= 1 << (i % 8);
}
fn put_int(v: i64, w: usize, out: &mut Vec<u8>) {
    out.extend_from_slice(&v.to_le_bytes()[..w]);
}

/// slots = pad garbage slots, the column, and (variant) some trailing slack slots
fn with_pad(rng: &mut Rng, t: &LT, col: &[V], k: &Knobs) -> (Vec<V>, Vec<bool>) {
    let mut slots: Vec<V> = vec![];
    let mut real: Vec<bool> = vec![];
    for _ in 0..k.pad {
        slots.push(if rng.bool() { V::N } else { garbage(rng, t) });
        real.push(false);
    }
    for v in col {
        slots.push(v.clone());
        real.push(true);
    }
    if k.variant && rng.bool() {
        for _ in 0..1 + rng.usize(3) {
            slots.push(if rng.bool() { V::N } else { garbage(rng, t) });
            real.push(false);
        }
    }
    (slots, real)
}

fn validity(rng: &mut Rng, slots: &[V], col_has_null: bool, k: &Knobs, can_null: bool) -> Option<Vec<u8>> {
    if !can_null || (!col_has_null && !k.force_validity) {
        return None;
    }
    let mut b = vec![0u8; (slots.len() + 7) / 8 + if k.variant { 1 } else { 0 }];
    for (i, v) in slots.iter().enumerate() {
        if *v != V::N {
            set_bit(&mut b, i);
        }
    }
    if k.garbage {
        // bits beyond the last slot are arbitrary
        for i in slots.len()..b.len() * 8 {
            if rng.bool() {
                set_bit(&mut b, i);
            }
        }
    }
    Some(b)
}

/// raw `ArrayData` (validated by `build()`) for the column `col` of type `t`
fn raw(rng: &mut Rng, t: &LT, col: &[V], k: &Knobs) -> ArrayData {
    // Struct: arrow-rs gives `ArrayData::offset` of a struct no consistent meaning (see props/C02.json),
    // so a padded struct is produced by `StructArray::slice` instead
    if let (LT::Struct(_), true) = (t, k.pad > 0) {
        let mut k0 = k.clone();
        k0.pad = 0;
        let mut full: Vec<V> = (0..k.pad).map(|_| if rng.bool() { V::N } else { garbage(rng, t) }).collect();
        full.extend_from_slice(col);
        let d = raw(rng, t, &full, &k0);
        return make_array(d).slice(k.pad, col.len()).to_data();
    }
    let col_has_null = col.iter().any(|v| *v == V::N);
    let (slots, _real) = with_pad(rng, t, col, k);
    // a padded column whose padding contains nulls needs a bitmap
    let need_bitmap = col_has_null || slots.iter().any(|v| *v == V::N);
    let nv_dict = nullval() && matches!(t, LT::Dict(..));
    let nulls = if nv_dict {
        // keys are all valid; (force_validity) an all-valid bitmap
        if k.force_validity { Some(vec![0xffu8; (slots.len() + 7) / 8 + 1]) } else { None }
    } else {
        validity(rng, &slots, need_bitmap, k, !matches!(t, LT::Ree(_) | LT::Null))
    };
    let n = col.len();
    let kid_knobs = |rng: &mut Rng| Knobs {
        pad: k.kidpad.unwrap_or(if k.variant { rng.usize(4) } else { 0 }),
        garbage: k.garbage,
        force_validity: k.force_validity && rng.bool(),
        variant: k.variant,
        prefix: k.prefix.map(|_| rng.usize(8)),
        kidpad: k.kidpad.map(|_| rng.usize(8)),
    };
    let mut b = ArrayData::builder(lt_dt(t)).len(n).offset(k.pad);
    if let Some(nb) = &nulls {
        b = b.null_bit_buffer(Some(abuf(nb)));
    }
    match t {
        LT::Bool => {
            let mut bits = vec![0u8; (slots.len() + 7) / 8 + 1];
            for (i, v) in slots.iter().enumerate() {
                let bit = match v {
                    V::B(x) => *x,
                    _ => ones() || (k.garbage && rng.bool()),
                };
                if bit {
                    set_bit(&mut bits, i);
                }
            }
            b = b.add_buffer(abuf(&bits));
        }
        LT::Prim(_) | LT::Fsb(_) => {
            let w = match t {
                LT::Prim(d) => prim_width(d),
                LT::Fsb(w) => *w,
                _ => unreachable!(),
            };
            let mut bytes = vec![];
            for v in &slots {
                match v {
                    V::X(x) => bytes.extend_from_slice(x),
                    _ => bytes.extend_from_slice(&junk(rng, w, k.garbage)),
                }
            }
            b = b.add_buffer(abuf(&bytes));
        }
        LT::Utf8(l) | LT::Binary(l) => {
            let w = if *l { 8 } else { 4 };
            let mut data: Vec<u8> = vec![];
            if k.variant {
                data.extend_from_slice(&b"##"[..rng.usize(3)]);
            }
            let mut offs = vec![];
            put_int(data.len() as i64, w, &mut offs);
            for v in &slots {
                match v {
                    V::X(x) => data.extend_from_slice(x),
                    _ => {
                        if let Some(p) = null_payload() {
                            data.extend_from_slice(&p);
                        } else if k.garbage {
                            data.extend_from_slice(rng.pick(&WORDS).as_bytes());
                        }
                    }
                }
                put_int(data.len() as i64, w, &mut offs);
            }
            if k.variant {
                data.extend_from_slice(b"#");
            }
            b = b.add_buffer(abuf(&offs)).add_buffer(abuf(&data));
        }
        LT::List(item) | LT::LargeList(item) => {
            let ow = if matches!(t, LT::LargeList(_)) { 8 } else { 4 };
            let mut child: Vec<V> = vec![];
            let npre = k.prefix.unwrap_or(if k.variant { rng.usize(3) } else { 0 });
            for _ in 0..npre {
                child.push(garbage(rng, item));
            }
            let mut offs = vec![];
            put_int(child.len() as i64, ow, &mut offs);
            for v in &slots {
                match v {
                    V::L(x) => child.extend_from_slice(x),
                    _ => {
                        if k.garbage {
                            for _ in 0..rng.usize(3) {
                                child.push(if rng.bool() { V::N } else { garbage(rng, item) });
                            }
                        }
                    }
                }
                put_int(child.len() as i64, ow, &mut offs);
            }
            let kk = kid_knobs(rng);
            b = b.add_buffer(abuf(&offs)).add_child_data(raw(rng, item, &child, &kk));
        }
        LT::ListView(item) => {
            // child regions laid out in a shuffled order, possibly with gaps (variant)
            let mut order: Vec<usize> = (0..slots.len()).collect();
            if k.variant {
                for i in (1..order.len()).rev() {
                    order.swap(i, rng.usize(i + 1));
                }
            }
            let mut child: Vec<V> = vec![];
            let mut offs = vec![0i32; slots.len()];
            let mut sizes = vec![0i32; slots.len()];
            for &i in &order {
                if k.variant && rng.chance(1, 3) {
                    child.push(garbage(rng, item));
                }
                offs[i] = child.len() as i32;
                match &slots[i] {
                    V::L(x) => {
                        child.extend_from_slice(x);
                        sizes[i] = x.len() as i32;
                    }
                    _ => {
                        if k.garbage {
                            let g = rng.usize(3);
                            for _ in 0..g {
                                child.push(garbage(rng, item));
                            }
                            sizes[i] = g as i32;
                        }
                    }
                }
            }
            let kk = kid_knobs(rng);
            b = b.add_buffer(Buffer::from_vec(offs)).add_buffer(Buffer::from_vec(sizes)).add_child_data(raw(rng, item, &child, &kk));
        }
        LT::Fsl(m, item) => {
            let mut child: Vec<V> = vec![];
            for v in &slots {
                match v {
                    V::L(x) => child.extend_from_slice(x),
                    _ => {
                        for _ in 0..*m {
                            child.push(if k.garbage && rng.bool() { garbage(rng, item) } else { V::N });
                        }
                    }
                }
            }
            // a fixed-size list addresses child slots (offset + i) * m, on top of the child's own offset
            let kk = kid_knobs(rng);
            b = b.add_child_data(raw(rng, item, &child, &kk));
        }
        LT::Struct(fs) => {
            for (j, f) in fs.iter().enumerate() {
                let child: Vec<V> = slots
                    .iter()
                    .map(|v| match v {
                        V::S(x) => x[j].clone(),
                        _ => if k.garbage && rng.bool() { garbage(rng, f) } else { V::N },
                    })
                    .collect();
                let kk = kid_knobs(rng);
                b = b.add_child_data(raw(rng, f, &child, &kk));
            }
            b = b.len(slots.len());
        }
        LT::Dict(kt, vt) => {
            // dictionary values: distinct values of the slots, then (variant) permuted, duplicated, with unused entries
            let mut vals: Vec<V> = vec![];
            for v in &slots {
                if *v != V::N && !vals.contains(v) {
                    vals.push(v.clone());
                }
            }
            if k.variant {
                for _ in 0..rng.usize(3) {
                    vals.push(garbage(rng, vt)); // unused or duplicate
                }
                if !vals.is_empty() && rng.bool() {
                    let d = vals[rng.usize(vals.len())].clone();
                    vals.push(d);
                }
                for i in (1..vals.len()).rev() {
                    vals.swap(i, rng.usize(i + 1));
                }
            }
            // `dnv_*`: null rows are valid keys into null VALUE slots; the payload under those null
            // values is zero / a live value of the column / MAX / random
            let mut payload: Option<Vec<u8>> = None;
            if nv_dict {
                let live: Vec<Vec<u8>> = vals.iter().filter_map(|v| if let V::X(x) = v { Some(x.clone()) } else { None }).collect();
                let w = match &**vt { LT::Prim(d) => prim_width(d), _ => 0 };
                let class = rng.below(5);
                payload = match class {
                    0 => Some(vec![0u8; w]),
                    1 | 2 if !live.is_empty() => Some(rng.pick(&live).clone()),
                    3 if w > 0 => { let mut m = vec![0xffu8; w]; m[w - 1] = 0x7f; Some(m) }
                    _ => None,
                };
                tag(&format!("nvp:{}", match (class, &payload) { (0, _) => "zero", (1 | 2, Some(_)) => "live", (3, Some(_)) => "max", _ => "rand" }));
                for _ in 0..1 + rng.usize(2) {
                    let at = rng.usize(vals.len() + 1);
                    vals.insert(at, V::N);
                }
            }
            let kw = prim_width(kt);
            let mut keys = vec![];
            for v in &slots {
                match v {
                    V::N if nv_dict => {
                        let cands: Vec<usize> = (0..vals.len()).filter(|j| vals[*j] == V::N).collect();
                        put_int(*rng.pick(&cands) as i64, kw, &mut keys);
                    }
                    V::N => put_int(if k.garbage { *rng.pick(&[100i64, -1, 127, 50]) } else { 0 }, kw, &mut keys),
                    _ => {
                        let cands: Vec<usize> = (0..vals.len()).filter(|j| vals[*j] == *v).collect();
                        put_int(*rng.pick(&cands) as i64, kw, &mut keys);
                    }
                }
            }
            let mut kk = kid_knobs(rng);
            kk.force_validity = false;
            NULL_PAYLOAD.with(|c| *c.borrow_mut() = payload);
            let child = std::panic::catch_unwind(std::panic::AssertUnwindSafe(|| raw(rng, vt, &vals, &kk)));
            NULL_PAYLOAD.with(|c| *c.borrow_mut() = None);
            match child {
                Ok(c) => b = b.add_buffer(abuf(&keys)).add_child_data(c),
                Err(e) => std::panic::resume_unwind(e),
            }
        }
        LT::Ree(vt) => {
            // maximal runs, then (variant) split at random points
            let mut ends: Vec<i32> = vec![];
            let mut vals: Vec<V> = vec![];
            for (i, v) in slots.iter().enumerate() {
                let split = k.variant && rng.chance(1, 3);
                if i > 0 && vals[vals.len() - 1] == *v && !split {
                    *ends.last_mut().unwrap() = i as i32 + 1;
                } else {
                    ends.push(i as i32 + 1);
                    vals.push(v.clone());
                }
            }
            if k.variant && rng.bool() {
                // unused trailing run
                ends.push(slots.len() as i32 + 1 + rng.usize(3) as i32);
                vals.push(garbage(rng, vt));
            }
            let re = ArrayData::builder(DataType::Int32).len(ends.len()).add_buffer(Buffer::from_vec(ends)).build().unwrap();
            let mut kk = kid_knobs(rng);
            kk.pad = 0;
            b = b.add_child_data(re).add_child_data(raw(rng, vt, &vals, &kk));
        }
        LT::Null => {}
        LT::Utf8View | LT::BinView => {
            // data buffers: (variant) several buffers, values distributed at random, garbage between
            let nbuf = if k.variant { 1 + rng.usize(3) } else { 1 };
            let mut bufs: Vec<Vec<u8>> = vec![vec![]; nbuf];
            let mut views: Vec<u128> = vec![];
            for v in &slots {
                let s: Vec<u8> = match v {
                    V::X(x) => x.clone(),
                    _ => if ones() { vec![0xffu8; 13] } else if k.garbage { rng.pick(&WORDS).as_bytes().to_vec() } else { vec![] },
                };
                let s = if matches!(t, LT::Utf8View) && std::str::from_utf8(&s).is_err() { b"\xc3\xa9 not ascii, long".to_vec() } else { s };
                if s.len() <= 12 {
                    let mut raw = [0u8; 16];
                    raw[..4].copy_from_slice(&(s.len() as u32).to_le_bytes());
                    raw[4..4 + s.len()].copy_from_slice(&s);
                    views.push(u128::from_le_bytes(raw));
                } else {
                    let bi = rng.usize(nbuf);
                    if k.variant {
                        bufs[bi].extend_from_slice(&b"\x7f\x7f\x7f"[..rng.usize(4)]);
                    }
                    let off = bufs[bi].len();
                    bufs[bi].extend_from_slice(&s);
                    let mut raw = [0u8; 16];
                    raw[..4].copy_from_slice(&(s.len() as u32).to_le_bytes());
                    raw[4..8].copy_from_slice(&s[..4]);
                    raw[8..12].copy_from_slice(&(bi as u32).to_le_bytes());
                    raw[12..16].copy_from_slice(&(off as u32).to_le_bytes());
                    views.push(u128::from_le_bytes(raw));
                }
            }
            b = b.add_buffer(Buffer::from_vec(views));
            for x in &bufs {
                b = b.add_buffer(abuf(x));
            }
        }
    }
    if matches!(t, LT::Struct(_)) {
        // (pad = 0 here) a struct's length is the slot count minus slack: take the first n rows by length only
        b = b.len(n);
    }
    b.build().unwrap_or_else(|e| panic!("raw build failed for {t:?}: {e}"))
}

/// the column through the standard typed builders / `From` impls, where one exists
fn std_build(t: &LT, col: &[V]) -> Option<ArrayRef> {
    if let LT::Dict(_, v) = t {
        // the string dictionary builders encode nulls as null keys and only hold strings
        if nullval() || !matches!(**v, LT::Utf8(false)) {
            return None;
        }
    }
    use arrow_array::builder::*;
    let s = |v: &V| match v {
        V::X(x) => Some(String::from_utf8(x.clone()).unwrap()),
        _ => None,
    };
    Some(match t {
        LT::Bool => Arc::new(BooleanArray::from(col.iter().map(|v| if let V::B(b) = v { Some(*b) } else { None }).collect::<Vec<_>>())),
        LT::Prim(DataType::Int32) => Arc::new(Int32Array::from(col.iter().map(|v| if let V::X(b) = v { Some(i32::from_le_bytes(b[..].try_into().unwrap())) } else { None }).collect::<Vec<_>>())),
        LT::Prim(DataType::Float64) => Arc::new(Float64Array::from(col.iter().map(|v| if let V::X(b) = v { Some(f64::from_le_bytes(b[..].try_into().unwrap())) } else { None }).collect::<Vec<_>>())),
        LT::Utf8(false) => Arc::new(StringArray::from(col.iter().map(s).collect::<Vec<_>>())),
        LT::Utf8(true) => Arc::new(LargeStringArray::from(col.iter().map(s).collect::<Vec<_>>())),
        LT::Utf8View => Arc::new(StringViewArray::from(col.iter().map(s).collect::<Vec<_>>())),
        LT::Dict(DataType::Int8, _) => {
            let mut b = StringDictionaryBuilder::<Int8Type>::new();
            for v in col {
                b.append_option(s(v));
            }
            Arc::new(b.finish())
        }
        LT::Dict(DataType::Int32, _) => {
            let mut b = StringDictionaryBuilder::<Int32Type>::new();
            for v in col {
                b.append_option(s(v));
            }
            Arc::new(b.finish())
        }
        LT::List(i) if **i == LT::Prim(DataType::Int32) => {
            let mut b = ListBuilder::new(Int32Builder::new());
            for v in col {
                match v {
                    V::L(xs) => {
                        for x in xs {
                            b.values().append_option(if let V::X(y) = x { Some(i32::from_le_bytes(y[..].try_into().unwrap())) } else { None });
                        }
                        b.append(true);
                    }
                    _ => b.append(false),
                }
            }
            Arc::new(b.finish())
        }
        LT::Ree(i) if **i == LT::Prim(DataType::Int32) => {
            let mut b = PrimitiveRunBuilder::<Int32Type, Int32Type>::new();
            for v in col {
                b.append_option(if let V::X(y) = v { Some(i32::from_le_bytes(y[..].try_into().unwrap())) } else { None });
            }
            Arc::new(b.finish())
        }
        _ => return None,
    })
}

/// builder history: per-value appends, then `append_array` of a slice of another realisation
/// (offset, garbage under nulls), then per-value appends again
fn builder_history(t: &LT, col: &[V], src: &ArrayRef) -> Option<ArrayRef> {
    use arrow_array::builder::*;
    let n = col.len();
    let (a, b) = (n / 3, 2 * n / 3);
    let mid = src.slice(a, b - a);
    let bytes = |v: &V| if let V::X(x) = v { Some(x.clone()) } else { None };
    macro_rules! prim {
        ($ty:ty, $nat:ty) => {{
            let mut bld = PrimitiveBuilder::<$ty>::new().with_data_type(lt_dt(t));
            let val = |v: &V| bytes(v).map(|x| <$nat>::from_le_bytes(x[..].try_into().unwrap()));
            for v in &col[..a] {
                match val(v) {
                    Some(x) => bld.append_value(x),
                    None => bld.append_null(),
                }
            }
            bld.append_array(mid.as_primitive::<$ty>());
            let rest: Vec<Option<$nat>> = col[b..].iter().map(val).collect();
            bld.extend_from_iter_option(rest);
            Arc::new(bld.finish()) as ArrayRef
        }};
    }
    macro_rules! bytesb {
        ($b:expr, $down:expr, $str:expr) => {{
            let mut bld = $b;
            for v in col[..a].iter() {
                match bytes(v) {
                    Some(x) => bld.append_value($str(x)),
                    None => bld.append_null(),
                }
            }
            let _ = bld.append_array(&$down(&mid));
            for v in col[b..].iter() {
                match bytes(v) {
                    Some(x) => bld.append_value($str(x)),
                    None => bld.append_null(),
                }
            }
            Arc::new(bld.finish()) as ArrayRef
        }};
    }
    Some(match t {
        LT::Bool => {
            let mut bld = BooleanBuilder::new();
            for v in &col[..a] {
                match v {
                    V::B(x) => bld.append_value(*x),
                    _ => bld.append_null(),
                }
            }
            bld.append_array(mid.as_boolean());
            for v in &col[b..] {
                match v {
                    V::B(x) => bld.append_n(1, *x),
                    _ => bld.append_nulls(1),
                }
            }
            Arc::new(bld.finish())
        }
        LT::Prim(DataType::Int8) => prim!(Int8Type, i8),
        LT::Prim(DataType::Int16) => prim!(Int16Type, i16),
        LT::Prim(DataType::Int32) => prim!(Int32Type, i32),
        LT::Prim(DataType::Int64) => prim!(Int64Type, i64),
        LT::Prim(DataType::UInt8) => prim!(UInt8Type, u8),
        LT::Prim(DataType::UInt32) => prim!(UInt32Type, u32),
        LT::Prim(DataType::UInt64) => prim!(UInt64Type, u64),
        LT::Prim(DataType::Float32) => prim!(Float32Type, f32),
        LT::Prim(DataType::Float64) => prim!(Float64Type, f64),
        LT::Prim(DataType::Decimal128(..)) => prim!(Decimal128Type, i128),
        LT::Prim(DataType::Date32) => prim!(Date32Type, i32),
        LT::Prim(DataType::Timestamp(arrow_schema::TimeUnit::Millisecond, _)) => prim!(TimestampMillisecondType, i64),
        LT::Utf8(false) => bytesb!(GenericStringBuilder::<i32>::new(), |m: &ArrayRef| m.as_string::<i32>().clone(), |x: Vec<u8>| String::from_utf8(x).unwrap()),
        LT::Utf8(true) => bytesb!(GenericStringBuilder::<i64>::new(), |m: &ArrayRef| m.as_string::<i64>().clone(), |x: Vec<u8>| String::from_utf8(x).unwrap()),
        LT::Binary(false) => bytesb!(GenericBinaryBuilder::<i32>::new(), |m: &ArrayRef| m.as_binary::<i32>().clone(), |x: Vec<u8>| x),
        LT::Binary(true) => bytesb!(GenericBinaryBuilder::<i64>::new(), |m: &ArrayRef| m.as_binary::<i64>().clone(), |x: Vec<u8>| x),
        LT::Utf8View => bytesb!(StringViewBuilder::new(), |m: &ArrayRef| m.as_string_view().clone(), |x: Vec<u8>| String::from_utf8(x).unwrap()),
        LT::BinView => bytesb!(BinaryViewBuilder::new(), |m: &ArrayRef| m.as_binary_view().clone(), |x: Vec<u8>| x),
        LT::Fsb(w) => {
            let mut bld = FixedSizeBinaryBuilder::new(*w as i32);
            for v in &col[..a] {
                match bytes(v) {
                    Some(x) => bld.append_value(x).unwrap(),
                    None => bld.append_null(),
                }
            }
            bld.append_array(mid.as_fixed_size_binary()).unwrap();
            for v in &col[b..] {
                match bytes(v) {
                    Some(x) => bld.append_value(x).unwrap(),
                    None => bld.append_nulls(1),
                }
            }
            Arc::new(bld.finish())
        }
        _ => return None,
    })
}

struct Real {
    name: String,
    arr: ArrayRef,
    /// the `ArrayData` as constructed (before typed arrays normalise offsets), if raw
    data: ArrayData,
}

const PADS: [usize; 12] = [1, 2, 3, 4, 5, 6, 7, 8, 9, 63, 64, 65];

/// >= 4 physical realisations of one logical column
fn realisations(rng: &mut Rng, t: &LT, col: &[V]) -> Vec<Real> {
    let mut out = vec![];
    let n = col.len();
    let mut push = |name: String, d: ArrayData| out.push(Real { name, arr: make_array(d.clone()), data: d });
    // 0: compact, zeroed null slots, validity only if needed
    push("plain".into(), raw(rng, t, col, &Knobs { pad: 0, garbage: false, force_validity: false, variant: false, prefix: None, kidpad: None }));
    // 1: garbage under nulls, all-valid bitmap when there is no null
    push("garbage".into(), raw(rng, t, col, &Knobs { pad: 0, garbage: true, force_validity: true, variant: false, prefix: None, kidpad: None }));
    // 1b: all-ones payload under every null slot (Boolean value bit 1, max positive numbers)
    ONES.with(|c| c.set(true));
    let d1 = std::panic::catch_unwind(std::panic::AssertUnwindSafe(|| raw(rng, t, col, &Knobs { pad: 0, garbage: true, force_validity: false, variant: false, prefix: None, kidpad: None })));
    ONES.with(|c| c.set(false));
    match d1 {
        Ok(d) => push("ones".into(), d),
        Err(e) => std::panic::resume_unwind(e),
    }
    // 2: ArrayData offset at a bit offset
    let p = *rng.pick(&PADS);
    let fv = rng.bool();
    push(format!("offset{p}"), raw(rng, t, col, &Knobs { pad: p, garbage: true, force_validity: fv, variant: false, prefix: None, kidpad: None }));
    // 3: type-specific layout variation, maybe padded
    let p = if rng.bool() { 0 } else { *rng.pick(&PADS) };
    let (g, fv) = (rng.bool(), rng.bool());
    push(format!("variant{p}"), raw(rng, t, col, &Knobs { pad: p, garbage: g, force_validity: fv, variant: true, prefix: None, kidpad: None }));
    // 4: `Array::slice` of a larger array
    {
        let p = *rng.pick(&PADS);
        let q = rng.usize(3);
        let mut big: Vec<V> = (0..p).map(|_| gen_val(rng, t, !matches!(t, LT::Ree(_) | LT::Dict(..)))).collect();
        big.extend_from_slice(col);
        for _ in 0..q {
            big.push(gen_val(rng, t, false));
        }
        let (g, vr) = (rng.bool(), rng.bool());
        let d = raw(rng, t, &big, &Knobs { pad: 0, garbage: g, force_validity: false, variant: vr, prefix: None, kidpad: None });
        let a = make_array(d).slice(p, n);
        out.push(Real { name: format!("sliced{p}"), data: a.to_data(), arr: a });
    }
    // nested bit-/byte-level leaves: the child range start (list first offset / fixed-size-list
    // (offset * size)) and the child's own `ArrayData::offset` over all residue pairs mod 8, biased
    // to pairs whose sum is a multiple of 8 (byte-aligned fast paths of the leaf comparison)
    let bits = match t {
        LT::List(i) | LT::LargeList(i) | LT::Fsl(_, i) => matches!(**i, LT::Bool | LT::Prim(DataType::Int8) | LT::Fsb(_) | LT::Struct(_) | LT::List(_)),
        _ => false,
    };
    if bits {
        for _ in 0..4 {
            let r1 = rng.usize(8) + 8 * rng.usize(2);
            // for a fixed-size list the range start is pad * size: pick the pad, derive the residue
            let pad = if matches!(t, LT::Fsl(..)) { rng.usize(10) } else if rng.bool() { 0 } else { rng.usize(10) };
            let start = match t {
                LT::Fsl(m, _) => pad * m,
                _ => r1,
            };
            let r2 = if rng.bool() { (8 - start % 8) % 8 + 8 * rng.usize(2) } else { rng.usize(8) + 8 * rng.usize(2) };
            let (g, fv, vr) = (rng.bool(), rng.bool(), rng.chance(1, 3));
            tag(&format!("res:{}+{}", start % 8, r2 % 8));
            if (start + r2) % 8 == 0 && start % 8 != 0 {
                tag("res:sum8");
            }
            let d = raw(rng, t, col, &Knobs { pad, garbage: g, force_validity: fv, variant: vr, prefix: Some(r1), kidpad: Some(r2) });
            out.push(Real { name: format!("res{start}_{r2}"), arr: make_array(d.clone()), data: d });
        }
    }
    // 5: the standard builder / From impl
    if let Some(a) = std_build(t, col) {
        out.push(Real { name: "builder".into(), data: a.to_data(), arr: a });
    }
    // 6: builder history (append_value.., append_array of a slice of the offset/garbage realisation, append..)
    let src = out[3].arr.clone();
    if let Some(a) = builder_history(t, col, &src) {
        out.push(Real { name: "history".into(), data: a.to_data(), arr: a });
    }
    out
}

// ----------------------------------------------------------------------------- physical dump

fn dump_ty(dt: &DataType) -> Option<String> {
    Some(match dt {
        DataType::Null => "n".into(),
        DataType::Boolean => "b".into(),
        DataType::Utf8 => "t".into(),
        DataType::LargeUtf8 => "T".into(),
        DataType::Binary => "y".into(),
        DataType::LargeBinary => "Y".into(),
        DataType::FixedSizeBinary(n) => format!("x{n}"),
        DataType::List(f) => format!("l{}<{}>", if f.is_nullable() { '?' } else { '!' }, dump_ty(f.data_type())?),
        DataType::LargeList(f) => format!("L{}<{}>", if f.is_nullable() { '?' } else { '!' }, dump_ty(f.data_type())?),
        DataType::FixedSizeList(f, n) => format!("f{}{}<{}>", n, if f.is_nullable() { '?' } else { '!' }, dump_ty(f.data_type())?),
        DataType::Struct(fs) => {
            let mut parts = vec![];
            for f in fs.iter() {
                parts.push(format!("{}{}", if f.is_nullable() { '?' } else { '!' }, dump_ty(f.data_type())?));
            }
            format!("s<{}>", parts.join(","))
        }
        DataType::Dictionary(k, v) => {
            let signed = matches!(**k, DataType::Int8 | DataType::Int16 | DataType::Int32 | DataType::Int64);
            format!("d{}{}<{}>", k.primitive_width()?, if signed { 's' } else { 'u' }, dump_ty(v)?)
        }
        DataType::RunEndEncoded(r, v) => format!("r{}<{}>", r.data_type().primitive_width()?, dump_ty(v.data_type())?),
        DataType::Utf8View => "v".into(),
        DataType::BinaryView => "w".into(),
        DataType::ListView(_) | DataType::LargeListView(_) | DataType::Map(..) | DataType::Union(..) => return None,
        d => format!("p{}", d.primitive_width()?),
    })
}

/// dump a real `ArrayData` in the C09 grammar (None: a type outside the Lean `DType`).  The validity
/// bitmap is re-based so that slot `i` is bit `offset + i` (the grammar has one offset per node).
fn dump(d: &ArrayData) -> Option<String> {
    let ty = dump_ty(d.data_type())?;
    let nulls = match d.nulls() {
        None => "-".to_string(),
        Some(nb) => {
            let mut b = vec![0u8; (d.offset() + d.len() + 7) / 8];
            for i in 0..d.len() {
                if nb.is_valid(i) {
                    set_bit(&mut b, d.offset() + i);
                }
            }
            if b.is_empty() { "e".into() } else { hex(&b) }
        }
    };
    let bufs = if d.buffers().is_empty() {
        "-".to_string()
    } else {
        d.buffers().iter().map(|b| if b.is_empty() { "e".to_string() } else { hex(b.as_slice()) }).collect::<Vec<_>>().join("|")
    };
    let mut kids = String::new();
    for c in d.child_data() {
        kids.push_str(&dump(c)?);
    }
    Some(format!("A({};{};{};{};{};{})", ty, d.len(), d.offset(), nulls, bufs, kids))
}

// ------------------------------------------------------------------ dump parser (from c09.rs)

struct Cur<'a> {
    s: &'a [u8],
    i: usize,
}
impl<'a> Cur<'a> {
    fn peek(&self) -> u8 {
        if self.i < self.s.len() { self.s[self.i] } else { 0 }
    }
    fn next(&mut self) -> u8 {
        let c = self.peek();
        self.i += 1;
        c
    }
    fn expect(&mut self, c: u8) {
        let g = self.next();
        assert_eq!(g as char, c as char, "parse at {}", self.i);
    }
    fn num(&mut self) -> u64 {
        let st = self.i;
        while self.peek().is_ascii_digit() {
            self.i += 1;
        }
        std::str::from_utf8(&self.s[st..self.i]).unwrap().parse().expect("number")
    }
    fn until(&mut self, stop: u8) -> &'a str {
        let st = self.i;
        while self.i < self.s.len() && self.s[self.i] != stop {
            self.i += 1;
        }
        std::str::from_utf8(&self.s[st..self.i]).unwrap()
    }
}

fn parse_dt(c: &mut Cur) -> DataType {
    let nbf = |c: &mut Cur| c.next() == b'?';
    match c.next() {
        b'n' => DataType::Null,
        b'b' => DataType::Boolean,
        b'p' => match c.num() {
            1 => DataType::Int8,
            2 => DataType::Int16,
            4 => DataType::Int32,
            8 => DataType::Int64,
            16 => DataType::Decimal128(38, 0),
            32 => DataType::Decimal256(76, 0),
            w => panic!("no primitive of width {w}"),
        },
        b't' => DataType::Utf8,
        b'T' => DataType::LargeUtf8,
        b'y' => DataType::Binary,
        b'Y' => DataType::LargeBinary,
        b'x' => DataType::FixedSizeBinary(c.num() as i32),
        b'v' => DataType::Utf8View,
        b'w' => DataType::BinaryView,
        k @ (b'l' | b'L') => {
            let n = nbf(c);
            c.expect(b'<');
            let t = parse_dt(c);
            c.expect(b'>');
            let f = Arc::new(Field::new("item", t, n));
            if k == b'L' { DataType::LargeList(f) } else { DataType::List(f) }
        }
        b'f' => {
            let k = c.num() as i32;
            let n = nbf(c);
            c.expect(b'<');
            let t = parse_dt(c);
            c.expect(b'>');
            DataType::FixedSizeList(Arc::new(Field::new("item", t, n)), k)
        }
        b's' => {
            c.expect(b'<');
            let mut fs = vec![];
            if c.peek() == b'>' {
                c.next();
                return DataType::Struct(Fields::empty());
            }
            loop {
                let n = nbf(c);
                let t = parse_dt(c);
                fs.push(Field::new(format!("f{}", fs.len()), t, n));
                if c.next() == b'>' {
                    break;
                }
            }
            DataType::Struct(Fields::from(fs))
        }
        b'd' => {
            let kw = c.num();
            let s = c.next() == b's';
            c.expect(b'<');
            let t = parse_dt(c);
            c.expect(b'>');
            let k = match (kw, s) {
                (1, true) => DataType::Int8,
                (2, true) => DataType::Int16,
                (4, true) => DataType::Int32,
                (8, true) => DataType::Int64,
                (1, false) => DataType::UInt8,
                (2, false) => DataType::UInt16,
                (4, false) => DataType::UInt32,
                _ => DataType::UInt64,
            };
            DataType::Dictionary(Box::new(k), Box::new(t))
        }
        b'r' => {
            let rw = c.num();
            c.expect(b'<');
            let t = parse_dt(c);
            c.expect(b'>');
            let r = match rw {
                2 => DataType::Int16,
                4 => DataType::Int32,
                _ => DataType::Int64,
            };
            DataType::RunEndEncoded(Arc::new(Field::new("run_ends", r, false)), Arc::new(Field::new("values", t, true)))
        }
        x => panic!("bad type char {}", x as char),
    }
}

fn unhex_e(s: &str) -> Vec<u8> {
    if s == "e" { vec![] } else { unhex(s) }
}

/// parse a dump and build it with `ArrayData::try_new`, children first
fn parse_data(c: &mut Cur) -> Result<ArrayData, ArrowError> {
    c.expect(b'A');
    c.expect(b'(');
    let dt = parse_dt(c);
    c.expect(b';');
    let len = c.num() as usize;
    c.expect(b';');
    let offset = c.num() as usize;
    c.expect(b';');
    let ns = c.until(b';');
    c.expect(b';');
    let bs = c.until(b';');
    c.expect(b';');
    let nulls = if ns == "-" { None } else { Some(abuf(&unhex_e(ns.split(':').next().unwrap()))) };
    let bufs: Vec<Buffer> = if bs == "-" { vec![] } else { bs.split('|').map(|b| abuf(&unhex_e(b))).collect() };
    let mut kids = vec![];
    while c.peek() == b'A' {
        kids.push(parse_data(c)?);
    }
    c.expect(b')');
    ArrayData::try_new(dt, len, nulls, offset, bufs, kids)
}
fn parse_data_str(s: &str) -> Result<ArrayData, ArrowError> {
    let mut c = Cur { s: s.as_bytes(), i: 0 };
    let d = parse_data(&mut c)?;
    assert_eq!(c.i, s.len());
    Ok(d)
}

// --------------------------------------------------------------------------------- kernels

/// canonical outcome of a kernel call
fn outcome(r: Result<ArrayRef, ArrowError>) -> String {
    match r {
        Ok(a) => format!("{:?}|{}", strip_dict(a.data_type()), show_col(&logical(a.as_ref()))),
        Err(e) => {
            if std::env::var("C02_DEBUG").is_ok() {
                eprintln!("ERR: {e}");
            }
            "ERR".into()
        }
    }
}
/// dictionary / run-end arrays are compared by the values they denote
fn strip_dict(dt: &DataType) -> DataType {
    match dt {
        DataType::Dictionary(_, v) => strip_dict(v),
        DataType::RunEndEncoded(_, v) => strip_dict(v.data_type()),
        d => d.clone(),
    }
}
fn guard_out<F: FnOnce() -> Result<ArrayRef, ArrowError>>(f: F) -> String {
    guarded(|| outcome(f()))
}

fn is_numeric(t: &LT) -> bool {
    matches!(t, LT::Prim(d) if !matches!(d, DataType::Decimal128(..)))
}
fn is_stringy(t: &LT) -> bool {
    matches!(t, LT::Utf8(_) | LT::Utf8View)
}

fn cast_targets(t: &LT) -> Vec<DataType> {
    match t {
        LT::Bool => vec![DataType::Int8, DataType::Utf8],
        LT::Prim(DataType::Float32) | LT::Prim(DataType::Float64) => vec![DataType::Int32, DataType::Utf8, DataType::Float32],
        LT::Prim(DataType::Decimal128(..)) => vec![DataType::Float64, DataType::Decimal128(30, 1), DataType::Utf8, DataType::Int64],
        LT::Prim(_) => vec![DataType::Int64, DataType::Int8, DataType::Float64, DataType::Utf8, DataType::UInt16],
        LT::Utf8(_) | LT::Utf8View => vec![DataType::LargeUtf8, DataType::Binary, DataType::Utf8View, DataType::Int32, DataType::Dictionary(Box::new(DataType::Int16), Box::new(DataType::Utf8))],
        LT::Binary(_) => vec![DataType::LargeBinary, DataType::BinaryView],
        LT::BinView => vec![DataType::Binary, DataType::LargeBinary],
        LT::Null => vec![DataType::Int32, DataType::Utf8],
        LT::Fsb(_) => vec![DataType::Binary],
        LT::List(i) | LT::ListView(i) => vec![DataType::LargeList(Arc::new(Field::new("item", lt_dt(i), true)))],
        LT::LargeList(i) => vec![DataType::List(Arc::new(Field::new("item", lt_dt(i), true)))],
        LT::Fsl(_, i) => vec![DataType::List(Arc::new(Field::new("item", lt_dt(i), true)))],
        LT::Dict(_, _) => vec![DataType::Utf8, DataType::Dictionary(Box::new(DataType::UInt16), Box::new(DataType::Utf8)), DataType::Utf8View],
        LT::Ree(_) => vec![DataType::Int32, DataType::Int64],
        LT::Struct(_) => vec![],
    }
}

/// row-wise unary kernels (name, function) applicable to type `t`
fn rowwise(t: &LT) -> Vec<(String, Box<dyn Fn(&ArrayRef) -> Result<ArrayRef, ArrowError>>)> {
    let mut ks: Vec<(String, Box<dyn Fn(&ArrayRef) -> Result<ArrayRef, ArrowError>>)> = vec![];
    if is_numeric(t) {
        ks.push(("neg_wrapping".into(), Box::new(|a| arrow_arith::numeric::neg_wrapping(a.as_ref()))));
        ks.push(("neg".into(), Box::new(|a| arrow_arith::numeric::neg(a.as_ref()))));
        ks.push(("add_self".into(), Box::new(|a| arrow_arith::numeric::add(a, a))));
        ks.push(("add_wrapping_self".into(), Box::new(|a| arrow_arith::numeric::add_wrapping(a, a))));
        ks.push(("eq_self".into(), Box::new(|a| arrow_ord::cmp::eq(a, a).map(|x| Arc::new(x) as ArrayRef))));
    }
    // arity.rs: user closures must never see the payload under a null (`ones` puts MAX there)
    macro_rules! arity {
        ($ty:ty) => {{
            ks.push(("arity_unary".into(), Box::new(|a| Ok(Arc::new(arrow_arith::arity::unary::<$ty, _, $ty>(a.as_primitive::<$ty>(), |x| x.wrapping_mul(3))) as ArrayRef))));
            ks.push(("arity_try_unary".into(), Box::new(|a| {
                arrow_arith::arity::try_unary::<$ty, _, $ty>(a.as_primitive::<$ty>(), |x| x.checked_add(1).ok_or_else(|| ArrowError::ComputeError("overflow".into()))).map(|x| Arc::new(x) as ArrayRef)
            })));
            ks.push(("bitwise_not".into(), Box::new(|a| arrow_arith::bitwise::bitwise_not(a.as_primitive::<$ty>()).map(|x| Arc::new(x) as ArrayRef))));
            ks.push(("bitwise_shl1".into(), Box::new(|a| arrow_arith::bitwise::bitwise_shift_left_scalar(a.as_primitive::<$ty>(), 1).map(|x| Arc::new(x) as ArrayRef))));
            ks.push(("bitwise_and5".into(), Box::new(|a| arrow_arith::bitwise::bitwise_and_scalar(a.as_primitive::<$ty>(), 5).map(|x| Arc::new(x) as ArrayRef))));
            ks.push(("bitwise_xor_self".into(), Box::new(|a| arrow_arith::bitwise::bitwise_xor(a.as_primitive::<$ty>(), a.as_primitive::<$ty>()).map(|x| Arc::new(x) as ArrayRef))));
        }};
    }
    match t {
        LT::Prim(DataType::Int8) => arity!(Int8Type),
        LT::Prim(DataType::Int16) => arity!(Int16Type),
        LT::Prim(DataType::Int32) => arity!(Int32Type),
        LT::Prim(DataType::Int64) => arity!(Int64Type),
        LT::Prim(DataType::UInt8) => arity!(UInt8Type),
        LT::Prim(DataType::UInt32) => arity!(UInt32Type),
        LT::Prim(DataType::UInt64) => arity!(UInt64Type),
        _ => {}
    }
    if matches!(t, LT::Prim(DataType::Date32 | DataType::Timestamp(..) | DataType::Time64(_))) {
        use arrow_arith::temporal::{DatePart, date_part};
        for (nm, part) in [("year", DatePart::Year), ("month", DatePart::Month), ("hour", DatePart::Hour), ("nanosecond", DatePart::Nanosecond), ("dow", DatePart::DayOfWeekSunday0)] {
            ks.push((format!("date_part_{nm}"), Box::new(move |a| date_part(a.as_ref(), part))));
        }
    }
    if matches!(t, LT::Utf8(_)) {
        ks.push(("substring_by_char".into(), Box::new(|a| match a.data_type() {
            DataType::Utf8 => arrow_string::substring::substring_by_char(a.as_string::<i32>(), 1, Some(2)).map(|x| Arc::new(x) as ArrayRef),
            _ => arrow_string::substring::substring_by_char(a.as_string::<i64>(), 1, Some(2)).map(|x| Arc::new(x) as ArrayRef),
        })));
        ks.push(("regexp_is_match".into(), Box::new(|a| match a.data_type() {
            DataType::Utf8 => arrow_string::regexp::regexp_is_match_scalar(a.as_string::<i32>(), "^a.*s$", None).map(|x| Arc::new(x) as ArrayRef),
            _ => arrow_string::regexp::regexp_is_match_scalar(a.as_string::<i64>(), "^a.*s$", None).map(|x| Arc::new(x) as ArrayRef),
        })));
    }
    if is_stringy(t) || matches!(t, LT::Binary(_) | LT::BinView) {
        ks.push(("bit_length".into(), Box::new(|a| arrow_string::length::bit_length(a.as_ref()))));
        ks.push(("concat_elements_self".into(), Box::new(|a| arrow_string::concat_elements::concat_elements_dyn(a.as_ref(), a.as_ref()))));
    }
    if is_stringy(t) || matches!(t, LT::Dict(..)) {
        let pat = || Scalar::new(StringArray::from(vec!["%A%"]));
        ks.push(("ilike".into(), Box::new(move |a| arrow_string::like::ilike(a, &pat()).map(|x| Arc::new(x) as ArrayRef))));
        ks.push(("nlike".into(), Box::new(move |a| arrow_string::like::nlike(a, &pat()).map(|x| Arc::new(x) as ArrayRef))));
        ks.push(("ends_with".into(), Box::new(|a| arrow_string::like::ends_with(a, &Scalar::new(StringArray::from(vec!["s"]))).map(|x| Arc::new(x) as ArrayRef))));
        ks.push(("contains".into(), Box::new(|a| arrow_string::like::contains(a, &Scalar::new(StringArray::from(vec!["long"]))).map(|x| Arc::new(x) as ArrayRef))));
    }
    if matches!(t, LT::Prim(DataType::Decimal128(..))) {
        ks.push(("add_self".into(), Box::new(|a| arrow_arith::numeric::add(a, a))));
        ks.push(("neg".into(), Box::new(|a| arrow_arith::numeric::neg(a.as_ref()))));
    }
    if is_stringy(t) || matches!(t, LT::Binary(_) | LT::Dict(..)) {
        ks.push(("length".into(), Box::new(|a| arrow_string::length::length(a.as_ref()))));
    }
    if is_stringy(t) || matches!(t, LT::Dict(..)) {
        ks.push(("like".into(), Box::new(|a| arrow_string::like::like(a, &Scalar::new(StringArray::from(vec!["%a%"]))).map(|x| Arc::new(x) as ArrayRef))));
        ks.push(("starts_with".into(), Box::new(|a| arrow_string::like::starts_with(a, &Scalar::new(StringArray::from(vec!["a"]))).map(|x| Arc::new(x) as ArrayRef))));
    }
    if matches!(t, LT::Utf8(_) | LT::Binary(_)) {
        ks.push(("substring".into(), Box::new(|a| arrow_string::substring::substring(a.as_ref(), 1, Some(2)))));
        ks.push(("substring_neg".into(), Box::new(|a| arrow_string::substring::substring(a.as_ref(), -1, None))));
    }
    for dt in cast_targets(t) {
        for safe in [true, false] {
            let dt2 = dt.clone();
            ks.push((
                format!("cast:{:?}:{}", dt, if safe { "safe" } else { "strict" }),
                Box::new(move |a| cast_with_options(a.as_ref(), &dt2, &CastOptions { safe, format_options: FormatOptions::default() })),
            ));
        }
    }
    ks
}

/// kernels that are functions of the whole column (not row-wise): compared across realisations only
fn whole(t: &LT, rng_seed: u64, n: usize) -> Vec<(String, Box<dyn Fn(&ArrayRef) -> Result<ArrayRef, ArrowError>>)> {
    let mut ks: Vec<(String, Box<dyn Fn(&ArrayRef) -> Result<ArrayRef, ArrowError>>)> = vec![];
    let mut rng = Rng::new(rng_seed ^ 0x5e1);
    let mask: Vec<bool> = (0..n).map(|_| rng.bool()).collect();
    let idx: Vec<Option<u32>> = (0..n + 2).map(|_| if n == 0 || rng.chance(1, 6) { None } else { Some(rng.usize(n) as u32) }).collect();
    let il: Vec<(usize, usize)> = (0..n).map(|_| (rng.usize(2), rng.usize(n.max(1)))).collect();
    let m2 = mask.clone();
    ks.push(("filter".into(), Box::new(move |a| arrow_select::filter::filter(a.as_ref(), &BooleanArray::from(m2.clone())))));
    ks.push(("take".into(), Box::new(move |a| arrow_select::take::take(a.as_ref(), &UInt32Array::from(idx.clone()), None))));
    ks.push(("concat".into(), Box::new(|a| arrow_select::concat::concat(&[a.as_ref(), a.as_ref()]))));
    ks.push(("interleave".into(), Box::new(move |a| arrow_select::interleave::interleave(&[a.as_ref(), a.as_ref()], &il))));
    if !matches!(t, LT::Struct(_) | LT::ListView(_)) {
        ks.push((
            "sort".into(),
            Box::new(|a| {
                let i = arrow_ord::sort::sort_to_indices(a.as_ref(), None, None)?;
                arrow_select::take::take(a.as_ref(), &i, None)
            }),
        ));
    }
    ks.push(("concat_batches".into(), Box::new(|a| {
        let rb = RecordBatch::try_from_iter([("c", a.clone())])?;
        Ok(arrow_select::concat::concat_batches(&rb.schema(), &[rb.clone(), rb.slice(0, rb.num_rows() / 2)])?.column(0).clone())
    })));
    ks.push(("take_record_batch".into(), Box::new(|a| {
        let rb = RecordBatch::try_from_iter([("c", a.clone())])?;
        let i = UInt32Array::from((0..a.len() as u32).rev().collect::<Vec<_>>());
        Ok(arrow_select::take::take_record_batch(&rb, &i)?.column(0).clone())
    })));
    ks.push(("interleave_record_batch".into(), Box::new(|a| {
        let rb = RecordBatch::try_from_iter([("c", a.clone())])?;
        let idx: Vec<(usize, usize)> = (0..a.len()).map(|i| (i % 2, a.len() - 1 - i)).collect();
        Ok(arrow_select::interleave::interleave_record_batch(&[&rb, &rb], &idx)?.column(0).clone())
    })));
    ks.push(("cast_default".into(), Box::new(|a| arrow_cast::cast::cast(a.as_ref(), &DataType::Utf8))));
    ks.push(("value_to_string".into(), Box::new(|a| {
        let v: Result<Vec<String>, ArrowError> = (0..a.len()).map(|i| arrow_cast::display::array_value_to_string(a.as_ref(), i)).collect();
        Ok(Arc::new(StringArray::from(v?)) as ArrayRef)
    })));
    ks.push(("shift1".into(), Box::new(|a| arrow_select::window::shift(a.as_ref(), 1))));
    ks.push(("shift-2".into(), Box::new(|a| arrow_select::window::shift(a.as_ref(), -2))));
    ks.push(("filter_optimized".into(), Box::new({
        let m3 = mask.clone();
        move |a| {
            let mut fb = arrow_select::filter::FilterBuilder::new(&BooleanArray::from(m3.clone()));
            fb = fb.optimize();
            fb.build().filter(a.as_ref())
        }
    })));
    ks.push(("take_arrays".into(), Box::new(|a| {
        let i = UInt32Array::from((0..a.len() as u32).rev().collect::<Vec<_>>());
        arrow_select::take::take_arrays(&[a.clone()], &i, None).map(|mut v| v.remove(0))
    })));
    if !matches!(t, LT::Struct(_) | LT::ListView(_)) {
        ks.push(("sort_kernel".into(), Box::new(|a| arrow_ord::sort::sort(a.as_ref(), Some(arrow_schema::SortOptions { descending: true, nulls_first: false })))));
        ks.push(("sort_limit3".into(), Box::new(|a| arrow_ord::sort::sort_limit(a.as_ref(), None, Some(3)))));
        ks.push(("lexsort".into(), Box::new(|a| {
            let cols = vec![
                arrow_ord::sort::SortColumn { values: a.clone(), options: None },
                arrow_ord::sort::SortColumn { values: a.clone(), options: Some(arrow_schema::SortOptions { descending: true, nulls_first: true }) },
            ];
            let i = arrow_ord::sort::lexsort_to_indices(&cols, None)?;
            arrow_select::take::take(a.as_ref(), &i, None)
        })));
        ks.push(("rank".into(), Box::new(|a| Ok(Arc::new(UInt32Array::from(arrow_ord::rank::rank(a.as_ref(), None)?)) as ArrayRef))));
        ks.push(("partition".into(), Box::new(|a| {
            let p = arrow_ord::partition::partition(&[a.clone()])?;
            Ok(Arc::new(UInt64Array::from(p.ranges().iter().flat_map(|r| [r.start as u64, r.end as u64]).collect::<Vec<_>>())) as ArrayRef)
        })));
    }
    if matches!(t, LT::Dict(..)) {
        ks.push(("gc_dictionary".into(), Box::new(|a| arrow_select::dictionary::garbage_collect_any_dictionary(a.as_any_dictionary()))));
    }
    match t {
        LT::Utf8(false) => {
            ks.push(("min_string".into(), Box::new(|a| Ok(Arc::new(StringArray::from(vec![arrow_arith::aggregate::min_string(a.as_string::<i32>()), arrow_arith::aggregate::max_string(a.as_string::<i32>())])) as ArrayRef))));
        }
        LT::Utf8(true) => {
            ks.push(("min_string".into(), Box::new(|a| Ok(Arc::new(StringArray::from(vec![arrow_arith::aggregate::min_string(a.as_string::<i64>()), arrow_arith::aggregate::max_string(a.as_string::<i64>())])) as ArrayRef))));
        }
        LT::Utf8View => {
            ks.push(("min_string_view".into(), Box::new(|a| Ok(Arc::new(StringArray::from(vec![arrow_arith::aggregate::min_string_view(a.as_string_view()), arrow_arith::aggregate::max_string_view(a.as_string_view())])) as ArrayRef))));
        }
        LT::Binary(false) => {
            ks.push(("min_binary".into(), Box::new(|a| Ok(Arc::new(BinaryArray::from(vec![arrow_arith::aggregate::min_binary(a.as_binary::<i32>()), arrow_arith::aggregate::max_binary(a.as_binary::<i32>())])) as ArrayRef))));
        }
        LT::BinView => {
            ks.push(("min_binary_view".into(), Box::new(|a| Ok(Arc::new(BinaryArray::from(vec![arrow_arith::aggregate::min_binary_view(a.as_binary_view()), arrow_arith::aggregate::max_binary_view(a.as_binary_view())])) as ArrayRef))));
        }
        LT::Fsb(_) => {
            ks.push(("min_fsb".into(), Box::new(|a| Ok(Arc::new(BinaryArray::from(vec![arrow_arith::aggregate::min_fixed_size_binary(a.as_fixed_size_binary()), arrow_arith::aggregate::max_fixed_size_binary(a.as_fixed_size_binary())])) as ArrayRef))));
        }
        _ => {}
    }
    macro_rules! agg {
        ($ty:ty, $arr:ty) => {{
            ks.push(("sum".into(), Box::new(|a| Ok(Arc::new(<$arr>::from(vec![arrow_arith::aggregate::sum(a.as_primitive::<$ty>())])) as ArrayRef))));
            ks.push(("min".into(), Box::new(|a| Ok(Arc::new(<$arr>::from(vec![arrow_arith::aggregate::min(a.as_primitive::<$ty>())])) as ArrayRef))));
            ks.push(("max".into(), Box::new(|a| Ok(Arc::new(<$arr>::from(vec![arrow_arith::aggregate::max(a.as_primitive::<$ty>())])) as ArrayRef))));
            ks.push(("sum_checked".into(), Box::new(|a| Ok(Arc::new(<$arr>::from(vec![arrow_arith::aggregate::sum_checked(a.as_primitive::<$ty>())?])) as ArrayRef))));
            ks.push(("product".into(), Box::new(|a| Ok(Arc::new(<$arr>::from(vec![arrow_arith::aggregate::product(a.as_primitive::<$ty>())])) as ArrayRef))));
            ks.push(("product_checked".into(), Box::new(|a| Ok(Arc::new(<$arr>::from(vec![arrow_arith::aggregate::product_checked(a.as_primitive::<$ty>())?])) as ArrayRef))));
            ks.push(("min_array".into(), Box::new(|a| Ok(Arc::new(<$arr>::from(vec![arrow_arith::aggregate::min_array::<$ty, _>(a.as_primitive::<$ty>()), arrow_arith::aggregate::max_array::<$ty, _>(a.as_primitive::<$ty>()), arrow_arith::aggregate::sum_array::<$ty, _>(a.as_primitive::<$ty>())])) as ArrayRef))));
        }};
    }
    match t {
        LT::Prim(DataType::Int8) => agg!(Int8Type, Int8Array),
        LT::Prim(DataType::Int32) => agg!(Int32Type, Int32Array),
        LT::Prim(DataType::Int64) => agg!(Int64Type, Int64Array),
        LT::Prim(DataType::UInt64) => agg!(UInt64Type, UInt64Array),
        LT::Prim(DataType::Float32) => agg!(Float32Type, Float32Array),
        LT::Prim(DataType::Float64) => agg!(Float64Type, Float64Array),
        _ => {}
    }
    if matches!(t, LT::Bool) {
        ks.push(("min_boolean".into(), Box::new(|a| Ok(Arc::new(BooleanArray::from(vec![arrow_arith::aggregate::min_boolean(a.as_boolean())])) as ArrayRef))));
        ks.push(("max_boolean".into(), Box::new(|a| Ok(Arc::new(BooleanArray::from(vec![arrow_arith::aggregate::max_boolean(a.as_boolean())])) as ArrayRef))));
        ks.push(("bool_and".into(), Box::new(|a| Ok(Arc::new(BooleanArray::from(vec![arrow_arith::aggregate::bool_and(a.as_boolean())])) as ArrayRef))));
        ks.push(("bool_or".into(), Box::new(|a| Ok(Arc::new(BooleanArray::from(vec![arrow_arith::aggregate::bool_or(a.as_boolean())])) as ArrayRef))));
        ks.push(("not".into(), Box::new(|a| arrow_arith::boolean::not(a.as_boolean()).map(|x| Arc::new(x) as ArrayRef))));
        ks.push(("true_count".into(), Box::new(|a| Ok(Arc::new(UInt64Array::from(vec![a.as_boolean().true_count() as u64, a.as_boolean().false_count() as u64])) as ArrayRef))));
    }
    ks.push(("is_null".into(), Box::new(|a| arrow_arith::boolean::is_null(a.as_ref()).map(|x| Arc::new(x) as ArrayRef))));
    ks.push(("is_not_null".into(), Box::new(|a| arrow_arith::boolean::is_not_null(a.as_ref()).map(|x| Arc::new(x) as ArrayRef))));
    ks
}

fn row_bytes(a: &ArrayRef) -> Result<Vec<Vec<u8>>, ArrowError> {
    use arrow_row::{RowConverter, SortField};
    let conv = RowConverter::new(vec![SortField::new(a.data_type().clone())])?;
    let rows = conv.convert_columns(&[a.clone()])?;
    let back = conv.convert_rows(rows.iter())?;
    let lb = logical(back[0].as_ref());
    let la = logical(a.as_ref());
    if lb != la {
        fail(format!("row-roundtrip {} != {}", show_col(&lb), show_col(&la)));
    }
    Ok(rows.iter().map(|r| r.as_ref().to_vec()).collect())
}

// ------------------------------------------------------------------------------- the col case

fn formatted(a: &dyn Array) -> Result<Vec<String>, ArrowError> {
    let opts = FormatOptions::default().with_null("<NULL>");
    let f = ArrayFormatter::try_new(a, &opts)?;
    (0..a.len()).map(|i| f.value(i).try_to_string()).collect()
}

/// iterator read-back for the types that have one
fn iter_readback(a: &dyn Array) -> Option<Vec<V>> {
    Some(match a.data_type() {
        DataType::Boolean => a.as_boolean().iter().map(|x| x.map(V::B).unwrap_or(V::N)).collect(),
        DataType::Int32 => a.as_primitive::<Int32Type>().iter().map(|x| x.map(|v| V::X(v.to_le_bytes().to_vec())).unwrap_or(V::N)).collect(),
        DataType::Int64 => a.as_primitive::<Int64Type>().iter().map(|x| x.map(|v| V::X(v.to_le_bytes().to_vec())).unwrap_or(V::N)).collect(),
        DataType::UInt8 => a.as_primitive::<UInt8Type>().iter().map(|x| x.map(|v| V::X(v.to_le_bytes().to_vec())).unwrap_or(V::N)).collect(),
        DataType::Float32 => a.as_primitive::<Float32Type>().iter().map(|x| x.map(|v| V::X(v.to_le_bytes().to_vec())).unwrap_or(V::N)).collect(),
        DataType::Float64 => a.as_primitive::<Float64Type>().iter().map(|x| x.map(|v| V::X(v.to_le_bytes().to_vec())).unwrap_or(V::N)).collect(),
        DataType::Decimal128(..) => a.as_primitive::<Decimal128Type>().iter().map(|x| x.map(|v| V::X(v.to_le_bytes().to_vec())).unwrap_or(V::N)).collect(),
        DataType::Utf8 => a.as_string::<i32>().iter().map(|x| x.map(|v| V::X(v.as_bytes().to_vec())).unwrap_or(V::N)).collect(),
        DataType::LargeUtf8 => a.as_string::<i64>().iter().map(|x| x.map(|v| V::X(v.as_bytes().to_vec())).unwrap_or(V::N)).collect(),
        DataType::Utf8View => a.as_string_view().iter().map(|x| x.map(|v| V::X(v.as_bytes().to_vec())).unwrap_or(V::N)).collect(),
        DataType::Binary => a.as_binary::<i32>().iter().map(|x| x.map(|v| V::X(v.to_vec())).unwrap_or(V::N)).collect(),
        DataType::FixedSizeBinary(_) => a.as_fixed_size_binary().iter().map(|x| x.map(|v| V::X(v.to_vec())).unwrap_or(V::N)).collect(),
        DataType::List(_) => a.as_list::<i32>().iter().map(|x| x.map(|v| V::L(logical(v.as_ref()))).unwrap_or(V::N)).collect(),
        DataType::FixedSizeList(..) => a.as_fixed_size_list().iter().map(|x| x.map(|v| V::L(logical(v.as_ref()))).unwrap_or(V::N)).collect(),
        _ => return None,
    })
}

/// `iter().rev()` / `nth` read-back for a few types
fn rev_readback(a: &dyn Array) -> Option<Vec<V>> {
    Some(match a.data_type() {
        DataType::Boolean => a.as_boolean().iter().rev().map(|x| x.map(V::B).unwrap_or(V::N)).collect(),
        DataType::Int32 => a.as_primitive::<Int32Type>().iter().rev().map(|x| x.map(|v| V::X(v.to_le_bytes().to_vec())).unwrap_or(V::N)).collect(),
        DataType::Float64 => a.as_primitive::<Float64Type>().iter().rev().map(|x| x.map(|v| V::X(v.to_le_bytes().to_vec())).unwrap_or(V::N)).collect(),
        DataType::Utf8 => a.as_string::<i32>().iter().rev().map(|x| x.map(|v| V::X(v.as_bytes().to_vec())).unwrap_or(V::N)).collect(),
        DataType::Utf8View => {
            // nth from the front, one at a time
            let arr = a.as_string_view();
            (0..arr.len()).rev().map(|i| arr.iter().nth(i).unwrap().map(|v| V::X(v.as_bytes().to_vec())).unwrap_or(V::N)).collect()
        }
        DataType::FixedSizeBinary(_) => a.as_fixed_size_binary().iter().rev().map(|x| x.map(|v| V::X(v.to_vec())).unwrap_or(V::N)).collect(),
        DataType::List(_) => a.as_list::<i32>().iter().rev().map(|x| x.map(|v| V::L(logical(v.as_ref()))).unwrap_or(V::N)).collect(),
        _ => return None,
    })
}

/// change one row (value or nullness) -> a different column of the same type and length
fn perturb(rng: &mut Rng, t: &LT, col: &[V]) -> Option<Vec<V>> {
    if col.is_empty() {
        return None;
    }
    let mut c = col.to_vec();
    let i = rng.usize(c.len());
    for _ in 0..20 {
        let v = gen_val(rng, t, !matches!(t, LT::Dict(..)));
        if v != c[i] {
            c[i] = v;
            return Some(c);
        }
    }
    None
}

fn run_col(ts: &str, n: usize, seed: u64) -> String {
    NULLVAL.with(|c| c.set(is_dnv(ts)));
    let r = std::panic::catch_unwind(std::panic::AssertUnwindSafe(|| run_col_inner(ts, n, seed)));
    NULLVAL.with(|c| c.set(false));
    match r {
        Ok(s) => s,
        Err(e) => std::panic::resume_unwind(e),
    }
}
fn run_col_inner(ts: &str, n: usize, seed: u64) -> String {
    let t = parse_lt(ts);
    let mut rng = Rng::new(seed.wrapping_mul(0x9e3779b97f4a7c15) ^ 0xC02);
    let col = gen_col(&mut rng, &t, n);
    let reals = realisations(&mut rng, &t, &col);
    let want = show_col(&col);
    tag(&format!("reals:{}", reals.len()));
    if col.iter().any(|v| *v == V::N) {
        tag("has-null");
    }
    // (i) read-back
    let fmt0 = guarded(|| formatted(reals[0].arr.as_ref()).map(|v| v.join("\u{1}")).unwrap_or("ERR".into()));
    for r in &reals {
        let got = guarded(|| show_col(&logical(r.arr.as_ref())));
        if got != want {
            fail(format!("readback[{}] got {} want {}", r.name, got, want));
        }
        if let Some(it) = guarded_opt(|| iter_readback(r.arr.as_ref())) {
            if show_col(&it) != want {
                fail(format!("iter-readback[{}] got {} want {}", r.name, show_col(&it), want));
            }
        }
        let f = guarded(|| formatted(r.arr.as_ref()).map(|v| v.join("\u{1}")).unwrap_or("ERR".into()));
        if f != fmt0 {
            fail(format!("formatter[{}] differs from [{}]", r.name, reals[0].name));
        }
        if f != "ERR" && f != "PANIC" {
            let rows: Vec<&str> = if n == 0 { vec![] } else { f.split('\u{1}').collect() };
            for (i, s) in rows.iter().enumerate() {
                if (*s == "<NULL>") != (col[i] == V::N) && !matches!(t, LT::Ree(_) | LT::Dict(..)) {
                    fail(format!("formatter[{}] row {} null marker", r.name, i));
                }
            }
        }
        // logical_nulls / null_count agree with the column
        let ln = guarded(|| format!("{}", r.arr.logical_null_count()));
        let wn = col.iter().filter(|v| **v == V::N).count();
        if ln != format!("{wn}") {
            fail(format!("logical_null_count[{}] got {} want {}", r.name, ln, wn));
        }
    }
    // constructors of canonical arrays: new_null_array / new_empty_array (+ ArrayData::new_null / new_empty)
    {
        let dt = lt_dt(&t);
        let nn = guarded(|| show_col(&logical(new_null_array(&dt, n).as_ref())));
        let want_nulls = show_col(&vec![V::N; n]);
        if nn != want_nulls && !matches!(t, LT::Ree(_) | LT::Dict(..)) {
            fail(format!("new_null_array got {} want {}", nn, want_nulls));
        }
        let nd = guarded(|| show_col(&logical(make_array(ArrayData::new_null(&dt, n)).as_ref())));
        if nd != nn {
            fail(format!("ArrayData::new_null got {} but new_null_array {}", nd, nn));
        }
        let ne = guarded(|| format!("{}", new_empty_array(&dt).len() + make_array(ArrayData::new_empty(&dt)).len()));
        if ne != "0" {
            fail(format!("new_empty_array len {}", ne));
        }
        if col.iter().all(|v| *v == V::N) && !matches!(t, LT::Ree(_) | LT::Dict(..)) {
            tag("all-null-column");
            let e = guarded(|| format!("{}", new_null_array(&dt, n).as_ref() == reals[0].arr.as_ref()));
            if e != "true" {
                fail(format!("new_null_array == all-null column: {}", e));
            }
        }
    }
    // reverse / random-access iteration
    for r in &reals {
        if let Some(mut it) = guarded_opt(|| rev_readback(r.arr.as_ref())) {
            it.reverse();
            if show_col(&it) != want {
                fail(format!("rev-iter-readback[{}] got {} want {}", r.name, show_col(&it), want));
            }
        }
    }
    // (ii) == on all pairs; != against a different column
    for a in &reals {
        for b in &reals {
            let e1 = guarded(|| format!("{}", a.arr.as_ref() == b.arr.as_ref()));
            let e2 = guarded(|| format!("{}", a.data == b.data));
            if e1 != "true" || e2 != "true" {
                fail(format!("eq[{},{}] array:{} data:{} want true", a.name, b.name, e1, e2));
            }
        }
    }
    if let Some(other) = perturb(&mut rng, &t, &col) {
        let others = realisations(&mut rng, &t, &other);
        for a in &reals {
            for b in &others {
                let e1 = guarded(|| format!("{}", a.arr.as_ref() == b.arr.as_ref()));
                let e2 = guarded(|| format!("{}", b.data == a.data));
                if e1 != "false" || e2 != "false" {
                    fail(format!("neq[{},{}] array:{} data:{} want false; col {} vs {}", a.name, b.name, e1, e2, want, show_col(&other)));
                }
            }
        }
    }
    // (iii) kernel battery on every realisation
    let mut nk = 0;
    let ks: Vec<_> = rowwise(&t).into_iter().chain(whole(&t, seed, n)).collect();
    for (name, k) in &ks {
        let o0 = guard_out(|| k(&reals[0].arr));
        tag(&format!("k:{}:{}", name.split(':').next().unwrap(), if o0 == "ERR" { "err" } else if o0 == "PANIC" { "panic" } else { "ok" }));
        for r in &reals[1..] {
            let o = guard_out(|| k(&r.arr));
            nk += 1;
            tag(&format!("kc:{}:{}", name.split(':').next().unwrap(), class_of(&r.name)));
            if o != o0 {
                fail(format!("kernel {}[{}]={} but [{}]={}", name, r.name, o, reals[0].name, o0));
            }
        }
    }
    // row format: byte-identical rows for every realisation, and invertible
    if !matches!(t, LT::ListView(_)) {
        let r0 = guarded(|| row_bytes(&reals[0].arr).map(|r| format!("{r:?}")).unwrap_or("ERR".into()));
        tag(&format!("k:row:{}", if r0 == "ERR" { "err" } else if r0 == "PANIC" { "panic" } else { "ok" }));
        for r in &reals[1..] {
            let o = guarded(|| row_bytes(&r.arr).map(|r| format!("{r:?}")).unwrap_or("ERR".into()));
            if o != r0 {
                fail(format!("row-format[{}] differs from [{}]", r.name, reals[0].name));
            }
        }
    }
    // binary kernels: BOTH operands vary independently over the realisations of two columns
    {
        use arrow_arith::{boolean as ab, numeric as an};
        use arrow_ord::cmp;
        type K2 = Box<dyn Fn(&ArrayRef, &ArrayRef) -> Result<ArrayRef, ArrowError>>;
        let col2 = { let mut c = col.clone(); c.rotate_left(if n > 0 { 1 } else { 0 }); c };
        let reals2 = realisations(&mut rng, &t, &col2);
        let b = |x: Result<BooleanArray, ArrowError>| x.map(|x| Arc::new(x) as ArrayRef);
        let mut bin: Vec<(&str, K2)> = vec![];
        let comparable = is_numeric(&t) || is_stringy(&t) || matches!(t, LT::Bool | LT::Binary(_) | LT::Dict(..) | LT::Prim(_) | LT::Fsb(_));
        if comparable {
            bin.push(("eq", Box::new(move |x, y| b(cmp::eq(x, y)))));
            bin.push(("lt", Box::new(move |x, y| b(cmp::lt(x, y)))));
            bin.push(("gt_eq", Box::new(move |x, y| b(cmp::gt_eq(x, y)))));
            bin.push(("neq", Box::new(move |x, y| b(cmp::neq(x, y)))));
            bin.push(("lt_eq", Box::new(move |x, y| b(cmp::lt_eq(x, y)))));
            bin.push(("gt", Box::new(move |x, y| b(cmp::gt(x, y)))));
            bin.push(("distinct", Box::new(move |x, y| b(cmp::distinct(x, y)))));
            bin.push(("not_distinct", Box::new(move |x, y| b(cmp::not_distinct(x, y)))));
            // comparison kernels feeding boolean kernels
            bin.push(("or_kleene(lt,eq)", Box::new(move |x, y| b(ab::or_kleene(&cmp::lt(x, y)?, &cmp::eq(x, y)?)))));
            bin.push(("and_kleene(not_lt,neq)", Box::new(move |x, y| b(ab::and_kleene(&ab::not(&cmp::lt(x, y)?)?, &cmp::neq(x, y)?)))));
            bin.push(("or(gt,is_null)", Box::new(move |x, y| b(ab::or(&cmp::gt(x, y)?, &ab::is_null(x.as_ref())?)))));
        }
        if is_numeric(&t) || matches!(t, LT::Prim(DataType::Decimal128(..))) {
            bin.push(("add", Box::new(|x, y| an::add(x, y))));
            bin.push(("sub", Box::new(|x, y| an::sub(x, y))));
            bin.push(("mul", Box::new(|x, y| an::mul(x, y))));
            bin.push(("div", Box::new(|x, y| an::div(x, y))));
            bin.push(("rem", Box::new(|x, y| an::rem(x, y))));
            bin.push(("add_wrapping", Box::new(|x, y| an::add_wrapping(x, y))));
            bin.push(("sub_wrapping", Box::new(|x, y| an::sub_wrapping(x, y))));
            bin.push(("mul_wrapping", Box::new(|x, y| an::mul_wrapping(x, y))));
        }
        macro_rules! arity2 {
            ($ty:ty) => {{
                bin.push(("arity_binary", Box::new(|x, y| arrow_arith::arity::binary::<$ty, $ty, _, $ty>(x.as_primitive::<$ty>(), y.as_primitive::<$ty>(), |p, q| p.wrapping_add(q)).map(|r| Arc::new(r) as ArrayRef))));
                bin.push(("arity_try_binary", Box::new(|x, y| {
                    arrow_arith::arity::try_binary::<_, _, _, $ty>(x.as_primitive::<$ty>(), y.as_primitive::<$ty>(), |p, q| p.checked_div(q).ok_or_else(|| ArrowError::DivideByZero)).map(|r| Arc::new(r) as ArrayRef)
                })));
                bin.push(("bitwise_and", Box::new(|x, y| arrow_arith::bitwise::bitwise_and(x.as_primitive::<$ty>(), y.as_primitive::<$ty>()).map(|r| Arc::new(r) as ArrayRef))));
                bin.push(("bitwise_or", Box::new(|x, y| arrow_arith::bitwise::bitwise_or(x.as_primitive::<$ty>(), y.as_primitive::<$ty>()).map(|r| Arc::new(r) as ArrayRef))));
            }};
        }
        match &t {
            LT::Prim(DataType::Int8) => arity2!(Int8Type),
            LT::Prim(DataType::Int32) => arity2!(Int32Type),
            LT::Prim(DataType::Int64) => arity2!(Int64Type),
            LT::Prim(DataType::UInt8) => arity2!(UInt8Type),
            LT::Prim(DataType::UInt64) => arity2!(UInt64Type),
            _ => {}
        }
        if is_stringy(&t) || matches!(t, LT::Binary(_) | LT::BinView) {
            bin.push(("concat_elements", Box::new(|x, y| arrow_string::concat_elements::concat_elements_dyn(x.as_ref(), y.as_ref()))));
        }
        if !matches!(t, LT::Struct(_) | LT::ListView(_)) {
            bin.push(("lexsort2", Box::new(|x, y| {
                let cols = vec![arrow_ord::sort::SortColumn { values: x.clone(), options: None }, arrow_ord::sort::SortColumn { values: y.clone(), options: None }];
                let i = arrow_ord::sort::lexsort_to_indices(&cols, None)?;
                // ties are broken by the second column: compare the pairs, not the indices
                let a = arrow_select::take::take(x.as_ref(), &i, None)?;
                let c = arrow_select::take::take(y.as_ref(), &i, None)?;
                arrow_select::concat::concat(&[a.as_ref(), c.as_ref()])
            })));
            bin.push(("partition2", Box::new(|x, y| {
                let p = arrow_ord::partition::partition(&[x.clone(), y.clone()])?;
                Ok(Arc::new(UInt64Array::from(p.ranges().iter().flat_map(|r| [r.start as u64, r.end as u64]).collect::<Vec<_>>())) as ArrayRef)
            })));
        }
        bin.push(("concat2", Box::new(|x, y| arrow_select::concat::concat(&[x.as_ref(), y.as_ref()]))));
        bin.push(("concat3", Box::new(|x, y| arrow_select::concat::concat(&[y.as_ref(), x.as_ref(), y.as_ref()]))));
        bin.push(("interleave2", Box::new(|x, y| {
            let idx: Vec<(usize, usize)> = (0..x.len().min(y.len())).map(|i| (i % 2, x.len().min(y.len()) - 1 - i)).collect();
            arrow_select::interleave::interleave(&[x.as_ref(), y.as_ref()], &idx)
        })));
        bin.push(("interleave2_few", Box::new(|x, y| {
            // few output rows: the total number of dictionary values exceeds the output length
            let m = x.len().min(y.len());
            let idx: Vec<(usize, usize)> = (0..m.min(3)).map(|i| ((i + 1) % 2, (i * 7) % m)).collect();
            arrow_select::interleave::interleave(&[x.as_ref(), y.as_ref()], &idx)
        })));
        bin.push(("concat_batches2", Box::new(|x, y| {
            let (a, c) = (RecordBatch::try_from_iter([("c", x.clone())])?, RecordBatch::try_from_iter([("c", y.clone())])?);
            Ok(arrow_select::concat::concat_batches(&a.schema(), &[a.clone(), c])?.column(0).clone())
        })));
        bin.push(("interleave_record_batch2", Box::new(|x, y| {
            let (a, c) = (RecordBatch::try_from_iter([("c", x.clone())])?, RecordBatch::try_from_iter([("c", y.clone())])?);
            let m = x.len().min(y.len());
            let idx: Vec<(usize, usize)> = (0..m).map(|i| ((i / 2) % 2, i)).collect();
            Ok(arrow_select::interleave::interleave_record_batch(&[&a, &c], &idx)?.column(0).clone())
        })));
        bin.push(("coalesce2", Box::new(|x, y| {
            let (a, c) = (RecordBatch::try_from_iter([("c", x.clone())])?, RecordBatch::try_from_iter([("c", y.clone())])?);
            let mut co = arrow_select::coalesce::BatchCoalescer::new(a.schema(), 1 << 20);
            co.push_batch(a)?;
            co.push_batch(c.clone())?;
            co.push_batch(c)?;
            co.finish_buffered_batch()?;
            let mut parts: Vec<ArrayRef> = vec![];
            while let Some(b) = co.next_completed_batch() {
                parts.push(b.column(0).clone());
            }
            let refs: Vec<&dyn Array> = parts.iter().map(|p| p.as_ref()).collect();
            if refs.is_empty() { Ok(new_empty_array(x.data_type())) } else { arrow_select::concat::concat(&refs) }
        })));
        if matches!(t, LT::Bool) {
            bin.push(("and", Box::new(move |x, y| b(ab::and(x.as_boolean(), y.as_boolean())))));
            bin.push(("or", Box::new(move |x, y| b(ab::or(x.as_boolean(), y.as_boolean())))));
            bin.push(("and_kleene", Box::new(move |x, y| b(ab::and_kleene(x.as_boolean(), y.as_boolean())))));
            bin.push(("or_kleene", Box::new(move |x, y| b(ab::or_kleene(x.as_boolean(), y.as_boolean())))));
            bin.push(("and_not", Box::new(move |x, y| b(ab::and_not(x.as_boolean(), y.as_boolean())))));
            bin.push(("or_kleene(not,not)", Box::new(move |x, y| b(ab::or_kleene(&ab::not(x.as_boolean())?, &ab::not(y.as_boolean())?)))));
            bin.push(("and_kleene(not,id)", Box::new(move |x, y| b(ab::and_kleene(&ab::not(x.as_boolean())?, y.as_boolean())))));
        }
        // a nullable Boolean predicate of the same length, with its own realisations (garbage / ones under nulls)
        let pcol = gen_col(&mut rng, &LT::Bool, n);
        let preals = realisations(&mut rng, &LT::Bool, &pcol);
        bin.push(("filter_nullable_pred", Box::new(|x, p| arrow_select::filter::filter(x.as_ref(), p.as_boolean()))));
        bin.push(("nullif", Box::new(|x, p| arrow_select::nullif::nullif(x.as_ref(), p.as_boolean()))));
        bin.push(("filter_record_batch", Box::new(|x, p| {
            let rb = RecordBatch::try_from_iter([("c", x.clone())])?;
            Ok(arrow_select::filter::filter_record_batch(&rb, p.as_boolean())?.column(0).clone())
        })));
        let all_pairs = n <= 20;
        for (name, k) in &bin {
            let pred = *name == "filter_nullable_pred" || *name == "nullif" || *name == "filter_record_batch";
            let rhs: &Vec<Real> = if pred { &preals } else { &reals2 };
            let o0 = guard_out(|| k(&reals[0].arr, &rhs[0].arr));
            tag(&format!("k2:{}:{}", name, if o0 == "ERR" { "err" } else if o0 == "PANIC" { "panic" } else { "ok" }));
            for (i, a) in reals.iter().enumerate() {
                for (j, bb) in rhs.iter().enumerate() {
                    // every pair of realisations for short columns, a spread of >= 4 per left operand otherwise
                    if !all_pairs && (i * 3 + j) % 2 != 0 {
                        continue;
                    }
                    let o = guard_out(|| k(&a.arr, &bb.arr));
                    nk += 1;
                    tag(&format!("kc2:{}:{}|{}", name, class_of(&a.name), class_of(&bb.name)));
                    if o != o0 {
                        fail(format!("kernel2 {}[{},{}]={} but plain={}", name, a.name, bb.name, o, o0));
                    }
                }
            }
        }
        // merge(mask, truthy, falsy) is NOT row-wise in its value operands (it consumes them in order): same realisation loop
        // zip(mask, truthy, falsy): three operands
        let o0 = guard_out(|| arrow_select::zip::zip(preals[0].arr.as_boolean(), &reals[0].arr, &reals2[0].arr));
        tag(&format!("k2:zip:{}", if o0 == "ERR" { "err" } else if o0 == "PANIC" { "panic" } else { "ok" }));
        for (i, a) in reals.iter().enumerate() {
            for (j, p) in preals.iter().enumerate() {
                let c = &reals2[(i + 2 * j + 1) % reals2.len()];
                let o = guard_out(|| arrow_select::zip::zip(p.arr.as_boolean(), &a.arr, &c.arr));
                nk += 1;
                tag(&format!("kc2:zip:{}|{}", class_of(&p.name), class_of(&a.name)));
                if o != o0 {
                    fail(format!("kernel2 zip[{},{},{}]={} but plain={}", p.name, a.name, c.name, o, o0));
                }
            }
        }
    }
    // (iv) row-wise commutation with take / slice / concat
    let idx: Vec<u32> = (0..n + 1).filter_map(|_| if n == 0 { None } else { Some(rng.usize(n) as u32) }).collect();
    let (so, sl) = { let o = rng.usize(n + 1); (o, rng.usize(n - o + 1)) };
    for (name, k) in &rowwise(&t) {
        for r in [&reals[0], &reals[rng.usize(reals.len())]] {
            let full = guarded_res(|| k(&r.arr));
            let Some(full) = full else { continue };
            // take
            let i = UInt32Array::from(idx.clone());
            let lhs = guard_out(|| k(&arrow_select::take::take(r.arr.as_ref(), &i, None)?));
            let rhs = guard_out(|| arrow_select::take::take(full.as_ref(), &i, None));
            if lhs != rhs {
                fail(format!("commute-take {}[{}] k(take)={} take(k)={}", name, r.name, lhs, rhs));
            }
            let lhs = guard_out(|| k(&r.arr.slice(so, sl)));
            let rhs = guard_out(|| Ok(full.slice(so, sl)));
            if lhs != rhs {
                fail(format!("commute-slice {}[{}] {}+{} k(slice)={} slice(k)={}", name, r.name, so, sl, lhs, rhs));
            }
            let other = &reals[1];
            if let Some(full2) = guarded_res(|| k(&other.arr)) {
                let lhs = guard_out(|| k(&arrow_select::concat::concat(&[r.arr.as_ref(), other.arr.as_ref()])?));
                let rhs = guard_out(|| arrow_select::concat::concat(&[full.as_ref(), full2.as_ref()]));
                if lhs != rhs {
                    fail(format!("commute-concat {}[{}] k(concat)={} concat(k)={}", name, r.name, lhs, rhs));
                }
            }
            nk += 3;
        }
    }
    let _ = nk;
    "ok".into()
}

/// layout class of a realisation (its name without the numeric parameters)
fn class_of(name: &str) -> String {
    let base = name.split('_').next().unwrap_or(name);
    base.trim_end_matches(|c: char| c.is_ascii_digit()).to_string()
}

fn guarded_opt<T, F: FnOnce() -> Option<T>>(f: F) -> Option<T> {
    std::panic::catch_unwind(std::panic::AssertUnwindSafe(f)).ok().flatten()
}
fn guarded_res<F: FnOnce() -> Result<ArrayRef, ArrowError>>(f: F) -> Option<ArrayRef> {
    std::panic::catch_unwind(std::panic::AssertUnwindSafe(f)).ok().and_then(|r| r.ok())
}

// ------------------------------------------------------------------------------------ run

fn run_case(line: &str) -> String {
    let t: Vec<&str> = line.split(' ').collect();
    assert_eq!(t[0], "C02");
    match t[1] {
        "eq" => guarded(|| {
            let (a, b) = match (parse_data_str(t[2]), parse_data_str(t[3])) {
                (Ok(a), Ok(b)) => (a, b),
                _ => return "REJ".into(),
            };
            let eq = a == b;
            let (aa, ab) = (make_array(a.clone()), make_array(b.clone()));
            if (aa.as_ref() == ab.as_ref()) != eq {
                fail("Array == differs from ArrayData ==".into());
            }
            let spec = a.data_type() == b.data_type() && logical(aa.as_ref()) == logical(ab.as_ref());
            format!("eq={} spec={}", eq as u8, spec as u8)
        }),
        "dec" => guarded(|| match parse_data_str(t[2]) {
            Ok(a) => show_col(&logical(make_array(a).as_ref())),
            Err(_) => "REJ".into(),
        }),
        "slice" => guarded(|| match parse_data_str(t[4]) {
            Ok(a) => {
                let (o, l): (usize, usize) = (t[2].parse().unwrap(), t[3].parse().unwrap());
                show_col(&logical(make_array(a.slice(o, l)).as_ref()))
            }
            Err(_) => "REJ".into(),
        }),
        "take" => guarded(|| match parse_data_str(t[3]) {
            Ok(a) => {
                let idx: Vec<u32> = parse_list(t[2]);
                match arrow_select::take::take(make_array(a).as_ref(), &UInt32Array::from(idx), None) {
                    Ok(r) => show_col(&logical(r.as_ref())),
                    Err(_) => "ERR".into(),
                }
            }
            Err(_) => "REJ".into(),
        }),
        "filter" => guarded(|| match parse_data_str(t[3]) {
            Ok(a) => {
                let mask = parse_bits(t[2]);
                match arrow_select::filter::filter(make_array(a).as_ref(), &BooleanArray::from(mask)) {
                    Ok(r) => show_col(&logical(r.as_ref())),
                    Err(_) => "ERR".into(),
                }
            }
            Err(_) => "REJ".into(),
        }),
        "col" => guarded(|| run_col(t[2], t[3].parse().unwrap(), t[4].parse().unwrap())),
        _ => "bad-op".into(),
    }
}

// ------------------------------------------------------------------------------- generator

fn pick_n(rng: &mut Rng) -> usize {
    match rng.below(10) {
        0 => 0,
        1 => 1,
        2 => *rng.pick(&[7usize, 8, 9]),
        3 => *rng.pick(&[63usize, 64, 65, 70]),
        _ => 2 + rng.usize(12),
    }
}

/// the lines of one generated column: the oracle case plus correspondence lines on its dumps
fn gen_column_cases(rng: &mut Rng, out: &mut Vec<(String, String)>) {
    // Boolean columns get extra weight (boolean kernels read value bits next to validity bits)
    let ts = if rng.chance(1, 12) { *rng.pick(&DNV) } else if rng.chance(1, 10) { "bool" } else if rng.chance(1, 3) { *rng.pick(&BITS) } else { *rng.pick(&GRID) };
    let n = if is_bits(ts) { *rng.pick(&[1usize, 2, 3, 4, 6, 9, 17]) } else { pick_n(rng) };
    gen_column_cases_for(rng, ts, n, out)
}

/// the fixed block generated in every run, whatever the seed: every type of the grid at the sizes
/// 0, 1, 8, 64, 65, 129 (one/two 64-bit words of validity, +-1), leaf types also at 1025
fn boundary_block(out: &mut Vec<(String, String)>) {
    let mut rng = Rng::new(0xC02_B10C);
    for ts in GRID.iter().chain(BITS.iter()).chain(DNV.iter()) {
        // dnv: row counts on both sides of the dictionary-merge heuristic (total values >= output rows)
        let sizes: &[usize] = if is_dnv(ts) { &[1, 2, 3, 5, 8, 20, 64, 130] } else if is_bits(ts) { &[0, 1, 8, 13] } else if matches!(*ts, "bool" | "i32" | "u8" | "utf8" | "f64" | "utf8view" | "dict8") { &[0, 1, 8, 64, 65, 129, 1025] } else { &[0, 1, 8, 64, 65, 129] };
        for &n in sizes {
            let before = out.len();
            gen_column_cases_for(&mut rng, ts, n, out);
            for (_, t) in out[before..].iter_mut() {
                t.push_str(&format!(" block:size n:{}", n));
            }
        }
    }
}

/// directed `eq` lines around the null-density switch of primitive_equal / fixed_binary_equal
/// (`null_count / len >= 0.4`): null counts floor(0.4 n) - 1, ceil(0.4 n), + 1, garbage under nulls,
/// equal pairs and pairs differing in one valid byte, offsets 0 / 3 on either side
fn threshold_block(out: &mut Vec<(String, String)>) {
    let mut rng = Rng::new(0xC02_7423);
    for &w in &[1usize, 4, 3] {
        for &n in &[5usize, 10, 20, 64, 65, 100] {
            let lo = (4 * n) / 10;
            for k in [lo.saturating_sub(1), (4 * n + 9) / 10, (4 * n + 9) / 10 + 1] {
                if k == 0 || k > n {
                    continue;
                }
                // choose k null positions
                let mut valid = vec![true; n];
                let mut left = k;
                while left > 0 {
                    let i = rng.usize(n);
                    if valid[i] {
                        valid[i] = false;
                        left -= 1;
                    }
                }
                let vals: Vec<Vec<u8>> = (0..n).map(|_| rng.bytes(w)).collect();
                let mk = |rng: &mut Rng, off: usize, vals: &Vec<Vec<u8>>| -> String {
                    let mut bm = vec![0u8; (off + n + 7) / 8];
                    let mut buf = rng.bytes(off * w);
                    for i in 0..n {
                        if valid[i] {
                            set_bit(&mut bm, off + i);
                            buf.extend_from_slice(&vals[i]);
                        } else {
                            buf.extend_from_slice(&rng.bytes(w));
                        }
                    }
                    let ty = if w == 3 { "x3".to_string() } else { format!("p{}", w) };
                    format!("A({};{};{};{};{};)", ty, n, off, hex(&bm), hex(&buf))
                };
                let a = mk(&mut rng, 0, &vals);
                let b = mk(&mut rng, 3, &vals);
                let mut other = vals.clone();
                let j = (0..n).filter(|i| valid[*i]).nth(rng.usize(n - k)).unwrap_or(0);
                other[j][0] ^= 1;
                let co = if rng.bool() { 0 } else { 3 };
                let c = mk(&mut rng, co, &other);
                let side = if 10 * k >= 4 * n { "dense" } else { "sparse" };
                let tags = format!("op:eq block:threshold w:{} n:{} density:{}/{} nulls:{} nt", w, n, k, n, side);
                out.push((format!("C02 eq {} {}", a, b), format!("{} same", tags)));
                out.push((format!("C02 eq {} {}", b, a), format!("{} same", tags)));
                if n > k {
                    out.push((format!("C02 eq {} {}", a, c), format!("{} different", tags)));
                    out.push((format!("C02 eq {} {}", c, b), format!("{} different", tags)));
                }
            }
        }
    }
}

fn gen_column_cases_for(rng: &mut Rng, ts: &str, n: usize, out: &mut Vec<(String, String)>) {
    NULLVAL.with(|c| c.set(is_dnv(ts)));
    let r = std::panic::catch_unwind(std::panic::AssertUnwindSafe(|| gen_column_cases_inner(rng, ts, n, out)));
    NULLVAL.with(|c| c.set(false));
    if let Err(e) = r {
        std::panic::resume_unwind(e);
    }
}
fn gen_column_cases_inner(rng: &mut Rng, ts: &str, n: usize, out: &mut Vec<(String, String)>) {
    let t = parse_lt(ts);
    let seed = rng.next_u64() >> 16;
    out.push((format!("C02 col {} {} {}", ts, n, seed), format!("op:col type:{} {}", ts, if n > 1 { "nt" } else { "" })));
    // correspondence lines: regenerate the same column and realisations
    let mut r2 = Rng::new(seed.wrapping_mul(0x9e3779b97f4a7c15) ^ 0xC02);
    let col = gen_col(&mut r2, &t, n);
    let reals = match std::panic::catch_unwind(std::panic::AssertUnwindSafe(|| realisations(&mut r2, &t, &col))) {
        Ok(r) => r,
        Err(_) => return,
    };
    let dumps: Vec<(String, String)> = reals.iter().filter_map(|r| dump(&r.data).map(|d| (r.name.clone(), d))).collect();
    if dumps.is_empty() {
        return;
    }
    let has_null = col.iter().any(|v| *v == V::N);
    let nn = col.iter().filter(|v| **v == V::N).count();
    // which path of primitive_equal / fixed_binary_equal the pair takes (null density vs the 0.4 switch)
    let path = if nn == 0 { "nulls:none" } else if 10 * nn >= 4 * n { "nulls:dense" } else { "nulls:sparse" };
    let base = format!("type:{} {} {}{}", ts, path, if has_null { "has-null " } else { "" }, if n > 1 { "nt" } else { "" });
    // eq: a few same-column pairs and different-column pairs
    for _ in 0..(if is_bits(ts) { 12 } else { 3 }) {
        let (i, j) = (rng.usize(dumps.len()), rng.usize(dumps.len()));
        let rt = |n: &str| -> String {
            // residue tags of a `res<start>_<kidoffset>` realisation
            match n.strip_prefix("res").and_then(|r| r.split_once('_')) {
                Some((a, b)) => format!("{}+{}", a.parse::<usize>().unwrap_or(0) % 8, b.parse::<usize>().unwrap_or(0) % 8),
                None => "-".into(),
            }
        };
        let both = if dumps[i].0.starts_with("res") && dumps[j].0.starts_with("res") { format!(" res:{}|{}", rt(&dumps[i].0), rt(&dumps[j].0)) } else { String::new() };
        out.push((format!("C02 eq {} {}", dumps[i].1, dumps[j].1), format!("op:eq same {} l:{} r:{}{}", base, strip_num(&dumps[i].0).split('_').next().unwrap().trim_end_matches(|c: char| c.is_ascii_digit()), strip_num(&dumps[j].0).split('_').next().unwrap().trim_end_matches(|c: char| c.is_ascii_digit()), both)));
    }
    if let Some(other) = perturb(rng, &t, &col) {
        if let Ok(others) = std::panic::catch_unwind(std::panic::AssertUnwindSafe(|| realisations(rng, &t, &other))) {
            for _ in 0..3 {
                let (i, j) = (rng.usize(dumps.len()), rng.usize(others.len()));
                if let Some(d) = dump(&others[j].data) {
                    let (l, r) = if rng.bool() { (dumps[i].1.clone(), d) } else { (d, dumps[i].1.clone()) };
                    out.push((format!("C02 eq {} {}", l, r), format!("op:eq different {}", base)));
                }
            }
        }
    }
    // dec / slice on a random realisation
    let k = rng.usize(dumps.len());
    out.push((format!("C02 dec {}", dumps[k].1), format!("op:dec {} r:{}", base, strip_num(&dumps[k].0))));
    if !matches!(t, LT::Struct(_)) {
        let k = rng.usize(dumps.len());
        let o = rng.usize(n + 1);
        let l = rng.usize(n - o + 1);
        out.push((format!("C02 slice {} {} {}", o, l, dumps[k].1), format!("op:slice {} r:{}", base, strip_num(&dumps[k].0))));
    }
    if matches!(t, LT::Prim(_) | LT::Fsb(_)) {
        let k = rng.usize(dumps.len());
        let m = rng.usize(n + 3);
        let idx: Vec<usize> = (0..m).filter_map(|_| if n == 0 { None } else { Some(rng.usize(n)) }).collect();
        out.push((format!("C02 take {} {}", show_list(&idx), dumps[k].1), format!("op:take {}", base)));
        let mask: Vec<bool> = (0..n).map(|_| rng.bool()).collect();
        out.push((format!("C02 filter {} {}", show_bits(&mask), dumps[k].1), format!("op:filter {}", base)));
    }
}
fn strip_num(s: &str) -> String {
    s.trim_end_matches(|c: char| c.is_ascii_digit()).to_string()
}

fn main() {
    let args = parse_args();
    if std::env::var("VERIF_LOUD").is_err() {
        quiet_panics();
    }
    let mut sink = Sink::new(&args.out);
    let emit = |sink: &mut Sink, line: String, tags: &str| {
        ORACLE.with(|o| o.borrow_mut().clear());
        TAGS.with(|o| o.borrow_mut().clear());
        let a = run_case(&line);
        let fails: Vec<String> = ORACLE.with(|o| o.borrow_mut().drain(..).collect());
        let extra: Vec<String> = TAGS.with(|o| o.borrow_mut().drain(..).collect());
        let mut tags = tags.to_string();
        for u in extra {
            tags.push(' ');
            tags.push_str(&u);
        }
        if a == "PANIC" && line.starts_with("C02 col ") {
            sink.oracle_failure(line.clone(), "harness-panic".into(), &tags);
        }
        for f in fails {
            let class = f.split(|c: char| c == ' ' || c == '[').next().unwrap_or("").to_string();
            let kname = f.split(' ').nth(1).unwrap_or("").split(|c: char| c == '[' || c == ':').next().unwrap_or("").to_string();
            let ftags = if class.starts_with("kernel") || class.starts_with("commute") { format!("{} fail:{} fk:{}", tags, class, kname) } else { format!("{} fail:{}", tags, class) };
            let ty = line.split(' ').nth(2).unwrap_or("");
            let n0 = line.split(' ').nth(3) == Some("0");
            // known findings (see /verif/known_findings.txt): precise class + type + symptom
            // strict cast of a binary dictionary to a string view / string dictionary: Err on one side only
            let strict_target = f.contains("cast:Utf8View:strict[") || f.contains("cast:Dictionary(UInt16, Utf8):strict[");
            let one_sided_err = (class == "kernel" && f.contains("=ERR but [plain]=") && !f.contains("[plain]=ERR"))
                || (class == "commute-slice" && f.contains("k(slice)=ERR") && !f.contains("slice(k)=ERR"))
                || (class == "commute-take" && f.contains("k(take)=ERR") && !f.contains("take(k)=ERR"))
                || (class == "commute-concat" && f.contains("k(concat)=ERR") && !f.contains("concat(k)=ERR"));
            let kf = if kname == "cast" && ty == "dnv_u32_bin" && strict_target && one_sided_err {
                " kf:dict-binary-strict-cast-unreferenced"
            } else if class == "kernel" && kname.starts_with("substring") && (ty == "utf8" || ty == "lutf8") && f.contains("=ERR but [plain]=") && !f.contains("[plain]=ERR") {
                " kf:substring-null-payload"
            } else if class == "commute-concat" && (ty == "ree" || ty == "reestr") && n0 && f.contains("k(concat)=ERR") {
                " kf:concat-empty-ree"
            } else {
                ""
            };
            let ftags = format!("{ftags}{kf}");
            sink.oracle_failure(line.clone(), f, &ftags);
        }
        sink.case(line, a, &tags);
    };
    if args.mode == "replay" {
        for line in read_cases(args.replay.as_ref().unwrap()) {
            emit(&mut sink, line, "replay");
        }
    } else {
        // fixed blocks first (independent of the seed)
        let mut fixed = vec![];
        boundary_block(&mut fixed);
        threshold_block(&mut fixed);
        for (l, t) in fixed {
            emit(&mut sink, l, &t);
        }
        let mut rng = Rng::new(args.seed ^ 0xC02);
        let n = n_cases(&args, 2000, 60000);
        for _ in 0..n {
            let mut lines = vec![];
            gen_column_cases(&mut rng, &mut lines);
            for (l, t) in lines {
                emit(&mut sink, l, &t);
            }
        }
    }
    sink.finish();
}
