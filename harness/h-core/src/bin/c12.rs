//! C12 correspondence harness (stub, being built)
use vcommon::*;
fn main() {
    let args = parse_args();
    let sink = Sink::new(&args.out);
    sink.finish();
}
