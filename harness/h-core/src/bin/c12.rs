//! C12 correspondence harness: arithmetic, aggregation and boolean kernels of arrow-arith,
//! and `arrow_buffer::i256` directly.
//!
//! Case lines (see lean/ArrowModel/C12/Driver.lean for the model side):
//!   C12 i256 <method> <alo> <ahi> [<blo> <bhi> | <exp>]      limbs via from_parts / to_parts
//!   C12 i256str =<text>                                      i256::from_string
//!   C12 arith <op> <ltype> <lhs> <rtype> <rhs>               numeric::{add,…}; operands
//!        `A<off>:<slots>` (array sliced at <off>), `N<off>:…` (null buffer forced), `S:<slot>` (Scalar);
//!        a slot is `v` or `n:<garbage>` (null with that physical value underneath)
//!   C12 neg|neg_wrapping <type> <arr>
//!   C12 agg sum|sumc|min|max|band|bor|bxor <type> <arr>
//!   C12 bool and_kleene|or_kleene|and|or|and_not <B> <B> ; C12 bool not <B> ; C12 bagg and|or|min|max <B>
//!        `B<off>:<value bits>:<validity bits|->`
//! Answers: `<type> <slots>` (null = `n`), `ERR:<class>`, `PANIC`, scalars as decimal.
use arrow_arith::{aggregate, boolean, numeric};
use arrow_array::types::*;
use arrow_array::*;
use arrow_buffer::{BooleanBuffer, IntervalDayTime, IntervalMonthDayNano, NullBuffer, ScalarBuffer, i256};
use arrow_schema::{ArrowError, DataType, IntervalUnit, TimeUnit};
use num_bigint::BigInt;
use std::sync::Arc;
use vcommon::*;

// ------------------------------------------------------------------ big integers (independent of i256's own code)

/// decimal text → (low, high) two's complement limbs (wraps modulo 2^256)
fn parse_big(s: &str) -> (u128, i128) {
    let (neg, digits) = match s.strip_prefix('-') {
        Some(r) => (true, r),
        None => (false, s),
    };
    let mut l = [0u64; 4];
    for c in digits.bytes() {
        let mut carry = (c - b'0') as u128;
        for x in l.iter_mut() {
            let v = (*x as u128) * 10 + carry;
            *x = v as u64;
            carry = v >> 64;
        }
    }
    if neg {
        let mut carry = 1u128;
        for x in l.iter_mut() {
            let v = (!*x) as u128 + carry;
            *x = v as u64;
            carry = v >> 64;
        }
    }
    ((l[0] as u128) | ((l[1] as u128) << 64), ((l[2] as u128) | ((l[3] as u128) << 64)) as i128)
}

fn show_big(low: u128, high: i128) -> String {
    let mut l = [low as u64, (low >> 64) as u64, high as u128 as u64, ((high as u128) >> 64) as u64];
    let neg = high < 0;
    if neg {
        let mut carry = 1u128;
        for x in l.iter_mut() {
            let v = (!*x) as u128 + carry;
            *x = v as u64;
            carry = v >> 64;
        }
    }
    let mut parts: Vec<u64> = vec![];
    while l.iter().any(|x| *x != 0) {
        let mut rem = 0u128;
        for x in l.iter_mut().rev() {
            let v = (rem << 64) | (*x as u128);
            *x = (v / 1_000_000_000_000_000_000) as u64;
            rem = v % 1_000_000_000_000_000_000;
        }
        parts.push(rem as u64);
    }
    if parts.is_empty() {
        return "0".into();
    }
    let mut s = String::new();
    if neg {
        s.push('-');
    }
    s.push_str(&parts.last().unwrap().to_string());
    for p in parts.iter().rev().skip(1) {
        s.push_str(&format!("{:018}", p));
    }
    s
}

fn big_i256(s: &str) -> i256 {
    let (l, h) = parse_big(s);
    i256::from_parts(l, h)
}
fn show_i256v(v: i256) -> String {
    let (l, h) = v.to_parts();
    show_big(l, h)
}
fn show_parts(v: i256) -> String {
    let (l, h) = v.to_parts();
    format!("{} {}", l, h)
}

// ------------------------------------------------------------------ types

#[derive(Clone, Copy, PartialEq, Debug)]
enum Ty {
    I8,
    I16,
    I32,
    I64,
    U8,
    U16,
    U32,
    U64,
    F32,
    F64,
    Dec(u16, u8, i8),
    Date32,
    Date64,
    Ts(u8),
    Dur(u8),
    Iym,
    Idt,
    Imdn,
}

const UNITS: [&str; 4] = ["s", "ms", "us", "ns"];
fn unit_idx(u: &TimeUnit) -> u8 {
    match u {
        TimeUnit::Second => 0,
        TimeUnit::Millisecond => 1,
        TimeUnit::Microsecond => 2,
        TimeUnit::Nanosecond => 3,
    }
}

fn parse_ty(s: &str) -> Ty {
    let f: Vec<&str> = s.split(':').collect();
    match f[0] {
        "i8" => Ty::I8,
        "i16" => Ty::I16,
        "i32" => Ty::I32,
        "i64" => Ty::I64,
        "u8" => Ty::U8,
        "u16" => Ty::U16,
        "u32" => Ty::U32,
        "u64" => Ty::U64,
        "f32" => Ty::F32,
        "f64" => Ty::F64,
        "date32" => Ty::Date32,
        "date64" => Ty::Date64,
        "ts" => Ty::Ts(UNITS.iter().position(|u| *u == f[1]).unwrap() as u8),
        "dur" => Ty::Dur(UNITS.iter().position(|u| *u == f[1]).unwrap() as u8),
        "iym" => Ty::Iym,
        "idt" => Ty::Idt,
        "imdn" => Ty::Imdn,
        d => Ty::Dec(d[1..].parse().unwrap(), f[1].parse().unwrap(), f[2].parse().unwrap()),
    }
}

fn show_ty(t: &Ty) -> String {
    match t {
        Ty::I8 => "i8".into(),
        Ty::I16 => "i16".into(),
        Ty::I32 => "i32".into(),
        Ty::I64 => "i64".into(),
        Ty::U8 => "u8".into(),
        Ty::U16 => "u16".into(),
        Ty::U32 => "u32".into(),
        Ty::U64 => "u64".into(),
        Ty::F32 => "f32".into(),
        Ty::F64 => "f64".into(),
        Ty::Dec(b, p, s) => format!("d{}:{}:{}", b, p, s),
        Ty::Date32 => "date32".into(),
        Ty::Date64 => "date64".into(),
        Ty::Ts(u) => format!("ts:{}", UNITS[*u as usize]),
        Ty::Dur(u) => format!("dur:{}", UNITS[*u as usize]),
        Ty::Iym => "iym".into(),
        Ty::Idt => "idt".into(),
        Ty::Imdn => "imdn".into(),
    }
}

fn ty_of_datatype(d: &DataType) -> Option<Ty> {
    Some(match d {
        DataType::Int8 => Ty::I8,
        DataType::Int16 => Ty::I16,
        DataType::Int32 => Ty::I32,
        DataType::Int64 => Ty::I64,
        DataType::UInt8 => Ty::U8,
        DataType::UInt16 => Ty::U16,
        DataType::UInt32 => Ty::U32,
        DataType::UInt64 => Ty::U64,
        DataType::Float32 => Ty::F32,
        DataType::Float64 => Ty::F64,
        DataType::Decimal32(p, s) => Ty::Dec(32, *p, *s),
        DataType::Decimal64(p, s) => Ty::Dec(64, *p, *s),
        DataType::Decimal128(p, s) => Ty::Dec(128, *p, *s),
        DataType::Decimal256(p, s) => Ty::Dec(256, *p, *s),
        DataType::Date32 => Ty::Date32,
        DataType::Date64 => Ty::Date64,
        DataType::Timestamp(u, None) => Ty::Ts(unit_idx(u)),
        DataType::Duration(u) => Ty::Dur(unit_idx(u)),
        DataType::Interval(IntervalUnit::YearMonth) => Ty::Iym,
        DataType::Interval(IntervalUnit::DayTime) => Ty::Idt,
        DataType::Interval(IntervalUnit::MonthDayNano) => Ty::Imdn,
        _ => return None,
    })
}

// ------------------------------------------------------------------ native values ↔ text

trait Val: Sized + Copy {
    fn parse(s: &str) -> Self;
    fn show(&self) -> String;
}
macro_rules! val_int {
    ($($t:ty),*) => {$(
        impl Val for $t {
            fn parse(s: &str) -> Self { s.parse().expect("int item") }
            fn show(&self) -> String { self.to_string() }
        }
    )*};
}
val_int!(i8, i16, i32, i64, i128, u8, u16, u32, u64);
impl Val for i256 {
    fn parse(s: &str) -> Self {
        big_i256(s)
    }
    fn show(&self) -> String {
        show_i256v(*self)
    }
}
impl Val for f32 {
    fn parse(s: &str) -> Self {
        f32::from_bits(s.parse().unwrap())
    }
    fn show(&self) -> String {
        self.to_bits().to_string()
    }
}
impl Val for f64 {
    fn parse(s: &str) -> Self {
        f64::from_bits(s.parse().unwrap())
    }
    fn show(&self) -> String {
        self.to_bits().to_string()
    }
}
impl Val for IntervalDayTime {
    fn parse(s: &str) -> Self {
        let f: Vec<&str> = s.split('/').collect();
        IntervalDayTime::new(f[0].parse().unwrap(), f[1].parse().unwrap())
    }
    fn show(&self) -> String {
        format!("{}/{}", self.days, self.milliseconds)
    }
}
impl Val for IntervalMonthDayNano {
    fn parse(s: &str) -> Self {
        let f: Vec<&str> = s.split('/').collect();
        IntervalMonthDayNano::new(f[0].parse().unwrap(), f[1].parse().unwrap(), f[2].parse().unwrap())
    }
    fn show(&self) -> String {
        format!("{}/{}/{}", self.months, self.days, self.nanoseconds)
    }
}

// ------------------------------------------------------------------ operands

struct Operand {
    scalar: bool,
    force_nulls: bool,
    off: usize,
    slots: Vec<(String, bool)>, // (text of the physical value, valid)
}

fn parse_operand(s: &str) -> Operand {
    let (head, body) = s.split_once(':').expect("operand");
    let slots: Vec<(String, bool)> = if body == "-" {
        vec![]
    } else {
        body.split(',')
            .map(|x| match x.strip_prefix("n:") {
                Some(g) => (g.to_string(), false),
                None => (x.to_string(), true),
            })
            .collect()
    };
    let kind = head.as_bytes()[0];
    Operand {
        scalar: kind == b'S',
        force_nulls: kind == b'N',
        off: if kind == b'S' { 0 } else { head[1..].parse().unwrap() },
        slots,
    }
}

/// physical values and validity including the `off` leading slots that are sliced away
fn physical<N: Val>(o: &Operand) -> (Vec<N>, Option<NullBuffer>) {
    let n = o.slots.len();
    let mut vals: Vec<N> = Vec::with_capacity(o.off + n);
    let mut valid: Vec<bool> = Vec::with_capacity(o.off + n);
    for i in 0..o.off {
        // leading slots: copies of the payload (or anything), alternating validity
        if n > 0 {
            vals.push(N::parse(&o.slots[i % n].0));
        } else {
            vals.push(N::parse(if std::any::type_name::<N>().contains("Interval") {
                if std::any::type_name::<N>().contains("DayTime") { "0/0" } else { "0/0/0" }
            } else {
                "0"
            }));
        }
        valid.push(i % 2 == 0);
    }
    for (t, v) in &o.slots {
        vals.push(N::parse(t));
        valid.push(*v);
    }
    let has_nulls = o.force_nulls || o.slots.iter().any(|s| !s.1);
    (vals, if has_nulls { Some(NullBuffer::from(valid)) } else { None })
}

fn build_prim<T: ArrowPrimitiveType>(o: &Operand, dt: Option<DataType>) -> ArrayRef
where
    T::Native: Val,
{
    let (vals, nulls) = physical::<T::Native>(o);
    let mut a = PrimitiveArray::<T>::new(ScalarBuffer::from(vals), nulls);
    if let Some(dt) = dt {
        a = a.with_data_type(dt);
    }
    let a = a.slice(o.off, o.slots.len());
    Arc::new(a)
}

fn build(ty: &Ty, o: &Operand) -> ArrayRef {
    match ty {
        Ty::I8 => build_prim::<Int8Type>(o, None),
        Ty::I16 => build_prim::<Int16Type>(o, None),
        Ty::I32 => build_prim::<Int32Type>(o, None),
        Ty::I64 => build_prim::<Int64Type>(o, None),
        Ty::U8 => build_prim::<UInt8Type>(o, None),
        Ty::U16 => build_prim::<UInt16Type>(o, None),
        Ty::U32 => build_prim::<UInt32Type>(o, None),
        Ty::U64 => build_prim::<UInt64Type>(o, None),
        Ty::F32 => build_prim::<Float32Type>(o, None),
        Ty::F64 => build_prim::<Float64Type>(o, None),
        Ty::Dec(32, p, s) => build_prim::<Decimal32Type>(o, Some(DataType::Decimal32(*p, *s))),
        Ty::Dec(64, p, s) => build_prim::<Decimal64Type>(o, Some(DataType::Decimal64(*p, *s))),
        Ty::Dec(128, p, s) => build_prim::<Decimal128Type>(o, Some(DataType::Decimal128(*p, *s))),
        Ty::Dec(_, p, s) => build_prim::<Decimal256Type>(o, Some(DataType::Decimal256(*p, *s))),
        Ty::Date32 => build_prim::<Date32Type>(o, None),
        Ty::Date64 => build_prim::<Date64Type>(o, None),
        Ty::Ts(0) => build_prim::<TimestampSecondType>(o, None),
        Ty::Ts(1) => build_prim::<TimestampMillisecondType>(o, None),
        Ty::Ts(2) => build_prim::<TimestampMicrosecondType>(o, None),
        Ty::Ts(_) => build_prim::<TimestampNanosecondType>(o, None),
        Ty::Dur(0) => build_prim::<DurationSecondType>(o, None),
        Ty::Dur(1) => build_prim::<DurationMillisecondType>(o, None),
        Ty::Dur(2) => build_prim::<DurationMicrosecondType>(o, None),
        Ty::Dur(_) => build_prim::<DurationNanosecondType>(o, None),
        Ty::Iym => build_prim::<IntervalYearMonthType>(o, None),
        Ty::Idt => build_prim::<IntervalDayTimeType>(o, None),
        Ty::Imdn => build_prim::<IntervalMonthDayNanoType>(o, None),
    }
}

fn show_prim<T: ArrowPrimitiveType>(a: &dyn Array) -> String
where
    T::Native: Val,
{
    let a = a.as_any().downcast_ref::<PrimitiveArray<T>>().expect("downcast");
    if a.is_empty() {
        return "-".into();
    }
    (0..a.len()).map(|i| if a.is_null(i) { "n".to_string() } else { a.value(i).show() }).collect::<Vec<_>>().join(",")
}

fn show_array(a: &ArrayRef) -> String {
    let Some(ty) = ty_of_datatype(a.data_type()) else {
        return format!("ERR:unexpected-type");
    };
    let a = a.as_ref();
    let body = match ty {
        Ty::I8 => show_prim::<Int8Type>(a),
        Ty::I16 => show_prim::<Int16Type>(a),
        Ty::I32 => show_prim::<Int32Type>(a),
        Ty::I64 => show_prim::<Int64Type>(a),
        Ty::U8 => show_prim::<UInt8Type>(a),
        Ty::U16 => show_prim::<UInt16Type>(a),
        Ty::U32 => show_prim::<UInt32Type>(a),
        Ty::U64 => show_prim::<UInt64Type>(a),
        Ty::F32 => show_prim::<Float32Type>(a),
        Ty::F64 => show_prim::<Float64Type>(a),
        Ty::Dec(32, _, _) => show_prim::<Decimal32Type>(a),
        Ty::Dec(64, _, _) => show_prim::<Decimal64Type>(a),
        Ty::Dec(128, _, _) => show_prim::<Decimal128Type>(a),
        Ty::Dec(_, _, _) => show_prim::<Decimal256Type>(a),
        Ty::Date32 => show_prim::<Date32Type>(a),
        Ty::Date64 => show_prim::<Date64Type>(a),
        Ty::Ts(0) => show_prim::<TimestampSecondType>(a),
        Ty::Ts(1) => show_prim::<TimestampMillisecondType>(a),
        Ty::Ts(2) => show_prim::<TimestampMicrosecondType>(a),
        Ty::Ts(_) => show_prim::<TimestampNanosecondType>(a),
        Ty::Dur(0) => show_prim::<DurationSecondType>(a),
        Ty::Dur(1) => show_prim::<DurationMillisecondType>(a),
        Ty::Dur(2) => show_prim::<DurationMicrosecondType>(a),
        Ty::Dur(_) => show_prim::<DurationNanosecondType>(a),
        Ty::Iym => show_prim::<IntervalYearMonthType>(a),
        Ty::Idt => show_prim::<IntervalDayTimeType>(a),
        Ty::Imdn => show_prim::<IntervalMonthDayNanoType>(a),
    };
    format!("{} {}", show_ty(&ty), body)
}

fn show_err(e: &ArrowError) -> String {
    match e {
        ArrowError::ArithmeticOverflow(_) => "ERR:overflow",
        ArrowError::DivideByZero => "ERR:divzero",
        ArrowError::InvalidArgumentError(_) => "ERR:invalid-arg",
        ArrowError::ComputeError(_) => "ERR:compute",
        _ => "ERR:other",
    }
    .to_string()
}

fn show_res(r: Result<ArrayRef, ArrowError>) -> String {
    match r {
        Ok(a) => show_array(&a),
        Err(e) => show_err(&e),
    }
}

// ------------------------------------------------------------------ aggregates

fn opt<T: Val>(o: Option<T>) -> String {
    match o {
        Some(v) => v.show(),
        None => "none".into(),
    }
}

fn agg_num<T: ArrowNumericType>(f: &str, a: &ArrayRef) -> String
where
    T::Native: Val,
{
    let a = a.as_any().downcast_ref::<PrimitiveArray<T>>().unwrap();
    match f {
        "sum" => opt(aggregate::sum(a)),
        "sumc" => match aggregate::sum_checked(a) {
            Ok(o) => opt(o),
            Err(e) => show_err(&e),
        },
        "min" => opt(aggregate::min(a)),
        "max" => opt(aggregate::max(a)),
        "prod" => opt(aggregate::product(a)),
        "prodc" => match aggregate::product_checked(a) {
            Ok(o) => opt(o),
            Err(e) => show_err(&e),
        },
        _ => "bad-op".into(),
    }
}

/// sum_array / sum_array_checked / min_array / max_array on a dictionary (`keys` given) or a
/// run-end-encoded (`run_ends`, slice) view of `values`
fn agg_encoded<T: ArrowNumericType>(f: &str, values: ArrayRef, enc: &str, keys: &Operand, ends: &[i32], off: usize, len: usize) -> String
where
    T::Native: Val,
{
    let run = |f: &str, sum: Option<T::Native>, sumc: Result<Option<T::Native>, ArrowError>, mn: Option<T::Native>, mx: Option<T::Native>| match f {
        "sum" => opt(sum),
        "sumc" => match sumc {
            Ok(o) => opt(o),
            Err(e) => show_err(&e),
        },
        "min" => opt(mn),
        _ => opt(mx),
    };
    if enc == "dict" {
        let k = build(&Ty::I32, keys);
        let k = k.as_any().downcast_ref::<Int32Array>().unwrap().clone();
        let d = match DictionaryArray::<Int32Type>::try_new(k, values) {
            Ok(d) => d,
            Err(_) => return "ERR:build".into(),
        };
        let t = d.downcast_dict::<PrimitiveArray<T>>().unwrap();
        match f {
            "sum" => run(f, aggregate::sum_array::<T, _>(t), Ok(None), None, None),
            "sumc" => run(f, None, aggregate::sum_array_checked::<T, _>(t), None, None),
            "min" => run(f, None, Ok(None), aggregate::min_array::<T, _>(t), None),
            _ => run(f, None, Ok(None), None, aggregate::max_array::<T, _>(t)),
        }
    } else {
        let re = Int32Array::from(ends.to_vec());
        let r = match RunArray::<Int32Type>::try_new(&re, values.as_ref()) {
            Ok(r) => r.slice(off, len),
            Err(_) => return "ERR:build".into(),
        };
        let t = r.downcast::<PrimitiveArray<T>>().unwrap();
        match f {
            "sum" => run(f, aggregate::sum_array::<T, _>(t), Ok(None), None, None),
            "sumc" => run(f, None, aggregate::sum_array_checked::<T, _>(t), None, None),
            "min" => run(f, None, Ok(None), aggregate::min_array::<T, _>(t), None),
            _ => run(f, None, Ok(None), None, aggregate::max_array::<T, _>(t)),
        }
    }
}

// ------------------------------------------------------------------ bitwise kernels

fn bitw<T: ArrowNumericType>(f: &str, a: &ArrayRef, b: Option<&ArrayRef>, scalar: Option<&str>) -> String
where
    T::Native: Val
        + std::ops::BitAnd<Output = T::Native>
        + std::ops::BitOr<Output = T::Native>
        + std::ops::BitXor<Output = T::Native>
        + std::ops::Not<Output = T::Native>
        + num_traits::WrappingShl<Output = T::Native>
        + num_traits::WrappingShr<Output = T::Native>,
{
    use arrow_arith::bitwise::*;
    let a = a.as_any().downcast_ref::<PrimitiveArray<T>>().unwrap();
    let r: Result<PrimitiveArray<T>, ArrowError> = if let Some(b) = b {
        let b = b.as_any().downcast_ref::<PrimitiveArray<T>>().unwrap();
        match f {
            "and" => bitwise_and(a, b),
            "or" => bitwise_or(a, b),
            "xor" => bitwise_xor(a, b),
            "shl" => bitwise_shift_left(a, b),
            "shr" => bitwise_shift_right(a, b),
            "andnot" => bitwise_and_not(a, b),
            _ => return "bad-op".into(),
        }
    } else if let Some(sv) = scalar {
        let sv = <T::Native as Val>::parse(sv);
        match f {
            "and" => bitwise_and_scalar(a, sv),
            "or" => bitwise_or_scalar(a, sv),
            "xor" => bitwise_xor_scalar(a, sv),
            "shl" => bitwise_shift_left_scalar(a, sv),
            "shr" => bitwise_shift_right_scalar(a, sv),
            _ => return "bad-op".into(),
        }
    } else {
        bitwise_not(a)
    };
    show_res(r.map(|x| Arc::new(x) as ArrayRef))
}

// ------------------------------------------------------------------ ArrowNativeTypeOp directly

fn nat_op<N: ArrowNativeTypeOp + Val>(m: &str, a: &str, b: &str) -> String {
    let x = N::parse(a);
    let res = |r: Result<N, ArrowError>| match r {
        Ok(v) => v.show(),
        Err(e) => show_err(&e),
    };
    match m {
        "negc" => res(x.neg_checked()),
        "negw" => x.neg_wrapping().show(),
        "iszero" => (x.is_zero() as u8).to_string(),
        "powc" => res(x.pow_checked(b.parse().unwrap())),
        "poww" => x.pow_wrapping(b.parse().unwrap()).show(),
        _ => {
            let y = N::parse(b);
            match m {
                "addc" => res(x.add_checked(y)),
                "subc" => res(x.sub_checked(y)),
                "mulc" => res(x.mul_checked(y)),
                "divc" => res(x.div_checked(y)),
                "modc" => res(x.mod_checked(y)),
                "addw" => x.add_wrapping(y).show(),
                "subw" => x.sub_wrapping(y).show(),
                "mulw" => x.mul_wrapping(y).show(),
                "divw" => x.div_wrapping(y).show(),
                "modw" => x.mod_wrapping(y).show(),
                "cmp" => {
                    // compare and the derived predicates must agree
                    let c = x.compare(y);
                    let ok = x.is_eq(y) == c.is_eq() && x.is_ne(y) == c.is_ne() && x.is_lt(y) == c.is_lt() && x.is_le(y) == c.is_le() && x.is_gt(y) == c.is_gt() && x.is_ge(y) == c.is_ge();
                    let s = match c {
                        std::cmp::Ordering::Less => "lt",
                        std::cmp::Ordering::Equal => "eq",
                        std::cmp::Ordering::Greater => "gt",
                    };
                    if ok { s.into() } else { format!("{}-inconsistent", s) }
                }
                _ => "bad-op".into(),
            }
        }
    }
}

// ------------------------------------------------------------------ interval structs (arrow-buffer/src/interval.rs)

macro_rules! ival_impl {
    ($name:ident, $t:ty) => {
        fn $name(m: &str, a: &str, b: &str) -> String {
            let x = <$t as Val>::parse(a);
            let o = |r: Option<$t>| r.map(|v| v.show()).unwrap_or("none".into());
            match m {
                "wneg" => x.wrapping_neg().show(),
                "cneg" => o(x.checked_neg()),
                "wabs" => x.wrapping_abs().show(),
                "cabs" => o(x.checked_abs()),
                "wpow" => x.wrapping_pow(b.parse().unwrap()).show(),
                "cpow" => o(x.checked_pow(b.parse().unwrap())),
                _ => {
                    let y = <$t as Val>::parse(b);
                    match m {
                        "wadd" => x.wrapping_add(y).show(),
                        "wsub" => x.wrapping_sub(y).show(),
                        "wmul" => x.wrapping_mul(y).show(),
                        "wdiv" => x.wrapping_div(y).show(),
                        "wrem" => x.wrapping_rem(y).show(),
                        "cadd" => o(x.checked_add(y)),
                        "csub" => o(x.checked_sub(y)),
                        "cmul" => o(x.checked_mul(y)),
                        "cdiv" => o(x.checked_div(y)),
                        "crem" => o(x.checked_rem(y)),
                        _ => "bad-op".into(),
                    }
                }
            }
        }
    };
}
ival_impl!(ival_dt, IntervalDayTime);
ival_impl!(ival_mdn, IntervalMonthDayNano);

// ------------------------------------------------------------------ byte-array min / max

fn aggs(f: &str, kind: &str, items: &str) -> String {
    let vals: Vec<Option<Vec<u8>>> = if items == "-" { vec![] } else { items.split(',').map(|x| if x == "n" { None } else { Some(unhex(&x[1..])) }).collect() };
    let sh = |o: Option<&[u8]>| o.map(|b| format!("x{}", if b.is_empty() { String::new() } else { hex(b) })).unwrap_or("none".into());
    let refs: Vec<Option<&[u8]>> = vals.iter().map(|v| v.as_deref()).collect();
    let strs: Vec<Option<&str>> = if kind.contains("utf8") { vals.iter().map(|v| v.as_ref().map(|b| std::str::from_utf8(b).unwrap())).collect() } else { vec![] };
    let mn = f == "min";
    match kind {
        "bin" => { let a = BinaryArray::from(refs); sh(if mn { aggregate::min_binary(&a) } else { aggregate::max_binary(&a) }) }
        "lbin" => { let a = LargeBinaryArray::from(refs); sh(if mn { aggregate::min_binary(&a) } else { aggregate::max_binary(&a) }) }
        "binv" => { let a = BinaryViewArray::from(refs); sh(if mn { aggregate::min_binary_view(&a) } else { aggregate::max_binary_view(&a) }) }
        "utf8" => { let a = StringArray::from(strs); sh((if mn { aggregate::min_string(&a) } else { aggregate::max_string(&a) }).map(|s| s.as_bytes())) }
        "lutf8" => { let a = LargeStringArray::from(strs); sh((if mn { aggregate::min_string(&a) } else { aggregate::max_string(&a) }).map(|s| s.as_bytes())) }
        "utf8v" => { let a = StringViewArray::from(strs); sh((if mn { aggregate::min_string_view(&a) } else { aggregate::max_string_view(&a) }).map(|s| s.as_bytes())) }
        _ => {
            // fsb:<width>
            let w: i32 = kind[4..].parse().unwrap();
            let a = match FixedSizeBinaryArray::try_from_sparse_iter_with_size(refs.into_iter(), w) {
                Ok(a) => a,
                Err(_) => return "ERR:build".into(),
            };
            sh(if mn { aggregate::min_fixed_size_binary(&a) } else { aggregate::max_fixed_size_binary(&a) })
        }
    }
}

fn agg_bits<T: ArrowNumericType>(f: &str, a: &ArrayRef) -> String
where
    T::Native: Val
        + std::ops::BitAnd<Output = T::Native>
        + std::ops::BitOr<Output = T::Native>
        + std::ops::BitXor<Output = T::Native>
        + ArrowNativeTypeOp,
{
    let p = a.as_any().downcast_ref::<PrimitiveArray<T>>().unwrap();
    match f {
        "band" => opt(aggregate::bit_and(p)),
        "bor" => opt(aggregate::bit_or(p)),
        "bxor" => opt(aggregate::bit_xor(p)),
        _ => agg_num::<T>(f, a),
    }
}

fn run_agg(f: &str, ty: &Ty, a: &ArrayRef) -> String {
    match ty {
        Ty::I8 => agg_bits::<Int8Type>(f, a),
        Ty::I16 => agg_bits::<Int16Type>(f, a),
        Ty::I32 => agg_bits::<Int32Type>(f, a),
        Ty::I64 => agg_bits::<Int64Type>(f, a),
        Ty::U8 => agg_bits::<UInt8Type>(f, a),
        Ty::U16 => agg_bits::<UInt16Type>(f, a),
        Ty::U32 => agg_bits::<UInt32Type>(f, a),
        Ty::U64 => agg_bits::<UInt64Type>(f, a),
        Ty::F32 => agg_num::<Float32Type>(f, a),
        Ty::F64 => agg_num::<Float64Type>(f, a),
        Ty::Dec(32, _, _) => agg_bits::<Decimal32Type>(f, a),
        Ty::Dec(64, _, _) => agg_bits::<Decimal64Type>(f, a),
        Ty::Dec(128, _, _) => agg_bits::<Decimal128Type>(f, a),
        Ty::Dec(_, _, _) => agg_bits::<Decimal256Type>(f, a),
        Ty::Date32 => agg_num::<Date32Type>(f, a),
        Ty::Date64 => agg_num::<Date64Type>(f, a),
        Ty::Dur(0) => agg_num::<DurationSecondType>(f, a),
        Ty::Dur(_) => agg_num::<DurationNanosecondType>(f, a),
        Ty::Ts(_) => agg_num::<TimestampNanosecondType>(f, a),
        _ => "bad-op".into(),
    }
}

// ------------------------------------------------------------------ booleans

/// `B<off>:<values>:<validity|->`
fn parse_bool(s: &str) -> BooleanArray {
    let f: Vec<&str> = s.split(':').collect();
    let off: usize = f[0][1..].parse().unwrap();
    let vals = parse_bits(f[1]);
    let n = vals.len();
    let mut v: Vec<bool> = (0..off).map(|i| i % 3 != 0).collect();
    v.extend_from_slice(&vals);
    let nulls = if f[2] == "-" {
        None
    } else {
        let mut m: Vec<bool> = (0..off).map(|i| i % 2 == 0).collect();
        m.extend(parse_bits(f[2]));
        Some(NullBuffer::from(m))
    };
    BooleanArray::new(BooleanBuffer::from(v), nulls).slice(off, n)
}

fn show_bool(a: &BooleanArray) -> String {
    if a.is_empty() {
        return "-".into();
    }
    (0..a.len()).map(|i| if a.is_null(i) { 'n' } else if a.value(i) { '1' } else { '0' }).collect()
}

// ------------------------------------------------------------------ run one case

fn run_i256(t: &[&str]) -> String {
    let part = |lo: &str, hi: &str| i256::from_parts(lo.parse::<u128>().unwrap(), hi.parse::<i128>().unwrap());
    let o = |x: Option<i256>| x.map(show_parts).unwrap_or("none".into());
    let m = t[2];
    if m == "fromi128" {
        let v: i128 = t[3].parse().unwrap();
        return guarded(|| show_parts(i256::from_i128(v)));
    }
    let a = part(t[3], t[4]);
    match m {
        "cpow" | "wpow" => {
            let e: u32 = t[5].parse().unwrap();
            guarded(move || if m == "cpow" { o(a.checked_pow(e)) } else { show_parts(a.wrapping_pow(e)) })
        }
        "wneg" => guarded(move || show_parts(a.wrapping_neg())),
        "cneg" => guarded(move || o(a.checked_neg())),
        "wabs" => guarded(move || show_parts(a.wrapping_abs())),
        "cabs" => guarded(move || o(a.checked_abs())),
        "toi128" => guarded(move || a.to_i128().map(|v| v.to_string()).unwrap_or("none".into())),
        "tostr" => guarded(move || a.to_string()),
        _ => {
            let b = part(t[5], t[6]);
            guarded(move || match m {
                "wadd" => show_parts(a.wrapping_add(b)),
                "wsub" => show_parts(a.wrapping_sub(b)),
                "wmul" => show_parts(a.wrapping_mul(b)),
                "wdiv" => show_parts(a.wrapping_div(b)),
                "wrem" => show_parts(a.wrapping_rem(b)),
                "cadd" => o(a.checked_add(b)),
                "csub" => o(a.checked_sub(b)),
                "cmul" => o(a.checked_mul(b)),
                "cdiv" => o(a.checked_div(b)),
                "crem" => o(a.checked_rem(b)),
                "cmp" => match a.cmp(&b) {
                    std::cmp::Ordering::Less => "lt".into(),
                    std::cmp::Ordering::Equal => "eq".into(),
                    std::cmp::Ordering::Greater => "gt".into(),
                },
                _ => "bad-op".into(),
            })
        }
    }
}

fn datum(a: &ArrayRef, scalar: bool) -> Box<dyn Datum + '_> {
    if scalar { Box::new(Scalar::new(a.clone())) } else { Box::new(a.clone()) }
}

fn run_case(line: &str) -> String {
    let t: Vec<&str> = line.split(' ').collect();
    assert_eq!(t[0], "C12");
    match t[1] {
        "i256" => run_i256(&t),
        "i256str" => {
            let s = t[2][1..].to_string();
            guarded(move || i256::from_string(&s).map(show_parts).unwrap_or("none".into()))
        }
        "arith" => {
            let (op, lt, l, rt, r) = (t[2], parse_ty(t[3]), parse_operand(t[4]), parse_ty(t[5]), parse_operand(t[6]));
            guarded(move || {
                let la = build(&lt, &l);
                let ra = build(&rt, &r);
                let ld = datum(&la, l.scalar);
                let rd = datum(&ra, r.scalar);
                let res = match op {
                    "add" => numeric::add(ld.as_ref(), rd.as_ref()),
                    "sub" => numeric::sub(ld.as_ref(), rd.as_ref()),
                    "mul" => numeric::mul(ld.as_ref(), rd.as_ref()),
                    "div" => numeric::div(ld.as_ref(), rd.as_ref()),
                    "rem" => numeric::rem(ld.as_ref(), rd.as_ref()),
                    "add_wrapping" => numeric::add_wrapping(ld.as_ref(), rd.as_ref()),
                    "sub_wrapping" => numeric::sub_wrapping(ld.as_ref(), rd.as_ref()),
                    "mul_wrapping" => numeric::mul_wrapping(ld.as_ref(), rd.as_ref()),
                    _ => return "bad-op".into(),
                };
                show_res(res)
            })
        }
        "neg" | "neg_wrapping" => {
            let (ty, a) = (parse_ty(t[2]), parse_operand(t[3]));
            let w = t[1] == "neg_wrapping";
            guarded(move || {
                let arr = build(&ty, &a);
                show_res(if w { numeric::neg_wrapping(arr.as_ref()) } else { numeric::neg(arr.as_ref()) })
            })
        }
        "agg" => {
            let (f, ty, a) = (t[2], parse_ty(t[3]), parse_operand(t[4]));
            guarded(move || {
                let arr = build(&ty, &a);
                run_agg(f, &ty, &arr)
            })
        }
        "bool" => {
            let op = t[2];
            if op == "not" || op == "is_null" || op == "is_not_null" {
                let a = t[3].to_string();
                return guarded(move || {
                    let arr = parse_bool(&a);
                    let r = match op {
                        "not" => boolean::not(&arr),
                        "is_null" => boolean::is_null(&arr),
                        _ => boolean::is_not_null(&arr),
                    };
                    match r {
                        Ok(r) => show_bool(&r),
                        Err(e) => show_err(&e),
                    }
                });
            }
            let (l, r) = (t[3].to_string(), t[4].to_string());
            guarded(move || {
                let (l, r) = (parse_bool(&l), parse_bool(&r));
                let res = match op {
                    "and_kleene" => boolean::and_kleene(&l, &r),
                    "or_kleene" => boolean::or_kleene(&l, &r),
                    "and" => boolean::and(&l, &r),
                    "or" => boolean::or(&l, &r),
                    "and_not" => boolean::and_not(&l, &r),
                    _ => return "bad-op".into(),
                };
                match res {
                    Ok(r) => show_bool(&r),
                    Err(e) => show_err(&e),
                }
            })
        }
        "agg2" => {
            // C12 agg2 <fn> <ty> <values> dict <keys>   |   C12 agg2 <fn> <ty> <values> ree <ends> <off> <len>
            let (f, ty, vals, enc) = (t[2], parse_ty(t[3]), parse_operand(t[4]), t[5]);
            let (keys, ends, off, len) = if enc == "dict" {
                (parse_operand(t[6]), vec![], 0, 0)
            } else {
                (parse_operand("A0:-"), parse_list::<i32>(t[6]), t[7].parse::<usize>().unwrap(), t[8].parse::<usize>().unwrap())
            };
            guarded(move || {
                let v = build(&ty, &vals);
                match ty {
                    Ty::I8 => agg_encoded::<Int8Type>(f, v, enc, &keys, &ends, off, len),
                    Ty::I32 => agg_encoded::<Int32Type>(f, v, enc, &keys, &ends, off, len),
                    Ty::I64 => agg_encoded::<Int64Type>(f, v, enc, &keys, &ends, off, len),
                    Ty::U8 => agg_encoded::<UInt8Type>(f, v, enc, &keys, &ends, off, len),
                    _ => "bad-op".into(),
                }
            })
        }
        "aggs" => {
            let (f, kind, items) = (t[2], t[3], t[4].to_string());
            guarded(move || aggs(f, kind, &items))
        }
        "bitw" | "bitws" => {
            let scalar_form = t[1] == "bitws";
            let (f, ty, a) = (t[2], parse_ty(t[3]), parse_operand(t[4]));
            let b = if !scalar_form && t.len() > 5 { Some(parse_operand(t[5])) } else { None };
            let sv = if scalar_form { Some(t[5].to_string()) } else { None };
            guarded(move || {
                let aa = build(&ty, &a);
                let ba = b.as_ref().map(|b| build(&ty, b));
                let sv = sv.as_deref();
                match ty {
                    Ty::I8 => bitw::<Int8Type>(f, &aa, ba.as_ref(), sv),
                    Ty::I16 => bitw::<Int16Type>(f, &aa, ba.as_ref(), sv),
                    Ty::I32 => bitw::<Int32Type>(f, &aa, ba.as_ref(), sv),
                    Ty::I64 => bitw::<Int64Type>(f, &aa, ba.as_ref(), sv),
                    Ty::U8 => bitw::<UInt8Type>(f, &aa, ba.as_ref(), sv),
                    Ty::U16 => bitw::<UInt16Type>(f, &aa, ba.as_ref(), sv),
                    Ty::U32 => bitw::<UInt32Type>(f, &aa, ba.as_ref(), sv),
                    Ty::U64 => bitw::<UInt64Type>(f, &aa, ba.as_ref(), sv),
                    _ => "bad-op".into(),
                }
            })
        }
        "nat" => {
            let (m, ty, a, b) = (t[2], t[3], t[4].to_string(), t.get(5).unwrap_or(&"0").to_string());
            guarded(move || match ty {
                "i8" => nat_op::<i8>(m, &a, &b),
                "i16" => nat_op::<i16>(m, &a, &b),
                "i32" => nat_op::<i32>(m, &a, &b),
                "i64" => nat_op::<i64>(m, &a, &b),
                "i128" => nat_op::<i128>(m, &a, &b),
                "i256" => nat_op::<i256>(m, &a, &b),
                "u8" => nat_op::<u8>(m, &a, &b),
                "u16" => nat_op::<u16>(m, &a, &b),
                "u32" => nat_op::<u32>(m, &a, &b),
                "u64" => nat_op::<u64>(m, &a, &b),
                _ => "bad-op".into(),
            })
        }
        "ival" => {
            let (m, ty, a, b) = (t[2], t[3], t[4].to_string(), t.get(5).unwrap_or(&"0").to_string());
            guarded(move || if ty == "idt" { ival_dt(m, &a, &b) } else { ival_mdn(m, &a, &b) })
        }
        "arity" => {
            // *_mut kernels on Int32 with fixed operations; a declined (shared) buffer falls back to the
            // non-mut kernel, as a caller would
            let (f, a) = (t[2], parse_operand(t[3]));
            let b = if t.len() > 4 { Some(parse_operand(t[4])) } else { None };
            guarded(move || {
                use arrow_arith::arity::*;
                let mk = |o: &Operand| build(&Ty::I32, o).as_any().downcast_ref::<Int32Array>().unwrap().clone();
                let x = mk(&a);
                let r: Result<Int32Array, ArrowError> = match f {
                    "unary_mut" => Ok(match unary_mut(x, |v| v.wrapping_mul(3)) {
                        Ok(r) => r,
                        Err(orig) => unary(&orig, |v| v.wrapping_mul(3)),
                    }),
                    "try_unary_mut" => match try_unary_mut(x, |v| v.mul_checked(3)) {
                        Ok(r) => r,
                        Err(orig) => try_unary(&orig, |v| v.mul_checked(3)),
                    },
                    "binary_mut" => {
                        let y = mk(b.as_ref().unwrap());
                        match binary_mut(x, &y, |l, r| l.wrapping_add(r)) {
                            Ok(r) => r,
                            Err(orig) => binary(&orig, &y, |l, r| l.wrapping_add(r)),
                        }
                    }
                    "try_binary_mut" => {
                        let y = mk(b.as_ref().unwrap());
                        match try_binary_mut(x, &y, |l, r| l.add_checked(r)) {
                            Ok(r) => r,
                            Err(orig) => try_binary(&orig, &y, |l, r| l.add_checked(r)),
                        }
                    }
                    _ => return "bad-op".into(),
                };
                show_res(r.map(|x| Arc::new(x) as ArrayRef))
            })
        }
        "fixp" => {
            // C12 fixp mfp|mfpc|mfpd <d128:p:s> <A> <d128:p:s> <B> <required_scale>
            let (f, lt, l, rt, r, req) = (t[2], parse_ty(t[3]), parse_operand(t[4]), parse_ty(t[5]), parse_operand(t[6]), t[7].parse::<i8>().unwrap());
            guarded(move || {
                use arrow_arith::arithmetic::*;
                let la = build(&lt, &l);
                let ra = build(&rt, &r);
                let (ld, rd) = (la.as_any().downcast_ref::<Decimal128Array>().unwrap(), ra.as_any().downcast_ref::<Decimal128Array>().unwrap());
                match f {
                    "mfp" => show_res(multiply_fixed_point(ld, rd, req).map(|x| Arc::new(x) as ArrayRef)),
                    "mfpc" => show_res(multiply_fixed_point_checked(ld, rd, req).map(|x| Arc::new(x) as ArrayRef)),
                    _ => show_res(multiply_fixed_point_dyn(la.as_ref(), ra.as_ref(), req)),
                }
            })
        }
        "decv" => {
            // C12 decv <bits> <precision> <value>: validate_decimal*_precision and is_validate_* must agree
            let (bits, p, v) = (t[2], t[3].parse::<u8>().unwrap(), t[4].to_string());
            guarded(move || {
                use arrow_data::decimal::*;
                let (a, b) = match bits {
                    "32" => (validate_decimal32_precision(v.parse().unwrap(), p, 0).is_ok(), is_validate_decimal32_precision(v.parse().unwrap(), p)),
                    "64" => (validate_decimal64_precision(v.parse().unwrap(), p, 0).is_ok(), is_validate_decimal64_precision(v.parse().unwrap(), p)),
                    "128" => (validate_decimal_precision(v.parse().unwrap(), p, 0).is_ok(), is_validate_decimal_precision(v.parse().unwrap(), p)),
                    _ => (validate_decimal256_precision(big_i256(&v), p, 0).is_ok(), is_validate_decimal256_precision(big_i256(&v), p)),
                };
                if a != b { "inconsistent".into() } else if a { "ok".into() } else { "err".into() }
            })
        }
        "bagg" => {
            let (f, a) = (t[2], t[3].to_string());
            guarded(move || {
                let a = parse_bool(&a);
                let r = match f {
                    "and" => aggregate::bool_and(&a),
                    "or" => aggregate::bool_or(&a),
                    "min" => aggregate::min_boolean(&a),
                    "max" => aggregate::max_boolean(&a),
                    _ => return "bad-op".into(),
                };
                match r {
                    Some(true) => "1".into(),
                    Some(false) => "0".into(),
                    None => "none".into(),
                }
            })
        }
        _ => "bad-op".into(),
    }
}


// ------------------------------------------------------------------ known finding: decimal intermediates

const KF_DEC: &str = "kf:decimal-intermediate-rescale-overflow";

fn big(s: &str) -> BigInt {
    s.parse::<BigInt>().expect("bigint")
}
fn pow10(k: u32) -> BigInt {
    BigInt::from(10).pow(k)
}
fn fits(v: &BigInt, bits: u16) -> bool {
    let half = BigInt::from(1) << (bits as usize - 1);
    *v >= -half.clone() && *v < half
}

/// Implementation-independent predicate (arbitrary-precision reference) for the known finding
/// `kf:decimal-intermediate-rescale-overflow`: a decimal add/sub/div/rem between valid decimal
/// types where every processed slot pair is within its declared precision and has an exact
/// result that is representable in the result's physical type (no zero divisor), while a
/// multiplier `10^k` or a rescaled operand `l*10^k` exceeds the native width — the property
/// demands the exact values, the kernels return ArithmeticOverflow.
fn kf_decimal(line: &str) -> bool {
    let t: Vec<&str> = line.split(' ').collect();
    if t.len() != 7 || t[1] != "arith" || !t[3].starts_with('d') || !t[5].starts_with('d') || t[3].starts_with("da") || t[3].starts_with("du") || t[5].starts_with("da") || t[5].starts_with("du") {
        return false;
    }
    let (Ty::Dec(b1, p1, s1), Ty::Dec(b2, p2, s2)) = (parse_ty(t[3]), parse_ty(t[5])) else { return false };
    if b1 != b2 {
        return false;
    }
    let bits = b1;
    let maxp: i32 = match bits {
        32 => 9,
        64 => 18,
        128 => 38,
        _ => 76,
    };
    let (p1, s1, p2, s2) = (p1 as i32, s1 as i32, p2 as i32, s2 as i32);
    if !(1 <= p1 && p1 <= maxp && 0 <= s1 && s1 <= p1 && 1 <= p2 && p2 <= maxp && 0 <= s2 && s2 <= p2) {
        return false;
    }
    // (k1, k2, checked multipliers?) as documented
    let (op, k1, k2, mult_checked): (&str, u32, u32, bool) = match t[2] {
        "add" | "add_wrapping" | "sub" | "sub_wrapping" => {
            if s1 == s2 {
                return false;
            }
            let rs = s1.max(s2);
            (if t[2].starts_with("add") { "add" } else { "sub" }, (rs - s1) as u32, (rs - s2) as u32, true)
        }
        "div" => {
            let rs = (s1 + 4).min(maxp);
            ("div", (rs - s1 + s2) as u32, 0, true)
        }
        "rem" => {
            if s1 == s2 {
                return false;
            }
            let rs = s1.max(s2);
            ("rem", (rs - s1) as u32, (rs - s2) as u32, false)
        }
        _ => return false,
    };
    let (m1, m2) = (pow10(k1), pow10(k2));
    let pre_overflow = mult_checked && (!fits(&m1, bits) || !fits(&m2, bits));
    let l = parse_operand(t[4]);
    let r = parse_operand(t[6]);
    // slot pairs processed by the kernel
    let pairs: Vec<(&(String, bool), &(String, bool))> = match (l.scalar, r.scalar) {
        (true, false) => r.slots.iter().map(|y| (&l.slots[0], y)).collect(),
        (false, true) => l.slots.iter().map(|x| (x, &r.slots[0])).collect(),
        _ => {
            if l.slots.len() != r.slots.len() {
                return false;
            }
            l.slots.iter().zip(r.slots.iter()).collect()
        }
    };
    let (lim1, lim2) = (pow10(p1 as u32), pow10(p2 as u32));
    let mut interm = false;
    for (x, y) in pairs {
        if !x.1 || !y.1 {
            continue;
        }
        let (a, b) = (big(&x.0), big(&y.0));
        let in_prec = a > -lim1.clone() && a < lim1 && b > -lim2.clone() && b < lim2;
        let (ra, rb) = (&a * &m1, &b * &m2);
        let slot_interm = !fits(&ra, bits) || !fits(&rb, bits);
        if !in_prec && (pre_overflow || slot_interm) {
            // beyond the declared precision the as-written behaviour is the specification: an error
            return false;
        }
        let zero = BigInt::from(0);
        let exact = match op {
            "add" => &ra + &rb,
            "sub" => &ra - &rb,
            "div" => {
                if rb == zero {
                    return false;
                }
                &ra / &rb
            }
            _ => {
                if rb == zero {
                    return false;
                }
                if !in_prec && bits < 512 && ra == -(BigInt::from(1) << (bits as usize - 1)) && rb == BigInt::from(-1) {
                    return false; // std checked_rem(MIN, -1)
                }
                &ra % &rb
            }
        };
        if !fits(&exact, bits) {
            return false;
        }
        if slot_interm {
            interm = true;
        }
    }
    pre_overflow || interm
}

// repaired in /repo (e907f2a, c11cbae): histogram tags only, no known-finding key refers to them
const KF_DICT: &str = "repaired:dict-null-values-aggregate";
const KF_REE: &str = "kf:ree-sum-checked-run-product";
const KF_REE_SLICE: &str = "repaired:ree-sliced-sum-run-length";

/// structural predicates (implementation independent) for the aggregate findings
fn kf_agg2(line: &str) -> Option<&'static str> {
    let t: Vec<&str> = line.split(' ').collect();
    if t.len() < 7 || t[1] != "agg2" {
        return None;
    }
    let vals = parse_operand(t[4]);
    if t[5] == "dict" {
        // a valid key that points to a null dictionary value
        let keys = parse_operand(t[6]);
        let hit = keys.slots.iter().any(|(k, valid)| *valid && k.parse::<usize>().ok().and_then(|i| vals.slots.get(i)).map(|v| !v.1).unwrap_or(false));
        return if hit { Some(KF_DICT) } else { None };
    }
    let sliced = t[5] == "ree" && (t[2] == "sum" || t[2] == "sumc") && t[7] != "0";
    if t[5] == "ree" && t[2] == "sumc" {
        // sequential prefix sums all representable, but a run's length or value*length is not
        let (lo, hi) = bounds(&parse_ty(t[3]));
        let ends: Vec<i128> = parse_list::<i128>(t[6]);
        let (off, len) = (t[7].parse::<i128>().unwrap(), t[8].parse::<i128>().unwrap());
        let mut acc: i128 = 0;
        let mut prev = off;
        let mut bad = false;
        for (e, v) in ends.iter().zip(vals.slots.iter()) {
            let end = (*e).clamp(off, off + len);
            let n = end - prev;
            prev = end;
            if n <= 0 || !v.1 {
                continue;
            }
            let x: i128 = v.0.parse().unwrap();
            acc += x * n;
            if acc < lo || acc > hi {
                return if sliced { Some(KF_REE_SLICE) } else { None }; // the specification errors too
            }
            if n > hi || x * n < lo || x * n > hi {
                bad = true;
            }
        }
        if bad {
            return Some(KF_REE);
        }
    }
    if sliced {
        // sum over a run-end-encoded slice with a non-zero offset
        return Some(KF_REE_SLICE);
    }
    None
}

// ------------------------------------------------------------------ generation

const LENS: [usize; 22] = [0, 1, 1, 2, 2, 3, 3, 4, 5, 7, 8, 9, 15, 16, 17, 31, 33, 63, 64, 65, 127, 129];

fn gen_len(rng: &mut Rng) -> usize {
    if rng.chance(1, 40) { 128 + rng.usize(3) } else { *rng.pick(&LENS) }
}

/// (min, max) of the physical type as i128 (256-bit handled separately)
fn bounds(ty: &Ty) -> (i128, i128) {
    match ty {
        Ty::I8 => (i8::MIN as i128, i8::MAX as i128),
        Ty::I16 => (i16::MIN as i128, i16::MAX as i128),
        Ty::I32 | Ty::Date32 | Ty::Iym | Ty::Dec(32, _, _) => (i32::MIN as i128, i32::MAX as i128),
        Ty::I64 | Ty::Date64 | Ty::Ts(_) | Ty::Dur(_) | Ty::Dec(64, _, _) => (i64::MIN as i128, i64::MAX as i128),
        Ty::U8 => (0, u8::MAX as i128),
        Ty::U16 => (0, u16::MAX as i128),
        Ty::U32 | Ty::F32 => (0, u32::MAX as i128),
        Ty::U64 | Ty::F64 => (0, u64::MAX as i128),
        _ => (i128::MIN, i128::MAX),
    }
}

fn rand_i128(rng: &mut Rng) -> i128 {
    (((rng.next_u64() as u128) << 64) | rng.next_u64() as u128) as i128
}

/// one integer of the type; mode 0 = small, 1 = mostly small, 2 = boundary biased
fn gen_int(rng: &mut Rng, ty: &Ty, mode: u8) -> String {
    if let Ty::Dec(256, _, _) = ty {
        return gen_i256_text(rng, mode);
    }
    let (lo, hi) = bounds(ty);
    let small = |rng: &mut Rng| -> i128 {
        let v = rng.range(-20, 20) as i128;
        v.clamp(lo, hi)
    };
    let boundary = |rng: &mut Rng| -> i128 {
        match rng.below(12) {
            0 => lo,
            1 => lo.saturating_add(1),
            2 => hi,
            3 => hi - 1,
            4 => 0i128.clamp(lo, hi),
            5 => (-1i128).clamp(lo, hi),
            6 => 1,
            7 => hi / 2 + 1,
            8 => lo / 2,
            9 => lo / 2 - if lo < 0 { 1 } else { 0 },
            10 => {
                // power of ten / two near the middle
                let k = rng.below(39) as u32;
                10i128.checked_pow(k).unwrap_or(1).clamp(lo, hi) * if lo < 0 && rng.bool() { -1 } else { 1 }
            }
            _ => {
                let r = rand_i128(rng);
                if lo == i128::MIN { r } else { lo + (r as u128 % ((hi - lo) as u128 + 1)) as i128 }
            }
        }
    };
    let v = match mode {
        0 => small(rng),
        1 => if rng.chance(1, 6) { boundary(rng) } else { small(rng) },
        _ => if rng.chance(1, 5) { small(rng) } else { boundary(rng) },
    };
    v.to_string()
}

fn gen_i256(rng: &mut Rng, mode: u8) -> i256 {
    let b = |rng: &mut Rng| -> i256 {
        match rng.below(16) {
            0 => i256::MIN,
            1 => i256::from_parts(1, i128::MIN),
            2 => i256::MAX,
            3 => i256::from_parts(u128::MAX - 1, i128::MAX),
            4 => i256::ZERO,
            5 => i256::MINUS_ONE,
            6 => i256::ONE,
            7 => i256::from_parts(u128::MAX, 0),              // 2^128 - 1
            8 => i256::from_parts(0, 1),                      // 2^128
            9 => i256::from_parts(0, -1),                     // -2^128
            10 => i256::from_parts(1u128 << 127, 0),          // 2^127
            11 => i256::from_parts(u128::MAX << 127, -1),     // -2^127
            12 => i256::from_parts(1u128 << 64, 0),
            13 => i256::from_parts(u128::MAX, i128::MAX >> rng.below(127) as u32),
            14 => i256::from_parts(rng.next_u64() as u128, if rng.bool() { 0 } else { -1 }),
            _ => i256::from_parts(rand_i128(rng) as u128, rand_i128(rng) >> (rng.below(128) as u32)),
        }
    };
    match mode {
        0 => i256::from_i128(rng.range(-20, 20) as i128),
        1 => if rng.chance(1, 6) { b(rng) } else { i256::from_i128(rng.range(-20, 20) as i128) },
        _ => if rng.chance(1, 6) { i256::from_i128(rng.range(-20, 20) as i128) } else { b(rng) },
    }
}

fn gen_i256_text(rng: &mut Rng, mode: u8) -> String {
    show_i256v(gen_i256(rng, mode))
}

fn gen_item(rng: &mut Rng, ty: &Ty, mode: u8) -> String {
    match ty {
        Ty::Idt => format!("{}/{}", gen_int(rng, &Ty::I32, mode), gen_int(rng, &Ty::I32, mode)),
        Ty::Imdn => format!("{}/{}/{}", gen_int(rng, &Ty::I32, mode), gen_int(rng, &Ty::I32, mode), gen_int(rng, &Ty::I64, mode)),
        Ty::F32 | Ty::F64 => {
            // bit patterns: zeros, infinities, NaNs with payloads, subnormals, random
            let bits = if *ty == Ty::F32 { 32 } else { 64 };
            let top: u64 = if bits == 32 { u32::MAX as u64 } else { u64::MAX };
            let sign = 1u64 << (bits - 1);
            let exp_all = if bits == 32 { 0x7f80_0000u64 } else { 0x7ff0_0000_0000_0000u64 };
            let v = match rng.below(10) {
                0 => 0,
                1 => sign,
                2 => exp_all,
                3 => exp_all | sign,
                4 => top,
                5 => top >> 1,
                6 => exp_all | 1 | if rng.bool() { sign } else { 0 },
                7 => 1 | if rng.bool() { sign } else { 0 },
                _ => rng.next_u64() & top,
            };
            v.to_string()
        }
        _ => gen_int(rng, ty, mode),
    }
}

/// operand text; `nullp`: 0 = no nulls, 1 = some, 2 = all null, 3 = all valid but buffer forced
fn gen_operand(rng: &mut Rng, ty: &Ty, len: usize, mode: u8, nullp: u8, gmode: u8) -> String {
    let nullp = if nullp == 255 { draw_nullp(rng) } else { nullp };
    let off = if rng.chance(1, 3) { *rng.pick(&[1usize, 3, 7, 8, 9, 63, 64, 65]) } else { 0 };
    let mut slots = vec![];
    let density = 1 + rng.below(6);
    for _ in 0..len {
        let null = match nullp {
            1 => rng.chance(1, density + 1),
            2 => true,
            _ => false,
        };
        if null {
            // garbage under the null: boundary-biased so that it would overflow / divide by zero if used
            slots.push(format!("n:{}", gen_item(rng, ty, gmode)));
        } else {
            slots.push(gen_item(rng, ty, mode));
        }
    }
    let kind = if nullp == 3 { 'N' } else { 'A' };
    format!("{}{}:{}", kind, off, if slots.is_empty() { "-".to_string() } else { slots.join(",") })
}

fn gen_scalar(rng: &mut Rng, ty: &Ty, mode: u8) -> String {
    if rng.chance(1, 12) { format!("S:n:{}", gen_item(rng, ty, 2)) } else { format!("S:{}", gen_item(rng, ty, mode)) }
}

fn gen_dec(rng: &mut Rng, bits: u16) -> Ty {
    let maxp: i64 = match bits {
        32 => 9,
        64 => 18,
        128 => 38,
        _ => 76,
    };
    let p = if rng.chance(1, 3) { maxp } else { rng.range(1, maxp) };
    let s = if rng.chance(1, 12) { rng.range(-6, -1) } else if rng.chance(1, 4) { p } else { rng.range(0, p) };
    Ty::Dec(bits, p as u8, s as i8)
}

/// a decimal value inside the declared precision (or, sometimes, any physical value)
fn gen_dec_item(rng: &mut Rng, ty: &Ty, mode: u8) -> String {
    let Ty::Dec(bits, p, _) = ty else { unreachable!() };
    if mode == 2 && rng.chance(1, 3) {
        return gen_int(rng, ty, 2);
    }
    // up to p digits
    let nd = if mode == 0 { 1 + rng.below(2) } else if rng.chance(1, 2) { *p as u64 } else { 1 + rng.below(*p as u64) };
    let mut s = String::new();
    for i in 0..nd {
        let d = if mode != 0 && rng.chance(1, 2) { 9 } else { rng.below(10) };
        if i == 0 && d == 0 && nd > 1 {
            s.push('1');
        } else {
            s.push((b'0' + d as u8) as char);
        }
    }
    let _ = bits;
    if rng.bool() && s != "0" { format!("-{}", s) } else { s }
}

fn gen_dec_operand(rng: &mut Rng, ty: &Ty, len: usize, mode: u8, nullp: u8) -> String {
    let nullp = if nullp == 255 { draw_nullp(rng) } else { nullp };
    let off = if rng.chance(1, 3) { *rng.pick(&[1usize, 7, 8, 9, 64, 65]) } else { 0 };
    let density = 1 + rng.below(6);
    let mut slots = vec![];
    for _ in 0..len {
        let null = match nullp {
            1 => rng.chance(1, density + 1),
            2 => true,
            _ => false,
        };
        if null { slots.push(format!("n:{}", gen_int(rng, ty, 2))) } else { slots.push(gen_dec_item(rng, ty, mode)) }
    }
    format!("{}{}:{}", if nullp == 3 { 'N' } else { 'A' }, off, if slots.is_empty() { "-".to_string() } else { slots.join(",") })
}

const INT_TYS: [Ty; 8] = [Ty::I8, Ty::I16, Ty::I32, Ty::I64, Ty::U8, Ty::U16, Ty::U32, Ty::U64];
const OPS: [&str; 8] = ["add", "sub", "mul", "div", "rem", "add_wrapping", "sub_wrapping", "mul_wrapping"];

fn draw_nullp(rng: &mut Rng) -> u8 {
    match rng.below(10) {
        0..=3 => 0,
        4..=7 => 1,
        8 => 2,
        _ => 3,
    }
}

/// replace the garbage under every null slot by zero (oracle: answers must not change)
fn zero_garbage(line: &str) -> String {
    line.split(' ')
        .map(|tok| {
            if !(tok.starts_with('A') || tok.starts_with('N') || tok.starts_with("S:")) || !tok.contains("n:") {
                return tok.to_string();
            }
            let (head, body) = tok.split_once(':').unwrap();
            let body = body
                .split(',')
                .map(|s| match s.strip_prefix("n:") {
                    Some(g) => format!("n:{}", g.split('/').map(|_| "0").collect::<Vec<_>>().join("/")),
                    None => s.to_string(),
                })
                .collect::<Vec<_>>()
                .join(",");
            format!("{}:{}", head, body)
        })
        .collect::<Vec<_>>()
        .join(" ")
}

fn operand_tags(l: &str) -> String {
    let mut t = String::new();
    if l.contains("n:") {
        t.push_str(" nulls");
    }
    if l.contains(" S:") {
        t.push_str(" scalar");
    }
    t
}

fn gen_arith_int(rng: &mut Rng) -> (String, String) {
    let ty = *rng.pick(&INT_TYS);
    // a different right-hand integer type is an invalid operation (no implicit coercion)
    let rt = if rng.chance(1, 40) { *rng.pick(&INT_TYS) } else { ty };
    let op = *rng.pick(&OPS);
    let mode = rng.below(3) as u8;
    let len = gen_len(rng);
    let shape = rng.below(8);
    let (l, r) = match shape {
        0 | 1 => (gen_operand(rng, &ty, len, mode, 255, 2), gen_scalar(rng, &rt, mode)),
        2 => (gen_scalar(rng, &ty, mode), gen_operand(rng, &rt, len, mode, 255, 2)),
        3 if rng.chance(1, 6) => (gen_scalar(rng, &ty, mode), gen_scalar(rng, &rt, mode)),
        4 if rng.chance(1, 10) => (gen_operand(rng, &ty, len, mode, 255, 2), gen_operand(rng, &rt, len + 1, mode, 255, 2)),
        _ => (gen_operand(rng, &ty, len, mode, 255, 2), gen_operand(rng, &rt, len, mode, 255, 2)),
    };
    let line = format!("C12 arith {} {} {} {} {}", op, show_ty(&ty), l, show_ty(&rt), r);
    let tags = format!("op:arith:{} ty:int{} mode:{}{}", op, if rt != ty { ":mixed" } else { "" }, mode, operand_tags(&line));
    (line, tags)
}

fn gen_arith_dec(rng: &mut Rng) -> (String, String) {
    let bits = *rng.pick(&[128u16, 128, 256, 256, 32, 64]);
    let lt = gen_dec(rng, bits);
    let rt = if rng.chance(1, 3) { lt } else { gen_dec(rng, bits) };
    let op = *rng.pick(&OPS);
    let mode = rng.below(3) as u8;
    let len = *rng.pick(&[0usize, 1, 1, 2, 3, 4, 7, 8, 9, 17, 33, 65]);
    let (l, r) = match rng.below(6) {
        0 => {
            let s = if rng.chance(1, 12) { format!("S:n:{}", gen_int(rng, &rt, 2)) } else { format!("S:{}", gen_dec_item(rng, &rt, mode)) };
            (gen_dec_operand(rng, &lt, len, mode, 255), s)
        }
        1 => {
            let s = format!("S:{}", gen_dec_item(rng, &lt, mode));
            (s, gen_dec_operand(rng, &rt, len, mode, 255))
        }
        _ => (gen_dec_operand(rng, &lt, len, mode, 255), gen_dec_operand(rng, &rt, len, mode, 255)),
    };
    let line = format!("C12 arith {} {} {} {} {}", op, show_ty(&lt), l, show_ty(&rt), r);
    let tags = format!("op:arith:{} ty:dec{} mode:{}{}", op, bits, mode, operand_tags(&line));
    (line, tags)
}

fn gen_arith_temporal(rng: &mut Rng) -> (String, String) {
    let u = rng.below(4) as u8;
    let u2 = if rng.chance(1, 10) { rng.below(4) as u8 } else { u };
    let ivs = [Ty::Iym, Ty::Idt, Ty::Imdn];
    let (lt, rt, ops): (Ty, Ty, &[&str]) = match rng.below(12) {
        0 => (Ty::Ts(u), Ty::Ts(u2), &["sub", "sub_wrapping", "add"]),
        1 => (Ty::Ts(u), Ty::Dur(u2), &["add", "sub", "add_wrapping", "sub_wrapping", "mul"]),
        2 => (Ty::Dur(u), Ty::Ts(u2), &["add", "add_wrapping", "sub"]),
        3 => (Ty::Dur(u), Ty::Dur(u2), &["add", "sub", "add_wrapping", "sub_wrapping", "mul", "div"]),
        4 => (Ty::Date32, Ty::Date32, &["sub", "sub_wrapping", "add"]),
        5 => (Ty::Date64, Ty::Date64, &["sub", "sub_wrapping", "add"]),
        6 | 7 => {
            let t = *rng.pick(&ivs);
            (t, t, &["add", "sub", "add_wrapping", "sub_wrapping", "mul"])
        }
        8 | 9 => (*rng.pick(&ivs), Ty::I64, &["mul", "mul", "mul", "mul_wrapping", "add"]),
        10 if rng.bool() => (Ty::I64, *rng.pick(&ivs), &["mul", "mul", "add"]),
        10 => {
            // Interval(MonthDayNano) x Float64: integral factors take the exact mul_i64 route
            let facts: [f64; 18] = [0.0, -0.0, 1.0, -1.0, 2.0, 3.0, -7.0, 1e6, 9007199254740992.0, 4611686018427387904.0, 9223372036854775808.0, -9223372036854775808.0, 0.5, 0.25, -0.5, 1.5, f64::INFINITY, f64::NAN];
            let mode = rng.below(2) as u8;
            let len = *rng.pick(&[0usize, 1, 2, 3, 9]);
            let iv = gen_operand(rng, &Ty::Imdn, len, mode, 255, 2);
            let fslots: Vec<String> = (0..len).map(|_| { let b = rng.pick(&facts).to_bits(); if rng.chance(1, 6) { format!("n:{}", b) } else { b.to_string() } }).collect();
            let fa = if rng.chance(1, 3) { format!("S:{}", rng.pick(&facts).to_bits()) } else { format!("A0:{}", if fslots.is_empty() { "-".to_string() } else { fslots.join(",") }) };
            let op = *rng.pick(&["mul", "mul", "div", "div", "add", "mul_wrapping"]);
            let swap = op == "mul" && rng.chance(1, 3);
            let line = if swap { format!("C12 arith {} f64 {} imdn {}", op, fa, iv) } else { format!("C12 arith {} imdn {} f64 {}", op, iv, fa) };
            return (line, format!("op:arith:{} ty:temporal:imdn:f64 nt", op));
        }
        _ => (*rng.pick(&[Ty::Date32, Ty::Date64, Ty::Dur(u), Ty::I32]), *rng.pick(&[Ty::Date64, Ty::Dur(u2), Ty::I64, Ty::Iym]), &["add", "sub", "mul"]),
    };
    let op = *rng.pick(ops);
    let mode = rng.below(3) as u8;
    let len = *rng.pick(&[0usize, 1, 2, 3, 5, 8, 9, 17, 65]);
    let (l, r) = match rng.below(5) {
        0 => (gen_operand(rng, &lt, len, mode, 255, 2), gen_scalar(rng, &rt, mode)),
        1 => (gen_scalar(rng, &lt, mode), gen_operand(rng, &rt, len, mode, 255, 2)),
        _ => (gen_operand(rng, &lt, len, mode, 255, 2), gen_operand(rng, &rt, len, mode, 255, 2)),
    };
    let line = format!("C12 arith {} {} {} {} {}", op, show_ty(&lt), l, show_ty(&rt), r);
    let tags = format!("op:arith:{} ty:temporal:{}:{} mode:{}{}", op, show_ty(&lt).split(':').next().unwrap(), show_ty(&rt).split(':').next().unwrap(), mode, operand_tags(&line));
    (line, tags)
}

/// cases aimed at the known finding: big in-precision operands whose rescaled intermediate
/// leaves the native width while the exact result fits
fn gen_arith_dec_kf(rng: &mut Rng) -> (String, String) {
    let bits = *rng.pick(&[128u16, 128, 256, 64, 32]);
    let maxp: u8 = match bits {
        32 => 9,
        64 => 18,
        128 => 38,
        _ => 76,
    };
    let digits = |rng: &mut Rng, n: usize, first: &[u8]| -> String {
        let mut s = String::new();
        for i in 0..n {
            let d = if i == 0 { *rng.pick(first) } else { rng.below(10) as u8 };
            s.push((b'0' + d) as char);
        }
        s
    };
    let sign = |rng: &mut Rng, s: String| if rng.bool() { format!("-{}", s) } else { s };
    let n = 1 + rng.usize(3);
    let (op, lt, rt, ls, rs): (&str, Ty, Ty, Vec<String>, Vec<String>) = match rng.below(4) {
        0 => {
            // div with equal scales: l*10^4 overflows for |l| > MAX/10^4, quotient is small
            let s = rng.below(maxp as u64 - 3) as i8;
            let ls = (0..n).map(|_| { let nd = maxp as usize - rng.usize(3); let d = digits(rng, nd, &[1, 2, 5, 9]); sign(rng, d) }).collect();
            let rs = (0..n).map(|_| { let nd = maxp as usize - rng.usize(6); let d = digits(rng, nd, &[1, 3, 9]); sign(rng, d) }).collect();
            ("div", Ty::Dec(bits, maxp, s), Ty::Dec(bits, maxp, s), ls, rs)
        }
        1 => {
            // div where the multiplier 10^(s2+4) itself exceeds the native width
            let s2 = maxp as i8 - rng.below(3) as i8;
            let ls = (0..n).map(|_| rng.range(-50, 50).to_string()).collect();
            let rs = (0..n).map(|_| { let nd = maxp as usize - rng.usize(2); let d = digits(rng, nd, &[1, 2, 9]); sign(rng, d) }).collect();
            ("div", Ty::Dec(bits, maxp, 0), Ty::Dec(bits, maxp, s2), ls, rs)
        }
        2 => {
            // rem with different scales: l*10^k overflows, the remainder is below |r|
            let k = 1 + rng.below(3) as i8;
            let ls = (0..n).map(|_| { let d = digits(rng, maxp as usize, &[2, 5, 9]); sign(rng, d) }).collect();
            let rs = (0..n).map(|_| { let nd = 1 + rng.usize(maxp as usize); let d = digits(rng, nd, &[1, 3, 7]); sign(rng, d) }).collect();
            ("rem", Ty::Dec(bits, maxp, 0), Ty::Dec(bits, maxp, k), ls, rs)
        }
        _ => {
            // add/sub with different scales: l*10 just beyond MAX, r pulls the sum back into range
            let half = BigInt::from(1) << (bits as usize - 1);
            let base = &half / BigInt::from(10) + BigInt::from(1 + rng.below(1000));
            let add = rng.bool();
            let ls: Vec<String> = (0..n).map(|_| base.to_string()).collect();
            let rs: Vec<String> = (0..n)
                .map(|_| {
                    let d = digits(rng, maxp as usize, &[5, 9]);
                    if add { format!("-{}", d) } else { d }
                })
                .collect();
            (if add { "add" } else { "sub" }, Ty::Dec(bits, maxp, 0), Ty::Dec(bits, maxp, 1), ls, rs)
        }
    };
    let fmt = |rng: &mut Rng, ty: &Ty, v: &Vec<String>, scalar_ok: bool| -> String {
        if scalar_ok && rng.chance(1, 5) {
            return format!("S:{}", v[0]);
        }
        let mut slots: Vec<String> = v.clone();
        if rng.chance(1, 3) {
            slots.push(format!("n:{}", gen_int(rng, ty, 2)));
        }
        let off = if rng.chance(1, 4) { *rng.pick(&[1usize, 8, 9]) } else { 0 };
        format!("A{}:{}", off, slots.join(","))
    };
    let l = fmt(rng, &lt, &ls, false);
    let mut r = fmt(rng, &rt, &rs, true);
    // keep array lengths equal
    let (ll, rl) = (l.matches(',').count(), r.matches(',').count());
    if !r.starts_with("S:") && ll != rl {
        r = format!("A0:{}", rs.join(","));
        if ll > rl {
            r.push_str(&format!(",n:{}", gen_int(rng, &rt, 2)));
        }
    }
    let line = format!("C12 arith {} {} {} {} {}", op, show_ty(&lt), l, show_ty(&rt), r);
    let tags = format!("op:arith:{} ty:dec{} mode:kf{}", op, bits, operand_tags(&line));
    (line, tags)
}

fn gen_bitw(rng: &mut Rng) -> (String, String) {
    let ty = *rng.pick(&INT_TYS);
    let mode = rng.below(3) as u8;
    let len = gen_len(rng);
    let a = gen_operand(rng, &ty, len, mode.max(1), 255, 2);
    match rng.below(3) {
        0 => (format!("C12 bitw not {} {}", show_ty(&ty), a), "op:bitw:not nt".into()),
        1 => {
            let f = *rng.pick(&["and", "or", "xor", "shl", "shr"]);
            let sv = if f.starts_with("sh") { gen_shift(rng, &ty) } else { gen_int(rng, &ty, 2) };
            (format!("C12 bitws {} {} {} {}", f, show_ty(&ty), a, sv), format!("op:bitws:{} nt", f))
        }
        _ => {
            let f = *rng.pick(&["and", "or", "xor", "shl", "shr", "andnot"]);
            let blen = if rng.chance(1, 30) { len + 1 } else { len };
            let b = if f.starts_with("sh") {
                let slots: Vec<String> = (0..blen).map(|_| if rng.chance(1, 6) { format!("n:{}", gen_shift(rng, &ty)) } else { gen_shift(rng, &ty) }).collect();
                format!("A0:{}", if slots.is_empty() { "-".to_string() } else { slots.join(",") })
            } else {
                gen_operand(rng, &ty, blen, 2, 255, 2)
            };
            (format!("C12 bitw {} {} {} {}", f, show_ty(&ty), a, b), format!("op:bitw:{} nt", f))
        }
    }
}

/// shift amounts around 0, width-1, width, beyond, negative (signed types)
fn gen_shift(rng: &mut Rng, ty: &Ty) -> String {
    let (lo, hi) = bounds(ty);
    let w: i128 = match ty {
        Ty::I8 | Ty::U8 => 8,
        Ty::I16 | Ty::U16 => 16,
        Ty::I32 | Ty::U32 => 32,
        _ => 64,
    };
    let v: i128 = match rng.below(8) {
        0 => 0,
        1 => 1,
        2 => w - 1,
        3 => w,
        4 => w + 1,
        5 => hi,
        6 => lo,
        _ => rng.range(-70, 200) as i128,
    };
    v.clamp(lo, hi).to_string()
}

const NAT_TYS: [&str; 10] = ["i8", "i16", "i32", "i64", "i128", "i256", "u8", "u16", "u32", "u64"];
fn nat_ty(name: &str) -> Ty {
    match name {
        "i128" => Ty::Dec(128, 38, 0),
        "i256" => Ty::Dec(256, 76, 0),
        n => parse_ty(n),
    }
}

fn gen_nat(rng: &mut Rng) -> (String, String) {
    let tn = *rng.pick(&NAT_TYS);
    let ty = nat_ty(tn);
    let m = *rng.pick(&["addc", "subc", "mulc", "divc", "modc", "negc", "powc", "addw", "subw", "mulw", "divw", "modw", "negw", "poww", "cmp", "iszero"]);
    let a = gen_int(rng, &ty, 2);
    let b = if m.starts_with("pow") {
        (if rng.chance(1, 2) { rng.below(8) } else { *rng.pick(&[0u64, 1, 2, 7, 8, 31, 32, 63, 64, 127, 128, 255, 256]) }).to_string()
    } else {
        gen_int(rng, &ty, 2)
    };
    let a = if m.starts_with("pow") && rng.chance(2, 3) { (rng.range(-11, 11) as i128).clamp(bounds(&ty).0, bounds(&ty).1).to_string() } else { a };
    (format!("C12 nat {} {} {} {}", m, tn, a, b), format!("op:nat:{} ty:{} nt", m, tn))
}

fn gen_ival(rng: &mut Rng) -> (String, String) {
    let (tn, ty) = if rng.bool() { ("idt", Ty::Idt) } else { ("imdn", Ty::Imdn) };
    let m = *rng.pick(&["wadd", "wsub", "wmul", "wdiv", "wrem", "wneg", "wabs", "wpow", "cadd", "csub", "cmul", "cdiv", "crem", "cneg", "cabs", "cpow"]);
    let mode = 1 + rng.below(2) as u8;
    let a = gen_item(rng, &ty, mode);
    let b = if m.ends_with("pow") { rng.below(6).to_string() } else { gen_item(rng, &ty, mode) };
    (format!("C12 ival {} {} {} {}", m, tn, a, b), format!("op:ival:{} nt", m))
}

fn gen_agg2(rng: &mut Rng) -> (String, String) {
    let ty = *rng.pick(&[Ty::I8, Ty::I32, Ty::I64, Ty::U8]);
    let f = *rng.pick(&["sum", "sumc", "min", "max"]);
    let mode = rng.below(3) as u8;
    let nv = 1 + rng.usize(6);
    let vnull = *rng.pick(&[0u8, 0, 1, 1, 2]);
    let mut vals = gen_operand(rng, &ty, nv, mode, vnull, 2);
    if rng.bool() {
        // dictionary: keys with nulls, duplicates and unused entries
        let nk = *rng.pick(&[0usize, 1, 2, 3, 5, 8, 9, 17, 65]);
        let knull = *rng.pick(&[0u8, 0, 1, 2]);
        let keys: Vec<String> = (0..nk)
            .map(|_| {
                let k = rng.usize(nv);
                let null = knull == 2 || (knull == 1 && rng.chance(1, 3));
                if null { format!("n:{}", k) } else { k.to_string() }
            })
            .collect();
        let koff = if rng.chance(1, 3) { *rng.pick(&[1usize, 8, 9]) } else { 0 };
        if koff > 0 && nk == 0 {
            vals = vals.clone();
        }
        let line = format!("C12 agg2 {} {} {} dict A{}:{}", f, show_ty(&ty), vals, koff, if keys.is_empty() { "-".to_string() } else { keys.join(",") });
        (line, format!("op:agg2:dict:{} nt", f))
    } else {
        // run-end encoded: strictly increasing run ends, sliced
        let vals = { let v = gen_operand(rng, &ty, nv, mode, vnull, 2); v.replacen(&v[..v.find(':').unwrap()], "A0", 1) };
        let mut ends = vec![];
        let mut e = 0i32;
        for _ in 0..nv {
            e += *rng.pick(&[1i32, 1, 2, 3, 7, 64, 130, 200]);
            ends.push(e);
        }
        let total = e as usize;
        let off = if rng.bool() { 0 } else { rng.usize(total) };
        let len = if rng.chance(1, 2) { total - off } else { rng.usize(total - off + 1) };
        let line = format!("C12 agg2 {} {} {} ree {} {} {}", f, show_ty(&ty), vals, show_list(&ends), off, len);
        (line, format!("op:agg2:ree:{} nt", f))
    }
}

fn gen_aggs(rng: &mut Rng) -> (String, String) {
    let kind = *rng.pick(&["bin", "lbin", "binv", "utf8", "lutf8", "utf8v", "fsb:2", "fsb:13"]);
    let f = if rng.bool() { "min" } else { "max" };
    let n = *rng.pick(&[0usize, 1, 2, 3, 5, 9, 17]);
    let ascii = kind.contains("utf8");
    let items: Vec<String> = (0..n)
        .map(|_| {
            if rng.chance(1, 4) {
                return "n".to_string();
            }
            let l = if let Some(w) = kind.strip_prefix("fsb:") { w.parse().unwrap() } else { *rng.pick(&[0usize, 1, 2, 3, 11, 12, 13, 14, 20]) };
            // shared prefixes so that the comparison reaches late bytes / the length tie-break
            let b: Vec<u8> = (0..l).map(|i| if i < 11 && rng.chance(3, 4) { b'a' } else if ascii { b'a' + rng.below(3) as u8 } else { *rng.pick(&[0u8, 1, 0x61, 0x7f, 0x80, 0xff]) }).collect();
            format!("x{}", if b.is_empty() { String::new() } else { hex(&b) })
        })
        .collect();
    (format!("C12 aggs {} {} {}", f, kind, if items.is_empty() { "-".to_string() } else { items.join(",") }), format!("op:aggs:{}:{} nt", f, kind.split(':').next().unwrap()))
}

fn gen_arity(rng: &mut Rng) -> (String, String) {
    let f = *rng.pick(&["unary_mut", "try_unary_mut", "binary_mut", "try_binary_mut"]);
    let mode = rng.below(3) as u8;
    let len = gen_len(rng);
    let a = gen_operand(rng, &Ty::I32, len, mode, 255, 2);
    if f.contains("binary") {
        let blen = if rng.chance(1, 30) { len + 1 } else { len };
        let b = gen_operand(rng, &Ty::I32, blen, mode, 255, 2);
        (format!("C12 arity {} {} {}", f, a, b), format!("op:arity:{} nt", f))
    } else {
        (format!("C12 arity {} {}", f, a), format!("op:arity:{} nt", f))
    }
}

fn gen_fixp(rng: &mut Rng) -> (String, String) {
    let f = *rng.pick(&["mfp", "mfpc", "mfpd"]);
    let lt = gen_dec(rng, 128);
    let rt = gen_dec(rng, 128);
    let (Ty::Dec(_, _, s1), Ty::Dec(_, _, s2)) = (lt, rt) else { unreachable!() };
    let ps = s1 as i64 + s2 as i64;
    let req = if rng.chance(1, 12) { ps + 1 } else if rng.chance(1, 3) { ps } else { (ps - rng.range(1, 12)).max(-3) };
    let mode = rng.below(3) as u8;
    let len = *rng.pick(&[0usize, 1, 2, 3, 8, 9]);
    let l = gen_dec_operand(rng, &lt, len, mode, 255);
    let r = gen_dec_operand(rng, &rt, len, mode, 255);
    (format!("C12 fixp {} {} {} {} {} {}", f, show_ty(&lt), l, show_ty(&rt), r, req), format!("op:fixp:{} nt", f))
}

fn gen_decv(rng: &mut Rng) -> (String, String) {
    let bits = *rng.pick(&[32u16, 64, 128, 256]);
    let maxp: u32 = match bits { 32 => 9, 64 => 18, 128 => 38, _ => 76 };
    let p = if rng.chance(1, 10) { maxp + 1 + rng.below(3) as u32 } else { 1 + rng.below(maxp as u64) as u32 };
    // digit count = precision boundary: ±(10^p - 1), ±10^p
    let pw = pow10(p.min(maxp));
    let v: BigInt = match rng.below(6) {
        0 => pw.clone() - 1,
        1 => pw.clone(),
        2 => -pw.clone() + 1,
        3 => -pw.clone(),
        4 => BigInt::from(0),
        _ => big(&gen_int(rng, &Ty::Dec(bits, maxp as u8, 0), 2)),
    };
    let v = if fits(&v, bits) { v } else { BigInt::from(7) };
    (format!("C12 decv {} {} {}", bits, p, v), format!("op:decv:{} nt", bits))
}

fn gen_neg(rng: &mut Rng) -> (String, String) {
    let ty = match rng.below(8) {
        0..=2 => *rng.pick(&INT_TYS),
        3 => {
            let b = *rng.pick(&[32u16, 64, 128, 256]);
            gen_dec(rng, b)
        }
        4 => Ty::Dur(rng.below(4) as u8),
        5 => *rng.pick(&[Ty::Iym, Ty::Idt, Ty::Imdn]),
        6 => *rng.pick(&[Ty::F32, Ty::F64]),
        _ => *rng.pick(&[Ty::Date32, Ty::Ts(0), Ty::I8, Ty::I64]),
    };
    let w = rng.chance(1, 3);
    let mode = rng.below(3) as u8;
    let len = gen_len(rng);
    let a = gen_operand(rng, &ty, len, mode, 255, 2);
    let line = format!("C12 {} {} {}", if w { "neg_wrapping" } else { "neg" }, show_ty(&ty), a);
    let tags = format!("op:{} ty:{} mode:{}{}", if w { "neg_wrapping" } else { "neg" }, show_ty(&ty).split(':').next().unwrap(), mode, operand_tags(&line));
    (line, tags)
}

fn gen_agg(rng: &mut Rng) -> (String, String) {
    let (ty, fns): (Ty, &[&str]) = match rng.below(10) {
        0..=4 => (*rng.pick(&INT_TYS), &["sum", "sumc", "min", "max", "band", "bor", "bxor", "prod", "prodc"]),
        5 => (Ty::Dec(128, 38, 0), &["sum", "sumc", "min", "max", "band", "bor", "bxor"]),
        6 => (Ty::Dec(256, 76, 0), &["sum", "sumc", "min", "max", "band", "bor", "bxor"]),
        7 => (*rng.pick(&[Ty::Dec(32, 9, 0), Ty::Dec(64, 18, 0), Ty::Date32, Ty::Date64]), &["sum", "sumc", "min", "max"]),
        _ => (*rng.pick(&[Ty::F32, Ty::F64]), &["min", "max"]),
    };
    let f = *rng.pick(fns);
    let mode = rng.below(3) as u8;
    let len = if rng.chance(1, 8) { 130 + rng.usize(130) } else { gen_len(rng) };
    let a = gen_operand(rng, &ty, len, mode, 255, 2);
    let line = format!("C12 agg {} {} {}", f, show_ty(&ty), a);
    let tags = format!("op:agg:{} ty:{} mode:{}{}", f, show_ty(&ty).split(':').next().unwrap(), mode, operand_tags(&line));
    (line, tags)
}

fn gen_boolarr(rng: &mut Rng, len: usize, nulls: bool) -> String {
    let off = if rng.chance(1, 2) { *rng.pick(&[1usize, 3, 7, 8, 9, 63, 64, 65, 127]) } else { 0 };
    let cls = rng.below(4);
    let bits = |rng: &mut Rng, cls: u64| -> Vec<bool> {
        (0..len)
            .map(|_| match cls {
                0 => true,
                1 => false,
                2 => rng.chance(1, 20),
                _ => rng.bool(),
            })
            .collect()
    };
    let v = bits(rng, cls);
    let ncls = *rng.pick(&[0u64, 3, 3, 2, 1]);
    let n = if nulls { show_bits(&bits(rng, ncls)) } else { "-".to_string() };
    format!("B{}:{}:{}", off, show_bits(&v), if len == 0 && nulls { "-".to_string() } else { n })
}

fn gen_bool(rng: &mut Rng) -> (String, String) {
    let len = if rng.chance(1, 5) { 130 + rng.usize(200) } else { gen_len(rng) };
    match rng.below(8) {
        0 => {
            let hn = rng.bool();
            let a = gen_boolarr(rng, len, hn);
            let f = *rng.pick(&["not", "not", "is_null", "is_not_null"]);
            (format!("C12 bool {} {}", f, a), format!("op:bool:{} {}", f, if len > 0 { "nt" } else { "" }))
        }
        1 => {
            let f = *rng.pick(&["and", "or", "min", "max"]);
            let hn = rng.bool();
            let a = gen_boolarr(rng, len, hn);
            (format!("C12 bagg {} {}", f, a), format!("op:bagg:{} {}", f, if len > 0 { "nt" } else { "" }))
        }
        _ => {
            let op = *rng.pick(&["and_kleene", "or_kleene", "and_kleene", "or_kleene", "and", "or", "and_not"]);
            let (ln, rn) = (rng.chance(2, 3), rng.chance(2, 3));
            let l = gen_boolarr(rng, len, ln);
            let rlen = if rng.chance(1, 40) { len + 1 } else { len };
            let r = gen_boolarr(rng, rlen, rn);
            (
                format!("C12 bool {} {} {}", op, l, r),
                format!("op:bool:{} nulls:{}{} {}", op, ln as u8, rn as u8, if len > 0 { "nt" } else { "" }),
            )
        }
    }
}

fn gen_i256_case(rng: &mut Rng) -> (String, String) {
    let ms = ["wadd", "wsub", "wmul", "wdiv", "wrem", "cadd", "csub", "cmul", "cmul", "cmul", "cdiv", "crem", "cmp", "wneg", "cneg", "wabs", "cabs", "toi128", "tostr", "cpow", "wpow", "fromi128", "str"];
    let m = *rng.pick(&ms);
    let a = gen_i256(rng, 2);
    let mut b = gen_i256(rng, 2);
    let p = |x: i256| {
        let (l, h) = x.to_parts();
        format!("{} {}", l, h)
    };
    match m {
        "str" => {
            // decimal strings around the boundaries and malformed ones
            let mut s = match rng.below(8) {
                0 => show_i256v(a),
                1 => format!("+{}", show_i256v(a).trim_start_matches('-')),
                2 => {
                    // beyond the range
                    let base = "57896044618658097711785492504343953926634992332820282019728792003956564819968";
                    let mut d = base.to_string();
                    if rng.bool() {
                        d.pop();
                        d.push(*rng.pick(&['7', '8', '9']));
                    } else if rng.bool() {
                        d.push('0');
                    }
                    if rng.bool() { format!("-{}", d) } else { d }
                }
                3 => {
                    let z = "0".repeat(rng.usize(60));
                    let v = show_i256v(a);
                    if let Some(r) = v.strip_prefix('-') { format!("-{}{}", z, r) } else { format!("{}{}", z, v) }
                }
                4 => {
                    // lengths around the 38-digit chunking
                    let n = *rng.pick(&[1usize, 37, 38, 39, 40, 75, 76, 77, 78]);
                    let mut d: String = (0..n).map(|_| (b'0' + rng.below(10) as u8) as char).collect();
                    if rng.bool() {
                        d = format!("-{}", d);
                    }
                    d
                }
                5 => (*rng.pick(&["", "+", "-", "+-5", "--5", "-+5", "00", "-0", "+0", "1a", "a1", "1-2", "0x10"])).to_string(),
                _ => {
                    // corrupt one character of a valid long number
                    let mut v: Vec<u8> = show_i256v(a).into_bytes();
                    let i = rng.usize(v.len());
                    v[i] = *rng.pick(&[b'+', b'-', b'a', b'9', b'0']);
                    String::from_utf8(v).unwrap()
                }
            };
            if s.contains(' ') {
                s = "1".into();
            }
            (format!("C12 i256str ={}", s), "op:i256:fromstr nt".into())
        }
        "fromi128" => {
            let v = gen_int(rng, &Ty::Dec(128, 38, 0), 2);
            (format!("C12 i256 fromi128 {}", v), "op:i256:fromi128 nt".into())
        }
        "cpow" | "wpow" => {
            let base = if rng.chance(2, 3) { i256::from_i128(rng.range(-12, 12) as i128) } else { a };
            let e = if rng.chance(1, 2) { rng.below(10) } else { *rng.pick(&[0u64, 1, 2, 63, 64, 76, 77, 127, 128, 254, 255, 256, 257, 1000]) };
            (format!("C12 i256 {} {} {}", m, p(base), e), format!("op:i256:{} nt", m))
        }
        "wneg" | "cneg" | "wabs" | "cabs" | "toi128" | "tostr" => (format!("C12 i256 {} {}", m, p(a)), format!("op:i256:{} nt", m)),
        _ => {
            if (m == "wdiv" || m == "wrem" || m == "cdiv" || m == "crem") && rng.chance(1, 2) {
                // small divisors exercise the single-digit path of the long division
                b = i256::from_i128(rng.range(-1000, 1000) as i128);
            }
            if m == "cmul" && rng.chance(1, 2) {
                // products near ±2^255: a · b with b ≈ 2^255 / a
                let small = i256::from_i128((rng.next_u64() >> rng.below(63)) as i128 * if rng.bool() { -1 } else { 1 });
                if small != i256::ZERO {
                    let q = if rng.bool() { i256::MAX } else { i256::MIN }.wrapping_div(small);
                    let delta = i256::from_i128(rng.range(-2, 2) as i128);
                    return (format!("C12 i256 cmul {} {}", p(small), p(q.wrapping_add(delta))), "op:i256:cmul nearmax nt".into());
                }
            }
            if m == "cmp" && rng.chance(1, 4) {
                b = a;
            }
            (format!("C12 i256 {} {} {}", m, p(a), p(b)), format!("op:i256:{} nt", m))
        }
    }
}

fn gen_case(rng: &mut Rng) -> (String, String) {
    match rng.below(20) {
        0..=4 => gen_arith_int(rng),
        5 if rng.chance(3, 4) => gen_arith_dec_kf(rng),
        5..=7 => gen_arith_dec(rng),
        8..=9 => gen_arith_temporal(rng),
        10 => gen_neg(rng),
        11..=13 => gen_agg(rng),
        14..=15 => gen_bool(rng),
        16 => match rng.below(9) {
            0 | 1 => gen_bitw(rng),
            2 | 3 => gen_nat(rng),
            4 => gen_ival(rng),
            5 => gen_agg2(rng),
            6 => gen_aggs(rng),
            7 => gen_arity(rng),
            _ => if rng.bool() { gen_fixp(rng) } else { gen_decv(rng) },
        },
        _ => gen_i256_case(rng),
    }
}

/// exhaustive i8 / u8 operand pairs (a test of the tie, thorough tier): wrapping ops packed as
/// array ∘ scalar, checked ops packed for the pairs expected to succeed and one length-1 case
/// per pair expected to fail
fn exhaustive8(sink: &mut Sink) {
    for ty in [Ty::I8, Ty::U8] {
        let (lo, hi) = bounds(&ty);
        let all: Vec<i128> = (lo..=hi).collect();
        let tys = show_ty(&ty);
        for op in OPS {
            for &a in &all {
                let exact = |b: i128| -> Option<i128> {
                    match op {
                        "add" => Some(a + b),
                        "sub" => Some(a - b),
                        "mul" => Some(a * b),
                        "div" => if b == 0 { None } else { Some(a / b) },
                        "rem" => if b == 0 { None } else { Some(a % b) },
                        _ => Some(0),
                    }
                };
                let fits = |b: i128| exact(b).map(|v| v >= lo && v <= hi).unwrap_or(false);
                let okb: Vec<String> = all.iter().filter(|b| fits(**b)).map(|b| b.to_string()).collect();
                let line = format!("C12 arith {} {} S:{} {} A0:{}", op, tys, a, tys, show_list(&okb));
                let ans = run_case(&line);
                sink.case(line, ans, &format!("exhaustive8 op:arith:{} nt", op));
                for &b in all.iter().filter(|b| !fits(**b)) {
                    let line = format!("C12 arith {} {} A0:{} {} A0:{}", op, tys, a, tys, b);
                    let ans = run_case(&line);
                    sink.case(line, ans, &format!("exhaustive8 op:arith:{} nt", op));
                }
            }
        }
        let alls: Vec<String> = all.iter().map(|b| b.to_string()).collect();
        for op in ["neg", "neg_wrapping"] {
            for b in &alls {
                let line = format!("C12 {} {} A0:{}", op, tys, b);
                let ans = run_case(&line);
                sink.case(line, ans, &format!("exhaustive8 op:{} nt", op));
            }
        }
    }
}

/// DENSE deterministic block, generated in every run (a corpus in code): representation
/// boundaries, layout classes (payload bits 0/1 under nulls on each side, offsets, buffer
/// present/absent), lane / 64-slot boundaries, both operand entry points (array / Scalar).
fn fixed_block(sink: &mut Sink) {
    let emit = |sink: &mut Sink, line: String, tags: &str| {
        let a = run_case(&line);
        let mut tags = format!("{} fixed nt", tags);
        if kf_decimal(&line) {
            tags.push(' ');
            tags.push_str(KF_DEC);
        }
        if let Some(k) = kf_agg2(&line) {
            tags.push(' ');
            tags.push_str(k);
        }
        sink.case(line, a, &tags);
    };
    // ---- boolean kernels: every arm (null buffer absent/present per side) x every logical pair x
    //      payload bit 0 and 1 under each null, at offsets 0 / 3 / 65 and lengths 16 / 80 / 144
    //      slot states: 0 = valid false, 1 = valid true, 2 = null payload 0, 3 = null payload 1
    let states = |has_nulls: bool| -> Vec<u8> { if has_nulls { vec![0, 1, 2, 3] } else { vec![0, 1] } };
    for op in ["and_kleene", "or_kleene", "and", "or", "and_not"] {
        for (ln, rn) in [(false, false), (true, false), (false, true), (true, true)] {
            let (ls, rs) = (states(ln), states(rn));
            let mut lv = vec![];
            let mut lm = vec![];
            let mut rv = vec![];
            let mut rm = vec![];
            for a in &ls {
                for b in &rs {
                    lv.push(a & 1 == 1);
                    lm.push(*a < 2);
                    rv.push(b & 1 == 1);
                    rm.push(*b < 2);
                }
            }
            for reps in [1usize, 5, 9] {
                for (lo, ro) in [(0usize, 0usize), (3, 0), (0, 65), (65, 3)] {
                    let rep = |v: &Vec<bool>| -> Vec<bool> { v.iter().cycle().take(v.len() * reps).cloned().collect() };
                    let l = format!("B{}:{}:{}", lo, show_bits(&rep(&lv)), if ln { show_bits(&rep(&lm)) } else { "-".into() });
                    let r = format!("B{}:{}:{}", ro, show_bits(&rep(&rv)), if rn { show_bits(&rep(&rm)) } else { "-".into() });
                    emit(sink, format!("C12 bool {} {} {}", op, l, r), &format!("op:bool:{} arm:{}{} payload:both", op, ln as u8, rn as u8));
                }
            }
        }
    }
    for op in ["not", "is_null", "is_not_null"] {
        for off in [0usize, 3, 65] {
            for reps in [1usize, 20, 36] {
                let v: Vec<bool> = [false, true, false, true].iter().cycle().take(4 * reps).cloned().collect();
                let m: Vec<bool> = [true, true, false, false].iter().cycle().take(4 * reps).cloned().collect();
                emit(sink, format!("C12 bool {} B{}:{}:{}", op, off, show_bits(&v), show_bits(&m)), &format!("op:bool:{} payload:both", op));
                emit(sink, format!("C12 bool {} B{}:{}:-", op, off, show_bits(&v)), &format!("op:bool:{} arm:nonulls", op));
            }
        }
        for f in ["and", "or", "min", "max"] {
            // all-true / all-false / single exception at the first, 64th, 65th, last slot, garbage under nulls
            for n in [1usize, 63, 64, 65, 128, 129] {
                for exc in [None, Some(0usize), Some(n - 1), Some(n / 2)] {
                    for base in [false, true] {
                        let mut v = vec![base; n];
                        if let Some(i) = exc {
                            v[i] = !base;
                        }
                        if op == "not" {
                            emit(sink, format!("C12 bagg {} B{}:{}:-", f, if n % 2 == 0 { 0 } else { 5 }, show_bits(&v)), "op:bagg boundary");
                            // the exception hidden under a null: must not count
                            if let Some(i) = exc {
                                let mut m = vec![true; n];
                                m[i] = false;
                                emit(sink, format!("C12 bagg {} B{}:{}:{}", f, if n % 2 == 0 { 3 } else { 0 }, show_bits(&v), show_bits(&m)), "op:bagg boundary payload:both");
                            }
                        }
                    }
                }
            }
        }
    }
    // ---- integer kernels: every pair of boundary operands, both entry points, and under nulls
    for ty in INT_TYS {
        let (lo, hi) = bounds(&ty);
        let mut bs: Vec<i128> = vec![lo, lo + 1, -1, 0, 1, 2, hi / 2, hi / 2 + 1, hi - 1, hi];
        bs.retain(|v| *v >= lo && *v <= hi);
        bs.dedup();
        let tn = show_ty(&ty);
        for op in OPS {
            for (i, a) in bs.iter().enumerate() {
                for (j, b) in bs.iter().enumerate() {
                    let shape = (i + j) % 4;
                    let line = match shape {
                        0 => format!("C12 arith {} {} A0:{} {} A0:{}", op, tn, a, tn, b),
                        1 => format!("C12 arith {} {} A0:{},{} {} S:{}", op, tn, a, a, tn, b),
                        2 => format!("C12 arith {} {} S:{} {} A3:{}", op, tn, a, tn, b),
                        _ => format!("C12 arith {} {} N0:{} {} N9:{}", op, tn, a, tn, b),
                    };
                    emit(sink, line, &format!("op:arith:{} ty:int boundary-pair shape:{}", op, shape));
                }
            }
            // the same pairs as payload under a null slot next to a harmless valid slot
            if op == "div" || op == "rem" || op == "add" || op == "mul" {
                for a in &bs {
                    for b in [lo, -1i128, 0, hi] {
                        if b < lo {
                            continue;
                        }
                        let one = 1i128.clamp(lo, hi);
                        emit(sink, format!("C12 arith {} {} A0:n:{},{} {} S:{}", op, tn, a, one, tn, b), &format!("op:arith:{} ty:int payload-under-null scalar", op));
                        emit(sink, format!("C12 arith {} {} A1:{},{} {} A0:n:{},{}", op, tn, a, one, tn, b, one), &format!("op:arith:{} ty:int payload-under-null", op));
                    }
                }
            }
        }
        for op in ["neg", "neg_wrapping"] {
            for a in &bs {
                emit(sink, format!("C12 {} {} A0:{},n:{}", op, tn, a, lo), &format!("op:{} boundary", op));
            }
        }
        // ArrowNativeTypeOp methods on the boundary pairs
        for m in ["divc", "modc", "divw", "modw", "mulc", "mulw", "cmp"] {
            for a in &bs {
                for b in [lo, -1i128, 0, 1, hi] {
                    if b >= lo {
                        emit(sink, format!("C12 nat {} {} {} {}", m, tn, a, b), &format!("op:nat:{} boundary", m));
                    }
                }
            }
        }
    }
    // ---- aggregates: lane / 64-slot boundaries x null layouts (garbage = extreme value under every null)
    for ty in [Ty::I8, Ty::I16, Ty::I32, Ty::I64, Ty::U8, Ty::U64, Ty::Dec(128, 38, 0)] {
        let (lo, hi) = bounds(&ty);
        let tn = show_ty(&ty);
        for n in [1usize, 2, 7, 8, 9, 15, 16, 17, 31, 32, 33, 63, 64, 65, 127, 128, 129, 191, 193] {
            for layout in 0..6 {
                // 0 no nulls, 1 first null, 2 last null, 3 every other, 4 all but the last, 5 buffer present/no nulls
                let slots: Vec<String> = (0..n)
                    .map(|i| {
                        let v: i128 = match i % 5 {
                            0 => 3,
                            1 => (-2i128).max(lo),
                            2 => 1,
                            3 => if i % 2 == 0 { hi / 64 } else { lo / 64 },
                            _ => 0,
                        };
                        let null = match layout {
                            1 => i == 0,
                            2 => i == n - 1,
                            3 => i % 2 == 1,
                            4 => i != n - 1,
                            _ => false,
                        };
                        if null { format!("n:{}", if i % 2 == 0 { hi } else { lo }) } else { v.to_string() }
                    })
                    .collect();
                let head = if layout == 5 { "N0" } else if n % 3 == 0 { "A9" } else { "A0" };
                for f in ["sum", "sumc", "min", "max", "prod", "band", "bor", "bxor"] {
                    if n > 65 && (f == "prod" || f.starts_with('b')) {
                        continue;
                    }
                    emit(sink, format!("C12 agg {} {} {}:{}", f, tn, head, slots.join(",")), &format!("op:agg:{} lane-boundary layout:{}", f, layout));
                }
            }
        }
    }
    // ---- dictionary / run-end-encoded entry points of the aggregates
    for f in ["sum", "sumc", "min", "max"] {
        emit(sink, format!("C12 agg2 {} i32 A0:5,n:-100,7 dict A0:0,1,2", f), "op:agg2:dict dict-null-value");
        emit(sink, format!("C12 agg2 {} i32 A0:n:9,n:9 dict A0:0,1", f), "op:agg2:dict dict-all-values-null");
        emit(sink, format!("C12 agg2 {} i32 A0:5,6,7 dict A0:2,2,n:0,0", f), "op:agg2:dict dict-dup-unused");
        emit(sink, format!("C12 agg2 {} i32 A0:5,6,7 dict A0:n:0,n:1", f), "op:agg2:dict dict-all-keys-null");
        emit(sink, format!("C12 agg2 {} i32 A0:10,20 ree 5,10 6 2", f), "op:agg2:ree ree-sliced");
        emit(sink, format!("C12 agg2 {} i32 A0:10,20 ree 5,10 0 10", f), "op:agg2:ree ree-full");
        emit(sink, format!("C12 agg2 {} i32 A0:10,n:7,20 ree 5,10,12 0 11", f), "op:agg2:ree ree-null-run");
        emit(sink, format!("C12 agg2 {} i8 A0:-100,50 ree 1,4 0 4", f), "op:agg2:ree ree-run-product");
        emit(sink, format!("C12 agg2 {} i8 A0:0,1 ree 200,201 0 201", f), "op:agg2:ree ree-long-run");
    }
    // ---- decimals: digit count = precision, both signs, equal / different scales
    for (bits, p) in [(32u16, 9u32), (64, 18), (128, 38), (256, 76)] {
        let top: BigInt = pow10(p) - BigInt::from(1);
        for (a, b) in [(top.clone(), BigInt::from(1)), (top.clone(), top.clone()), (-top.clone(), -top.clone()), (top.clone(), -top.clone()), (BigInt::from(0), top.clone())] {
            for op in ["add", "sub", "mul", "div", "rem"] {
                emit(sink, format!("C12 arith {} d{}:{}:0 A0:{} d{}:{}:0 A0:{}", op, bits, p, a, bits, p, b), &format!("op:arith:{} ty:dec{} precision-boundary", op, bits));
                emit(sink, format!("C12 arith {} d{}:{}:2 A0:{} d{}:{}:0 S:{}", op, bits, p, a, bits, p, b), &format!("op:arith:{} ty:dec{} precision-boundary scalar", op, bits));
            }
            emit(sink, format!("C12 decv {} {} {}", bits, p, a), "op:decv precision-boundary");
            emit(sink, format!("C12 decv {} {} {}", bits, p, &a + BigInt::from(if a >= BigInt::from(0) { 1 } else { -1 })), "op:decv precision-boundary");
        }
    }
    // ---- i256: every pair of limb-boundary values
    let vs: Vec<i256> = vec![
        i256::MIN, i256::from_parts(1, i128::MIN), i256::from_parts(u128::MAX, -2), i256::from_parts(0, -1), i256::from_parts(u128::MAX << 127, -1),
        i256::from_parts(u128::MAX << 64, -1), i256::MINUS_ONE, i256::ZERO, i256::ONE, i256::from_parts(1 << 64, 0), i256::from_parts(1 << 127, 0),
        i256::from_parts(u128::MAX, 0), i256::from_parts(0, 1), i256::from_parts(u128::MAX, i128::MAX >> 1), i256::from_parts(u128::MAX - 1, i128::MAX), i256::MAX,
    ];
    let p = |x: &i256| {
        let (l, h) = x.to_parts();
        format!("{} {}", l, h)
    };
    for m in ["wadd", "wsub", "wmul", "cadd", "csub", "cmul", "cdiv", "crem", "wdiv", "wrem", "cmp"] {
        for a in &vs {
            for b in &vs {
                emit(sink, format!("C12 i256 {} {} {}", m, p(a), p(b)), &format!("op:i256:{} boundary-pair", m));
            }
        }
    }
    for m in ["wneg", "cneg", "wabs", "cabs", "toi128", "tostr"] {
        for a in &vs {
            emit(sink, format!("C12 i256 {} {}", m, p(a)), &format!("op:i256:{} boundary", m));
        }
    }
    for a in &vs {
        for e in [0u32, 1, 2, 3, 255, 256] {
            emit(sink, format!("C12 i256 cpow {} {}", p(a), e), "op:i256:cpow boundary");
            emit(sink, format!("C12 i256 wpow {} {}", p(a), e), "op:i256:wpow boundary");
        }
        emit(sink, format!("C12 i256str ={}", show_i256v(*a)), "op:i256:fromstr boundary");
    }
}

fn nontrivial(line: &str, tags: &str) -> bool {
    if tags.split(' ').any(|t| t == "nt") {
        return true;
    }
    // array kernels: at least one non-null slot is processed
    line.split(' ').skip(3).any(|tok| {
        (tok.starts_with('A') || tok.starts_with('N') || tok.starts_with("S:"))
            && tok.split_once(':').map(|(_, b)| b != "-" && b.split(',').any(|s| !s.starts_with("n:"))).unwrap_or(false)
    })
}

fn main() {
    let args = parse_args();
    if std::env::var("VERIF_LOUD").is_err() {
        quiet_panics();
    }
    let mut sink = Sink::new(&args.out);
    if args.mode == "replay" {
        for line in read_cases(args.replay.as_ref().unwrap()) {
            let a = run_case(&line);
            let tags = if kf_decimal(&line) { format!("replay {}", KF_DEC) } else if let Some(k) = kf_agg2(&line) { format!("replay {}", k) } else { "replay".to_string() };
            sink.case(line, a, &tags);
        }
    } else {
        if args.cases.is_none() {
            fixed_block(&mut sink);
        }
        let mut rng = Rng::new(args.seed ^ 0xC12);
        let n = n_cases(&args, 14000, 400000);
        for _ in 0..n {
            let (line, mut tags) = gen_case(&mut rng);
            let a = run_case(&line);
            if kf_decimal(&line) {
                tags.push(' ');
                tags.push_str(KF_DEC);
            }
            if let Some(k) = kf_agg2(&line) {
                tags.push(' ');
                tags.push_str(k);
            }
            if nontrivial(&line, &tags) && !tags.split(' ').any(|t| t == "nt") {
                tags.push_str(" nt");
            }
            // oracle on the implementation itself: the payload under null slots is irrelevant
            if line.contains("n:") {
                let z = zero_garbage(&line);
                if z != line {
                    let a2 = run_case(&z);
                    if a2 != a {
                        sink.oracle_failure(line.clone(), format!("answer depends on the payload under null slots: {} vs {} (payload zeroed)", a, a2), &tags);
                    }
                    sink.count("oracle:null-payload-independence");
                }
            }
            sink.case(line, a, &tags);
        }
        if args.tier == "thorough" && args.cases.is_none() {
            exhaustive8(&mut sink);
        }
    }
    sink.finish();
}
