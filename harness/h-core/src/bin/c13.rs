//! C13 correspondence harness: arrow-cast (`cast_with_options`, `can_cast_types`,
//! `parse_decimal`) and arrow-schema (`DataType` display / `FromStr`).
//!
//! Case lines (all fields single-space separated):
//!   C13 cast <var> <src> <dst> <safe> <vals>     one cast; answer = value list | ERR:cast | ERR:unsupported | PANIC
//!   C13 rt <var> <src> <mid> <vals>              strict src→mid→src; answer as above
//!   C13 reenc <kind> <var> <src> <vals>          src → re-encoding (dictionary/run-end/view/list) → src, strict
//!   C13 cancast <hex(display src)> <hex(display dst)>   can_cast_types vs cast on null/empty arrays (oracle only)
//!   C13 dtype <class> <hex(display t)>           DataType::from_str then Display again
//!   C13 pdec <w> <p> <s> <hex(str)>              arrow_cast::parse::parse_decimal
//! <var>: bit0 = attach a validity buffer even when every row is valid; bits1-2 = number of
//!        garbage rows put in front and sliced off (array offset).
//! type tokens: i8..i64 u8..u64 f32 f64 bool utf8 lutf8 utf8v d32:p:s d64:p:s d128:p:s d256:p:s
//!        ts:U date32 date64 dur:U t32:U t64:U  (U = s|ms|us|ns)
//! values: decimal integers (floats: IEEE bits as unsigned decimal; strings: `x<hex>`),
//!        `n` = null, `n:<payload>` = null slot whose value buffer holds <payload>.
use arrow_array::cast::AsArray;
use arrow_array::types::*;
use arrow_array::*;
use arrow_buffer::{NullBuffer, i256};
use arrow_cast::cast::{CastOptions, can_cast_types, cast_with_options};
use arrow_schema::{ArrowError, DataType, Field, Fields, IntervalUnit, TimeUnit, UnionFields, UnionMode};
use std::collections::HashMap;
use std::panic::{AssertUnwindSafe, catch_unwind};
use std::str::FromStr;
use std::sync::Arc;
use vcommon::*;

// ------------------------------------------------------------------------------------ types

fn unit(s: &str) -> TimeUnit {
    match s {
        "s" => TimeUnit::Second,
        "ms" => TimeUnit::Millisecond,
        "us" => TimeUnit::Microsecond,
        "ns" => TimeUnit::Nanosecond,
        _ => panic!("unit"),
    }
}

fn parse_ty(s: &str) -> DataType {
    use DataType::*;
    match s {
        "i8" => Int8,
        "i16" => Int16,
        "i32" => Int32,
        "i64" => Int64,
        "u8" => UInt8,
        "u16" => UInt16,
        "u32" => UInt32,
        "u64" => UInt64,
        "f16" => Float16,
        "f32" => Float32,
        "f64" => Float64,
        "bool" => Boolean,
        "null" => Null,
        "iym" => Interval(IntervalUnit::YearMonth),
        "idt" => Interval(IntervalUnit::DayTime),
        "imdn" => Interval(IntervalUnit::MonthDayNano),
        "bin" => Binary,
        "lbin" => LargeBinary,
        "binv" => BinaryView,
        "utf8" => Utf8,
        "lutf8" => LargeUtf8,
        "utf8v" => Utf8View,
        "date32" => Date32,
        "date64" => Date64,
        _ => {
            let f: Vec<&str> = s.split(':').collect();
            match f[0] {
                "d32" => Decimal32(f[1].parse().unwrap(), f[2].parse().unwrap()),
                "d64" => Decimal64(f[1].parse().unwrap(), f[2].parse().unwrap()),
                "d128" => Decimal128(f[1].parse().unwrap(), f[2].parse().unwrap()),
                "d256" => Decimal256(f[1].parse().unwrap(), f[2].parse().unwrap()),
                "fsb" => FixedSizeBinary(f[1].parse().unwrap()),
                "ts" => Timestamp(unit(f[1]), None),
                "dur" => Duration(unit(f[1])),
                "t32" => Time32(unit(f[1])),
                "t64" => Time64(unit(f[1])),
                _ => panic!("bad type token {s}"),
            }
        }
    }
}

fn split_tok(t: &str) -> (bool, &str) {
    if t == "n" {
        (false, "")
    } else if let Some(p) = t.strip_prefix("n:") {
        (false, p)
    } else {
        (true, t)
    }
}

fn xhex(b: &[u8]) -> String {
    let mut s = String::from("x");
    for c in b {
        s.push_str(&format!("{:02x}", c));
    }
    s
}
fn unxhex(s: &str) -> Vec<u8> {
    let s = s.strip_prefix('x').expect("x-hex");
    (0..s.len() / 2).map(|i| u8::from_str_radix(&s[2 * i..2 * i + 2], 16).unwrap()).collect()
}

fn prim<T: ArrowPrimitiveType>(toks: &[&str], force: bool, conv: impl Fn(&str) -> T::Native) -> PrimitiveArray<T> {
    let mut vals = Vec::with_capacity(toks.len());
    let mut valid = Vec::with_capacity(toks.len());
    for t in toks {
        let (v, p) = split_tok(t);
        valid.push(v);
        vals.push(if p.is_empty() { T::Native::default() } else { conv(p) });
    }
    let nulls = if valid.iter().all(|b| *b) && !force { None } else { Some(NullBuffer::from(valid)) };
    PrimitiveArray::<T>::new(vals.into(), nulls)
}

fn i128_of(s: &str) -> i128 {
    s.parse::<i128>().expect("int")
}

/// build an array of type `dt` from value tokens
fn build(dt: &DataType, toks: &[&str], force: bool) -> ArrayRef {
    use DataType::*;
    match dt {
        Int8 => Arc::new(prim::<Int8Type>(toks, force, |s| i128_of(s) as i8)),
        Int16 => Arc::new(prim::<Int16Type>(toks, force, |s| i128_of(s) as i16)),
        Int32 => Arc::new(prim::<Int32Type>(toks, force, |s| i128_of(s) as i32)),
        Int64 => Arc::new(prim::<Int64Type>(toks, force, |s| i128_of(s) as i64)),
        UInt8 => Arc::new(prim::<UInt8Type>(toks, force, |s| i128_of(s) as u8)),
        UInt16 => Arc::new(prim::<UInt16Type>(toks, force, |s| i128_of(s) as u16)),
        UInt32 => Arc::new(prim::<UInt32Type>(toks, force, |s| i128_of(s) as u32)),
        UInt64 => Arc::new(prim::<UInt64Type>(toks, force, |s| i128_of(s) as u64)),
        Float16 => Arc::new(prim::<Float16Type>(toks, force, |s| half::f16::from_bits(i128_of(s) as u16))),
        Float32 => Arc::new(prim::<Float32Type>(toks, force, |s| f32::from_bits(i128_of(s) as u32))),
        Float64 => Arc::new(prim::<Float64Type>(toks, force, |s| f64::from_bits(i128_of(s) as u64))),
        Date32 => Arc::new(prim::<Date32Type>(toks, force, |s| i128_of(s) as i32)),
        Date64 => Arc::new(prim::<Date64Type>(toks, force, |s| i128_of(s) as i64)),
        Time32(TimeUnit::Second) => Arc::new(prim::<Time32SecondType>(toks, force, |s| i128_of(s) as i32)),
        Time32(_) => Arc::new(prim::<Time32MillisecondType>(toks, force, |s| i128_of(s) as i32)),
        Time64(TimeUnit::Microsecond) => Arc::new(prim::<Time64MicrosecondType>(toks, force, |s| i128_of(s) as i64)),
        Time64(_) => Arc::new(prim::<Time64NanosecondType>(toks, force, |s| i128_of(s) as i64)),
        Timestamp(u, _) => {
            let a = prim::<Int64Type>(toks, force, |s| i128_of(s) as i64);
            match u {
                TimeUnit::Second => Arc::new(a.reinterpret_cast::<TimestampSecondType>()),
                TimeUnit::Millisecond => Arc::new(a.reinterpret_cast::<TimestampMillisecondType>()),
                TimeUnit::Microsecond => Arc::new(a.reinterpret_cast::<TimestampMicrosecondType>()),
                TimeUnit::Nanosecond => Arc::new(a.reinterpret_cast::<TimestampNanosecondType>()),
            }
        }
        Duration(u) => {
            let a = prim::<Int64Type>(toks, force, |s| i128_of(s) as i64);
            match u {
                TimeUnit::Second => Arc::new(a.reinterpret_cast::<DurationSecondType>()),
                TimeUnit::Millisecond => Arc::new(a.reinterpret_cast::<DurationMillisecondType>()),
                TimeUnit::Microsecond => Arc::new(a.reinterpret_cast::<DurationMicrosecondType>()),
                TimeUnit::Nanosecond => Arc::new(a.reinterpret_cast::<DurationNanosecondType>()),
            }
        }
        Decimal32(p, s) => {
            Arc::new(prim::<Decimal32Type>(toks, force, |s| i128_of(s) as i32).with_precision_and_scale(*p, *s).unwrap())
        }
        Decimal64(p, s) => {
            Arc::new(prim::<Decimal64Type>(toks, force, |s| i128_of(s) as i64).with_precision_and_scale(*p, *s).unwrap())
        }
        Decimal128(p, s) => Arc::new(prim::<Decimal128Type>(toks, force, i128_of).with_precision_and_scale(*p, *s).unwrap()),
        Decimal256(p, s) => Arc::new(
            prim::<Decimal256Type>(toks, force, |s| i256::from_string(s).expect("i256")).with_precision_and_scale(*p, *s).unwrap(),
        ),
        Boolean => {
            let mut vals = vec![];
            let mut valid = vec![];
            for t in toks {
                let (v, p) = split_tok(t);
                valid.push(v);
                vals.push(p == "1");
            }
            let nulls = if valid.iter().all(|b| *b) && !force { None } else { Some(NullBuffer::from(valid)) };
            Arc::new(BooleanArray::new(vals.into(), nulls))
        }
        Utf8 | LargeUtf8 | Utf8View => {
            let v: Vec<Option<String>> = toks
                .iter()
                .map(|t| {
                    let (v, p) = split_tok(t);
                    if v { Some(String::from_utf8(unxhex(p)).expect("utf8")) } else { None }
                })
                .collect();
            match dt {
                Utf8 => Arc::new(StringArray::from(v)),
                LargeUtf8 => Arc::new(LargeStringArray::from(v)),
                _ => Arc::new(StringViewArray::from(v)),
            }
        }
        Null => Arc::new(NullArray::new(toks.len())),
        Interval(IntervalUnit::YearMonth) => Arc::new(prim::<IntervalYearMonthType>(toks, force, |s| i128_of(s) as i32)),
        Interval(IntervalUnit::DayTime) => Arc::new(prim::<IntervalDayTimeType>(toks, force, |s| {
            let f: Vec<i128> = s.split('/').map(i128_of).collect();
            arrow_buffer::IntervalDayTime::new(f[0] as i32, f[1] as i32)
        })),
        Interval(IntervalUnit::MonthDayNano) => Arc::new(prim::<IntervalMonthDayNanoType>(toks, force, |s| {
            let f: Vec<i128> = s.split('/').map(i128_of).collect();
            arrow_buffer::IntervalMonthDayNano::new(f[0] as i32, f[1] as i32, f[2] as i64)
        })),
        Binary | LargeBinary | BinaryView | FixedSizeBinary(_) => {
            // value bytes are kept under null slots (`n:x<hex>`)
            let mut data: Vec<u8> = vec![];
            let mut lens: Vec<usize> = vec![];
            let mut valid: Vec<bool> = vec![];
            for t in toks {
                let (v, p) = split_tok(t);
                let mut b = if p.is_empty() { vec![] } else { unxhex(p) };
                if let FixedSizeBinary(n) = dt {
                    if !v && b.len() != *n as usize {
                        b = vec![0u8; *n as usize];
                    }
                }
                valid.push(v);
                lens.push(b.len());
                data.extend_from_slice(&b);
            }
            let nulls = if valid.iter().all(|b| *b) && !force { None } else { Some(NullBuffer::from(valid.clone())) };
            match dt {
                Binary => Arc::new(BinaryArray::new(arrow_buffer::OffsetBuffer::from_lengths(lens), data.into(), nulls)),
                LargeBinary => Arc::new(LargeBinaryArray::new(arrow_buffer::OffsetBuffer::from_lengths(lens), data.into(), nulls)),
                FixedSizeBinary(n) => Arc::new(FixedSizeBinaryArray::try_new(*n, data.into(), nulls).expect("fsb")),
                _ => {
                    let mut off = 0;
                    let v: Vec<Option<Vec<u8>>> = lens
                        .iter()
                        .zip(valid.iter())
                        .map(|(l, ok)| {
                            let r = data[off..off + l].to_vec();
                            off += l;
                            if *ok { Some(r) } else { None }
                        })
                        .collect();
                    Arc::new(BinaryViewArray::from_iter(v))
                }
            }
        }
        _ => panic!("build: unsupported type {dt}"),
    }
}

fn prefix_toks(dt: &DataType) -> [&'static str; 3] {
    match dt {
        DataType::Utf8 | DataType::LargeUtf8 | DataType::Utf8View => ["x7a", "n", "x2d39"],
        DataType::Binary | DataType::LargeBinary | DataType::BinaryView => ["x7a", "n:xff", "xc3"],
        DataType::FixedSizeBinary(0) => ["x", "n", "x"],
        DataType::FixedSizeBinary(1) => ["x7a", "n", "xff"],
        DataType::FixedSizeBinary(2) => ["x7a7a", "n", "xffc3"],
        DataType::FixedSizeBinary(4) => ["x7a7a7a7a", "n", "xffc3ffc3"],
        DataType::Null => ["n", "n", "n"],
        DataType::Interval(IntervalUnit::DayTime) => ["1/2", "n:7/7", "0/0"],
        DataType::Interval(IntervalUnit::MonthDayNano) => ["1/2/3", "n:7/7/7", "0/0/0"],
        DataType::Boolean => ["1", "n:1", "0"],
        _ => ["1", "n:77", "0"],
    }
}

/// build with the layout variant: validity buffer forced, rows in front sliced away
fn build_var(dt: &DataType, toks: &[&str], var: usize) -> ArrayRef {
    let k = (var >> 1) & 3;
    let force = var & 1 == 1;
    if k == 0 {
        return build(dt, toks, force);
    }
    let pre = prefix_toks(dt);
    let mut all: Vec<&str> = pre[..k].to_vec();
    all.extend_from_slice(toks);
    build(dt, &all, force).slice(k, toks.len())
}

macro_rules! show_prim {
    ($arr:expr, $t:ty, $f:expr) => {{
        let a = $arr.as_primitive::<$t>();
        (0..a.len()).map(|i| if a.is_null(i) { "n".to_string() } else { $f(a.value(i)) }).collect::<Vec<_>>()
    }};
}

/// canonical logical content of an array
fn show(arr: &dyn Array) -> String {
    use DataType::*;
    let v: Vec<String> = match arr.data_type() {
        Int8 => show_prim!(arr, Int8Type, |x: i8| x.to_string()),
        Int16 => show_prim!(arr, Int16Type, |x: i16| x.to_string()),
        Int32 => show_prim!(arr, Int32Type, |x: i32| x.to_string()),
        Int64 => show_prim!(arr, Int64Type, |x: i64| x.to_string()),
        UInt8 => show_prim!(arr, UInt8Type, |x: u8| x.to_string()),
        UInt16 => show_prim!(arr, UInt16Type, |x: u16| x.to_string()),
        UInt32 => show_prim!(arr, UInt32Type, |x: u32| x.to_string()),
        UInt64 => show_prim!(arr, UInt64Type, |x: u64| x.to_string()),
        Float16 => show_prim!(arr, Float16Type, |x: half::f16| x.to_bits().to_string()),
        Float32 => show_prim!(arr, Float32Type, |x: f32| x.to_bits().to_string()),
        Float64 => show_prim!(arr, Float64Type, |x: f64| x.to_bits().to_string()),
        Date32 => show_prim!(arr, Date32Type, |x: i32| x.to_string()),
        Date64 => show_prim!(arr, Date64Type, |x: i64| x.to_string()),
        Time32(TimeUnit::Second) => show_prim!(arr, Time32SecondType, |x: i32| x.to_string()),
        Time32(_) => show_prim!(arr, Time32MillisecondType, |x: i32| x.to_string()),
        Time64(TimeUnit::Microsecond) => show_prim!(arr, Time64MicrosecondType, |x: i64| x.to_string()),
        Time64(_) => show_prim!(arr, Time64NanosecondType, |x: i64| x.to_string()),
        Timestamp(TimeUnit::Second, _) => show_prim!(arr, TimestampSecondType, |x: i64| x.to_string()),
        Timestamp(TimeUnit::Millisecond, _) => show_prim!(arr, TimestampMillisecondType, |x: i64| x.to_string()),
        Timestamp(TimeUnit::Microsecond, _) => show_prim!(arr, TimestampMicrosecondType, |x: i64| x.to_string()),
        Timestamp(TimeUnit::Nanosecond, _) => show_prim!(arr, TimestampNanosecondType, |x: i64| x.to_string()),
        Duration(TimeUnit::Second) => show_prim!(arr, DurationSecondType, |x: i64| x.to_string()),
        Duration(TimeUnit::Millisecond) => show_prim!(arr, DurationMillisecondType, |x: i64| x.to_string()),
        Duration(TimeUnit::Microsecond) => show_prim!(arr, DurationMicrosecondType, |x: i64| x.to_string()),
        Duration(TimeUnit::Nanosecond) => show_prim!(arr, DurationNanosecondType, |x: i64| x.to_string()),
        Decimal32(_, _) => show_prim!(arr, Decimal32Type, |x: i32| x.to_string()),
        Decimal64(_, _) => show_prim!(arr, Decimal64Type, |x: i64| x.to_string()),
        Decimal128(_, _) => show_prim!(arr, Decimal128Type, |x: i128| x.to_string()),
        Decimal256(_, _) => show_prim!(arr, Decimal256Type, |x: i256| x.to_string()),
        Boolean => {
            let a = arr.as_boolean();
            (0..a.len()).map(|i| if a.is_null(i) { "n".into() } else { (a.value(i) as u8).to_string() }).collect()
        }
        Utf8 => {
            let a = arr.as_string::<i32>();
            (0..a.len()).map(|i| if a.is_null(i) { "n".into() } else { xhex(a.value(i).as_bytes()) }).collect()
        }
        LargeUtf8 => {
            let a = arr.as_string::<i64>();
            (0..a.len()).map(|i| if a.is_null(i) { "n".into() } else { xhex(a.value(i).as_bytes()) }).collect()
        }
        Utf8View => {
            let a = arr.as_string_view();
            (0..a.len()).map(|i| if a.is_null(i) { "n".into() } else { xhex(a.value(i).as_bytes()) }).collect()
        }
        Binary => {
            let a = arr.as_binary::<i32>();
            (0..a.len()).map(|i| if a.is_null(i) { "n".into() } else { xhex(a.value(i)) }).collect()
        }
        LargeBinary => {
            let a = arr.as_binary::<i64>();
            (0..a.len()).map(|i| if a.is_null(i) { "n".into() } else { xhex(a.value(i)) }).collect()
        }
        BinaryView => {
            let a = arr.as_binary_view();
            (0..a.len()).map(|i| if a.is_null(i) { "n".into() } else { xhex(a.value(i)) }).collect()
        }
        Null => (0..arr.len()).map(|_| "n".to_string()).collect(),
        Interval(IntervalUnit::YearMonth) => show_prim!(arr, IntervalYearMonthType, |x: i32| x.to_string()),
        Interval(IntervalUnit::DayTime) => show_prim!(arr, IntervalDayTimeType, |x: arrow_buffer::IntervalDayTime| format!("{}/{}", x.days, x.milliseconds)),
        Interval(IntervalUnit::MonthDayNano) => {
            show_prim!(arr, IntervalMonthDayNanoType, |x: arrow_buffer::IntervalMonthDayNano| format!("{}/{}/{}", x.months, x.days, x.nanoseconds))
        }
        FixedSizeBinary(_) => {
            let a = arr.as_fixed_size_binary();
            (0..a.len()).map(|i| if a.is_null(i) { "n".into() } else { xhex(a.value(i)) }).collect()
        }
        other => vec![format!("?{}", other).replace(' ', "_")],
    };
    show_list(&v)
}

fn err_class(e: &ArrowError) -> String {
    let m = e.to_string();
    if m.contains("not supported") || m.contains("Unsupported") { "ERR:unsupported".into() } else { "ERR:cast".into() }
}

/// one cast under catch_unwind
fn do_cast(arr: &ArrayRef, to: &DataType, safe: bool) -> Result<ArrayRef, String> {
    let opts = CastOptions { safe, ..Default::default() };
    match catch_unwind(AssertUnwindSafe(|| cast_with_options(arr.as_ref(), to, &opts))) {
        Ok(Ok(a)) => Ok(a),
        Ok(Err(e)) => Err(err_class(&e)),
        Err(_) => Err("PANIC".into()),
    }
}

fn answer(r: &Result<ArrayRef, String>) -> String {
    match r {
        Ok(a) => show(a.as_ref()),
        Err(e) => e.clone(),
    }
}

struct Out {
    answer: String,
    oracle: Vec<String>,
    tags: Vec<String>,
}
impl Out {
    fn new(answer: String) -> Self {
        Out { answer, oracle: vec![], tags: vec![] }
    }
}

fn pow10_256(k: u32) -> i256 {
    let mut r = i256::ONE;
    for _ in 0..k {
        r = r.wrapping_mul(i256::from_i128(10));
    }
    r
}

fn dec_params(dt: &DataType) -> Option<(u32, u8, i8)> {
    match dt {
        DataType::Decimal32(p, s) => Some((32, *p, *s)),
        DataType::Decimal64(p, s) => Some((64, *p, *s)),
        DataType::Decimal128(p, s) => Some((128, *p, *s)),
        DataType::Decimal256(p, s) => Some((256, *p, *s)),
        _ => None,
    }
}

/// every valid decimal token fits the declared precision (the property's domain)
fn in_domain(dt: &DataType, toks: &[&str]) -> bool {
    if let Some((_, p, _)) = dec_params(dt) {
        let lim = pow10_256(p as u32);
        toks.iter().all(|t| {
            let (v, pl) = split_tok(t);
            if !v {
                return true;
            }
            let x = i256::from_string(pl).unwrap();
            x < lim && x > lim.wrapping_neg()
        })
    } else if matches!(dt, DataType::Time32(_) | DataType::Time64(_)) {
        let day: i128 = match dt {
            DataType::Time32(TimeUnit::Second) => 86_400,
            DataType::Time32(_) => 86_400_000,
            DataType::Time64(TimeUnit::Microsecond) => 86_400_000_000,
            _ => 86_400_000_000_000,
        };
        toks.iter().all(|t| {
            let (v, pl) = split_tok(t);
            !v || (0..day).contains(&i128_of(pl))
        })
    } else {
        true
    }
}

/// output decimals must fit the declared output precision
fn out_precision_ok(a: &ArrayRef) -> bool {
    if let Some((_, p, _)) = dec_params(a.data_type()) {
        let lim = pow10_256(p as u32);
        let s = show(a.as_ref());
        if s == "-" {
            return true;
        }
        s.split(',').all(|t| {
            if t == "n" {
                return true;
            }
            let x = i256::from_string(t).unwrap();
            x < lim && x > lim.wrapping_neg()
        })
    } else {
        true
    }
}

/// The strict/safe duality checked directly on the implementation (any type pair):
/// strict fails ⇔ safe nulls some valid input row; when strict succeeds both agree.
fn duality(safe: &Result<ArrayRef, String>, strict: &Result<ArrayRef, String>, valid_in: &[bool], from: &DataType, to: &DataType, out: &mut Out) {
    match (safe, strict) {
        (Ok(sa), Ok(st)) => {
            let (a, b) = (show(sa.as_ref()), show(st.as_ref()));
            if a != b {
                out.oracle.push(format!("duality: strict succeeded with {} but safe gave {}", b, a));
            }
            out.tags.push("res:ok".into());
        }
        (Ok(sa), Err(e)) => {
            if e == "PANIC" {
                out.oracle.push("strict cast panicked".into());
            }
            let extra = (0..sa.len()).filter(|i| valid_in[*i] && sa.is_null(*i)).count();
            if extra == 0 {
                out.oracle.push(format!("duality: strict failed ({}) but safe nulled no valid row", e));
            }
            out.tags.push("res:strict-err".into());
        }
        (Err(e), Ok(_)) => {
            out.oracle.push(format!("duality: safe failed ({}) but strict succeeded", e));
        }
        (Err(e1), Err(_)) => {
            // safe mode must not fail on row values: whole-cast (type level) errors only
            out.tags.push(format!("res:both-err:{}", e1.trim_start_matches("ERR:")));
            if do_cast(&new_null_array(from, valid_in.len()), to, true).is_ok() && valid_in.iter().any(|b| *b) {
                out.oracle.push(format!("duality: safe mode failed ({}) because of row values (the same cast of an all-null array succeeds)", e1));
                out.tags.push("kf:safe-mode-row-error".into());
            }
        }
    }
    if let Ok(sa) = safe {
        let extra = (0..sa.len()).filter(|i| valid_in[*i] && sa.is_null(*i)).count();
        if extra > 0 {
            out.tags.push("safe-nulls".into());
            if strict.is_ok() {
                out.oracle.push("duality: safe nulled a valid row but strict succeeded".into());
            }
        }
        for i in 0..sa.len() {
            if !valid_in[i] && !sa.is_null(i) {
                out.oracle.push(format!("null input row {} became valid", i));
                break;
            }
        }
    }
}

fn checks_on_output(r: &Result<ArrayRef, String>, to: &DataType, n: usize, dom: bool, mode: &str, out: &mut Out) {
    if let Ok(a) = r {
        if a.data_type() != to {
            out.oracle.push(format!("{mode}: output type {} != requested {}", a.data_type(), to));
        }
        if a.len() != n {
            out.oracle.push(format!("{mode}: output length {} != {}", a.len(), n));
        }
        if !out_precision_ok(a) {
            if dom {
                out.oracle.push(format!("{mode}: output decimal exceeds the declared precision: {}", show(a.as_ref())));
                out.tags.push("kf:precision-escape".into());
            } else {
                out.tags.push(format!("kf:ood-precision-escape:{mode}"));
            }
        } else if dom && a.to_data().validate_full().is_err() {
            out.oracle.push(format!("{mode}: output fails validate_full"));
        }
    }
}


// ------------------------------------------------------------ exact float reference (big integers)

use num_bigint::{BigInt, Sign};

/// a finite f64 as the exact dyadic rational num / 2^shift
fn f64_exact(x: f64) -> Option<(BigInt, u32)> {
    if !x.is_finite() {
        return None;
    }
    let bits = x.to_bits();
    let frac = bits & ((1u64 << 52) - 1);
    let ex = ((bits >> 52) & 0x7ff) as i64;
    let (m, e) = if ex == 0 { (frac, -1074i64) } else { (frac | (1u64 << 52), ex - 1075) };
    let mut n = BigInt::from(m);
    if bits >> 63 == 1 {
        n = -n;
    }
    if e >= 0 { Some((n << (e as usize), 0)) } else { Some((n, (-e) as u32)) }
}

fn big_pow10(k: u32) -> BigInt {
    let mut r = BigInt::from(1);
    for _ in 0..k {
        r *= 10;
    }
    r
}

/// round half away from zero of num/den (den > 0)
fn round_half_away(num: &BigInt, den: &BigInt) -> BigInt {
    let a = num.magnitude().clone();
    let d = den.magnitude().clone();
    let q = (a * 2u32 + &d) / (d * 2u32);
    let q = BigInt::from_biguint(Sign::Plus, q);
    if num.sign() == Sign::Minus { -q } else { q }
}

fn float_token_value(ty: &str, tok: &str) -> f64 {
    let b = i128_of(tok);
    match ty {
        "f16" => half::f16::from_bits(b as u16).to_f64(),
        "f32" => f32::from_bits(b as u32) as f64,
        _ => f64::from_bits(b as u64),
    }
}

/// Exact references for float → decimal and float → integer, compared with the safe-mode
/// result row by row (the strict result is tied to it by the duality oracle).
fn float_oracle(src: &str, to: &DataType, toks: &[&str], safe: &Result<ArrayRef, String>, out: &mut Out) {
    let Ok(arr) = safe else { return };
    let shown = show(arr.as_ref());
    let got: Vec<&str> = if shown == "-" { vec![] } else { shown.split(',').collect() };
    if got.len() != toks.len() {
        return;
    }
    for (t, g) in toks.iter().zip(got.iter()) {
        let (valid, pl) = split_tok(t);
        if !valid {
            continue;
        }
        let v = float_token_value(src, pl);
        if let Some((_, p, s)) = dec_params(to) {
            let lim = big_pow10(p as u32);
            let fits = |q: &BigInt| q < &lim && q > &(-lim.clone());
            // (a) exact: v * 10^s with unbounded precision
            let exact = f64_exact(v).map(|(n, sh)| {
                let (num, den) = if s >= 0 { (n * big_pow10(s as u32), BigInt::from(1) << (sh as usize)) } else { (n, (BigInt::from(1) << (sh as usize)) * big_pow10((-(s as i32)) as u32)) };
                (round_half_away(&num, &den), num, den)
            });
            // (b) as written: the binary64 product, then exact half-away rounding
            let prod = 10_f64.powi(s as i32) * v;
            let written = f64_exact(prod).map(|(n, sh)| round_half_away(&n, &(BigInt::from(1) << (sh as usize))));
            let expect_written = match &written {
                Some(q) if fits(q) => q.to_string(),
                _ => "n".to_string(),
            };
            let expect_exact = match &exact {
                Some((q, _, _)) if fits(q) => q.to_string(),
                _ => "n".to_string(),
            };
            let prod_exact = match (&exact, f64_exact(prod)) {
                (Some((_, num, den)), Some((pn, psh))) => num.clone() * (BigInt::from(1) << (psh as usize)) == pn * den.clone(),
                (None, _) => true,
                _ => false,
            };
            if *g != expect_written {
                out.oracle.push(format!("float->decimal: {} ({}) gave {} but round-half-away of the binary64 product is {}", pl, v, g, expect_written));
                out.tags.push("kf:float-round".into());
            } else if *g != expect_exact {
                // the binary64 multiplication `mul * input` (or powi) already rounded: documented double rounding
                out.tags.push(if prod_exact { "float:exact-mismatch".into() } else { "float:double-rounding".to_string() });
                if prod_exact {
                    out.oracle.push(format!("float->decimal: {} ({}) gave {} but the exact value rounds to {}", pl, v, g, expect_exact));
                }
            } else {
                out.tags.push(if prod_exact { "float:prod-exact".into() } else { "float:prod-inexact-same".to_string() });
            }
        } else if let Some((lo, hi)) = int_range(&format!("{}", ty_tok_of(to))) {
            let expect = match f64_exact(v) {
                Some((n, sh)) => {
                    let den = BigInt::from(1) << (sh as usize);
                    let q = BigInt::from_biguint(Sign::Plus, n.magnitude() / den.magnitude());
                    let q = if n.sign() == Sign::Minus { -q } else { q };
                    if q >= BigInt::from(lo) && q <= BigInt::from(hi) { q.to_string() } else { "n".to_string() }
                }
                None => "n".to_string(),
            };
            if *g != expect {
                out.oracle.push(format!("float->integer: {} ({}) gave {} but truncation gives {}", pl, v, g, expect));
            }
        }
    }
}

fn ty_tok_of(dt: &DataType) -> &'static str {
    match dt {
        DataType::Int8 => "i8",
        DataType::Int16 => "i16",
        DataType::Int32 => "i32",
        DataType::Int64 => "i64",
        DataType::UInt8 => "u8",
        DataType::UInt16 => "u16",
        DataType::UInt32 => "u32",
        DataType::UInt64 => "u64",
        _ => "?",
    }
}

fn op_cast(var: usize, src: &str, dst: &str, safe: bool, vals: &str) -> Out {
    let (from, to) = (parse_ty(src), parse_ty(dst));
    let toks: Vec<&str> = if vals == "-" { vec![] } else { vals.split(',').collect() };
    let arr = build_var(&from, &toks, var);
    let valid_in: Vec<bool> = toks.iter().map(|t| split_tok(t).0).collect();
    let rs = do_cast(&arr, &to, true);
    let rt = do_cast(&arr, &to, false);
    let mut out = Out::new(answer(if safe { &rs } else { &rt }));
    let dom = in_domain(&from, &toks);
    if !dom {
        out.tags.push("ood".into());
    }
    if let (Some((_, p1, s1)), Some((_, _, s2))) = (dec_params(&from), dec_params(&to)) {
        // `(input_precision as i8) + delta_scale` in make_upscaler leaves the i8 range
        if s2 >= s1 && p1 as i32 + (s2 as i32 - s1 as i32) > 127 {
            out.tags.push("kf:upscale-i8-wrap".into());
        }
    }
    duality(&rs, &rt, &valid_in, &from, &to, &mut out);
    if matches!(&rs, Err(e) if e == "PANIC") || matches!(&rt, Err(e) if e == "PANIC") {
        out.tags.push("kf:panic".into());
        out.oracle.push("the cast panicked".into());
    }
    if matches!(src, "f16" | "f32" | "f64") {
        float_oracle(src, &to, &toks, &rs, &mut out);
    }
    checks_on_output(&rs, &to, toks.len(), dom, "safe", &mut out);
    checks_on_output(&rt, &to, toks.len(), dom, "strict", &mut out);
    if can_cast_types(&from, &to) {
        for r in [&rs, &rt] {
            if let Err(e) = r {
                if e == "ERR:unsupported" {
                    out.oracle.push("can_cast_types is true but the cast is reported as not supported".into());
                }
            }
        }
    } else {
        out.tags.push("cannot-cast".into());
    }
    out
}

// ------------------------------------------------- second entry points: encoded sources

/// values placed OUTSIDE the logical window of an indirection: the payloads found under the
/// null rows of the case, a null, and type-specific extreme / unconvertible values
fn outside_toks(src: &str, toks: &[&str]) -> Vec<String> {
    let mut v: Vec<String> = vec![];
    for t in toks {
        let (valid, p) = split_tok(t);
        if !valid && !p.is_empty() {
            v.push(p.to_string());
        }
    }
    v.push("n".to_string());
    let dt = parse_ty(src);
    if let Some((lo, hi)) = int_range(src) {
        v.push(lo.to_string());
        v.push(hi.to_string());
    } else if is_str(src) {
        v.push(str_tok("n/a"));
        v.push(str_tok("99999999999999999999999999999999999999999"));
    } else if let Some((_, p, _)) = dec_params(&dt) {
        v.push(nines(p as usize));
        v.push(format!("-{}", nines(p as usize)));
    } else if matches!(src, "f16" | "f32" | "f64") {
        v.push(ftok(src, f64::NAN));
        v.push(ftok(src, f64::INFINITY));
        v.push(ftok(src, 1e300));
    } else if matches!(src, "bin" | "lbin" | "binv") {
        v.push("xff".to_string());
    } else if src == "bool" || src == "null" || src.starts_with("fsb") || src.starts_with('i') && src.len() <= 4 && int_range(src).is_none() {
        // bool / null / fixed-size binary / intervals: nothing unconvertible; a null run suffices
    } else {
        // temporal types stored as i32 / i64
        let (lo, hi) = if matches!(src, "date32" | "t32:s" | "t32:ms") { (i32::MIN as i128, i32::MAX as i128) } else { (i64::MIN as i128, i64::MAX as i128) };
        v.push(lo.to_string());
        v.push(hi.to_string());
    }
    v
}

/// `C13 enc <kind> <var> <src> <dst> <safe> <vals>`: the logical column `vals` is handed to the
/// cast as a dictionary (flavours: unused / duplicated / null dictionary values), a run-end
/// encoded array or a slice of a longer array; the answer is the cast result, which must be what
/// the plain array gives (the Lean model of the plain cast is the reference).
fn op_enc(kind: &str, var: usize, src: &str, dst: &str, safe: bool, vals: &str) -> Out {
    let (from, to) = (parse_ty(src), parse_ty(dst));
    let toks: Vec<&str> = if vals == "-" { vec![] } else { vals.split(',').collect() };
    let f: Vec<&str> = kind.split(':').collect();
    let enc: ArrayRef = match f[0] {
        "dict" => {
            let flavor: usize = f[2].parse().unwrap();
            // dictionary values: distinct valid tokens (twice when duplicated), then extras
            let mut vt: Vec<String> = vec![];
            let mut keys: Vec<Option<usize>> = vec![];
            let mut null_slot: Option<usize> = None;
            for (i, t) in toks.iter().enumerate() {
                let (valid, _) = split_tok(t);
                if valid {
                    let pos = match vt.iter().position(|x| x == t) {
                        Some(p) => p,
                        None => {
                            vt.push(t.to_string());
                            if flavor & 2 != 0 {
                                vt.push(t.to_string());
                            }
                            vt.len() - 1 - (if flavor & 2 != 0 { 1 } else { 0 })
                        }
                    };
                    keys.push(Some(if flavor & 2 != 0 && i % 2 == 1 { pos + 1 } else { pos }));
                } else if flavor & 4 != 0 && i % 2 == 0 {
                    // a valid key that points at a null dictionary value
                    let p = *null_slot.get_or_insert_with(|| {
                        vt.push("n".to_string());
                        vt.len() - 1
                    });
                    keys.push(Some(p));
                } else {
                    keys.push(None);
                }
            }
            if flavor & 1 != 0 {
                // unreferenced dictionary values: the payloads found under the null rows
                for t in &toks {
                    let (valid, p) = split_tok(t);
                    if !valid && !p.is_empty() {
                        vt.push(p.to_string());
                    }
                }
                if let Some(t) = vt.first().cloned() {
                    vt.push(t);
                }
            }
            let vrefs: Vec<&str> = vt.iter().map(|x| x.as_str()).collect();
            let values = build(&from, &vrefs, false);
            macro_rules! mk {
                ($kt:ty, $nt:ty) => {{
                    let k: PrimitiveArray<$kt> = keys.iter().map(|k| k.map(|x| x as $nt)).collect();
                    Arc::new(DictionaryArray::<$kt>::try_new(k, values).expect("dict")) as ArrayRef
                }};
            }
            match f[1] {
                "i8" => mk!(Int8Type, i8),
                "u16" => mk!(UInt16Type, u16),
                "i64" => mk!(Int64Type, i64),
                _ => mk!(Int32Type, i32),
            }
        }
        "ree" => {
            let mut ends: Vec<i32> = vec![];
            let mut vt: Vec<&str> = vec![];
            for (i, t) in toks.iter().enumerate() {
                let t2 = if split_tok(t).0 { *t } else { "n" };
                if vt.last().map_or(true, |l| *l != t2) || f[1] == "split" && i % 3 == 0 {
                    vt.push(t2);
                    ends.push(i as i32 + 1);
                } else {
                    *ends.last_mut().unwrap() = i as i32 + 1;
                }
            }
            let values = build(&from, &vt, false);
            Arc::new(RunArray::<Int32Type>::try_new(&Int32Array::from(ends), values.as_ref()).expect("ree"))
        }
        "rees" | "lists" | "llists" | "lviews" | "fsls" | "structs" => {
            // indirections whose physical storage extends beyond the logical window: whole runs /
            // child ranges / struct rows outside the window hold unconvertible, null or extreme values
            let outside = outside_toks(src, &toks);
            let mode = f[2];
            let (pre, post): (Vec<&str>, Vec<&str>) = match mode {
                "f" => (outside.iter().map(|x| x.as_str()).collect(), vec![]),
                "b" => (vec![], outside.iter().map(|x| x.as_str()).collect()),
                _ => (outside.iter().map(|x| x.as_str()).collect(), outside.iter().rev().map(|x| x.as_str()).collect()),
            };
            let n = toks.len();
            let field = Arc::new(Field::new_list_field(from.clone(), true));
            let to_field = Arc::new(Field::new_list_field(to.clone(), true));
            let mut all: Vec<&str> = pre.clone();
            all.extend_from_slice(&toks);
            all.extend_from_slice(&post);
            let (arr, to_t): (ArrayRef, DataType) = match f[0] {
                "rees" => {
                    // one run per outside value, then the window run-length encoded
                    let mut ends: Vec<i64> = vec![];
                    let mut vt: Vec<&str> = vec![];
                    for (i, t) in all.iter().enumerate() {
                        let t2 = if split_tok(t).0 { *t } else { "n" };
                        let inside = i >= pre.len() && i < pre.len() + n;
                        if !inside || i == pre.len() || vt.last().map_or(true, |l| *l != t2) {
                            vt.push(t2);
                            ends.push(i as i64 + 1);
                        } else {
                            *ends.last_mut().unwrap() = i as i64 + 1;
                        }
                    }
                    let values = build(&from, &vt, false);
                    let ra: ArrayRef = match f[1] {
                        "i16" => Arc::new(RunArray::<Int16Type>::try_new(&Int16Array::from(ends.iter().map(|x| *x as i16).collect::<Vec<_>>()), values.as_ref()).expect("ree")),
                        "i64" => Arc::new(RunArray::<Int64Type>::try_new(&Int64Array::from(ends.clone()), values.as_ref()).expect("ree")),
                        _ => Arc::new(RunArray::<Int32Type>::try_new(&Int32Array::from(ends.iter().map(|x| *x as i32).collect::<Vec<_>>()), values.as_ref()).expect("ree")),
                    };
                    (ra.slice(pre.len(), n), to.clone())
                }
                "structs" => {
                    let child = build(&from, &all, true);
                    let st = StructArray::new(Fields::from(vec![Field::new("a", from.clone(), true)]), vec![child], None);
                    (Arc::new(st.slice(pre.len(), n)), DataType::Struct(Fields::from(vec![Field::new("a", to.clone(), true)])))
                }
                kind0 => {
                    // lists of k rows over pre ++ window ++ post; the parent is sliced to the window
                    let k: usize = f[1].parse().unwrap();
                    let k = if k == 0 || n == 0 || n % k != 0 { 1 } else { k };
                    // pad pre / post to multiples of k by repeating their last element
                    let padto = |v: &Vec<&'static str>| v.clone();
                    let _ = padto;
                    let mut pre2 = pre.clone();
                    while pre2.len() % k != 0 {
                        pre2.push(pre2[pre2.len() - 1]);
                    }
                    let mut post2 = post.clone();
                    while post2.len() % k != 0 {
                        post2.push(post2[post2.len() - 1]);
                    }
                    let mut all2: Vec<&str> = pre2.clone();
                    all2.extend_from_slice(&toks);
                    all2.extend_from_slice(&post2);
                    let child = build(&from, &all2, true);
                    let total = all2.len() / k;
                    let (skip, cnt) = (pre2.len() / k, n / k);
                    match kind0 {
                        "lists" => (
                            Arc::new(ListArray::new(field, arrow_buffer::OffsetBuffer::from_lengths(vec![k; total]), child, None).slice(skip, cnt)),
                            DataType::List(to_field),
                        ),
                        "llists" => (
                            Arc::new(LargeListArray::new(field, arrow_buffer::OffsetBuffer::from_lengths(vec![k; total]), child, None).slice(skip, cnt)),
                            DataType::LargeList(to_field),
                        ),
                        "lviews" => {
                            // views address only the window; the child still holds the outside rows
                            let offs: Vec<i32> = (0..cnt).map(|i| ((skip + i) * k) as i32).collect();
                            (Arc::new(ListViewArray::new(field, offs.into(), vec![k as i32; cnt].into(), child, None)), DataType::ListView(to_field))
                        }
                        _ => (Arc::new(FixedSizeListArray::new(field, k as i32, child, None).slice(skip, cnt)), DataType::FixedSizeList(to_field, k as i32)),
                    }
                }
            };
            // the logical rows of the result (window only)
            let pick = |r: Result<ArrayRef, String>| -> Result<ArrayRef, String> {
                r.map(|a| match a.data_type() {
                    DataType::List(_) => {
                        let l = a.as_list::<i32>();
                        let (s0, e0) = (l.value_offsets()[0] as usize, l.value_offsets()[l.len()] as usize);
                        l.values().slice(s0, e0 - s0)
                    }
                    DataType::LargeList(_) => {
                        let l = a.as_list::<i64>();
                        let (s0, e0) = (l.value_offsets()[0] as usize, l.value_offsets()[l.len()] as usize);
                        l.values().slice(s0, e0 - s0)
                    }
                    DataType::ListView(_) => {
                        let l = a.as_list_view::<i32>();
                        let parts: Vec<ArrayRef> = (0..l.len()).map(|i| l.value(i)).collect();
                        if parts.is_empty() {
                            l.values().slice(0, 0)
                        } else {
                            arrow_select::concat::concat(&parts.iter().map(|p| p.as_ref()).collect::<Vec<_>>()).unwrap()
                        }
                    }
                    DataType::FixedSizeList(_, k) => {
                        let l = a.as_fixed_size_list();
                        l.values().slice(l.value_offset(0) as usize, l.len() * *k as usize)
                    }
                    DataType::Struct(_) => a.as_struct().column(0).clone(),
                    _ => a,
                })
            };
            let rs = pick(do_cast(&arr, &to_t, true));
            let rt = pick(do_cast(&arr, &to_t, false));
            let mut out = Out::new(answer(if safe { &rs } else { &rt }));
            if !in_domain(&from, &toks) {
                out.tags.push("ood".into());
            }
            if matches!(&rs, Err(e) if e == "PANIC") || matches!(&rt, Err(e) if e == "PANIC") {
                out.tags.push("kf:panic".into());
            }
            let plain_toks: Vec<&str> = if f[0] == "rees" { toks.iter().map(|t| if split_tok(t).0 { *t } else { "n" }).collect() } else { toks.clone() };
            let plain = do_cast(&build(&from, &plain_toks, true), &to, safe);
            if answer(&plain) != out.answer {
                out.oracle.push(format!("windowed {} casts to {} but the logical column casts to {}", kind, out.answer, answer(&plain)));
                out.tags.push(format!("kf:window-differs:{}", f[0]));
            }
            return out;
        }
        "list" | "llist" | "lview" | "fsl" => {
            // the column is the child of a list array (groups of k rows); the inner cast is observed on the child
            let k: usize = f[1].parse().unwrap();
            let k = if k == 0 || toks.is_empty() || toks.len() % k != 0 { 1 } else { k };
            let child = build_var(&from, &toks, var);
            let field = Arc::new(Field::new_list_field(from.clone(), true));
            let to_field = Arc::new(Field::new_list_field(to.clone(), true));
            let n = toks.len() / k;
            let lens = vec![k; n];
            let (arr, to_list): (ArrayRef, DataType) = match f[0] {
                "list" => (Arc::new(ListArray::new(field, arrow_buffer::OffsetBuffer::from_lengths(lens), child, None)), if var % 2 == 0 { DataType::List(to_field) } else { DataType::LargeList(to_field) }),
                "llist" => (Arc::new(LargeListArray::new(field, arrow_buffer::OffsetBuffer::from_lengths(lens), child, None)), if var % 2 == 0 { DataType::LargeList(to_field) } else { DataType::List(to_field) }),
                "lview" => {
                    let offs: Vec<i32> = (0..n).map(|i| (i * k) as i32).collect();
                    let sizes: Vec<i32> = vec![k as i32; n];
                    (Arc::new(ListViewArray::new(field, offs.into(), sizes.into(), child, None)), DataType::ListView(to_field))
                }
                _ => (Arc::new(FixedSizeListArray::new(field, k as i32, child, None)), DataType::FixedSizeList(to_field, k as i32)),
            };
            let pick = |r: Result<ArrayRef, String>| -> Result<ArrayRef, String> {
                r.map(|a| match a.data_type() {
                    DataType::List(_) => a.as_list::<i32>().values().clone(),
                    DataType::LargeList(_) => a.as_list::<i64>().values().clone(),
                    DataType::ListView(_) => a.as_list_view::<i32>().values().clone(),
                    DataType::FixedSizeList(_, _) => a.as_fixed_size_list().values().clone(),
                    _ => a,
                })
            };
            let rs = pick(do_cast(&arr, &to_list, true));
            let rt = pick(do_cast(&arr, &to_list, false));
            let mut out = Out::new(answer(if safe { &rs } else { &rt }));
            if !in_domain(&from, &toks) {
                out.tags.push("ood".into());
            }
            if let (Some((_, p1, s1)), Some((_, _, s2))) = (dec_params(&from), dec_params(&to)) {
                if s2 >= s1 && p1 as i32 + (s2 as i32 - s1 as i32) > 127 {
                    out.tags.push("kf:upscale-i8-wrap".into());
                }
            }
            if matches!(&rs, Err(e) if e == "PANIC") || matches!(&rt, Err(e) if e == "PANIC") {
                out.tags.push("kf:panic".into());
            }
            let plain = do_cast(&build_var(&from, &toks, var), &to, safe);
            if answer(&plain) != out.answer {
                out.oracle.push(format!("list child ({}) casts to {} but the plain array casts to {}", kind, out.answer, answer(&plain)));
                out.tags.push("kf:enc-differs:list".into());
            }
            return out;
        }
        _ => {
            // a slice out of the middle of a longer array, validity buffer forced
            let pre = prefix_toks(&from);
            let mut all: Vec<&str> = pre.to_vec();
            all.extend_from_slice(&toks);
            all.extend_from_slice(&pre[..2]);
            build(&from, &all, true).slice(3, toks.len())
        }
    };
    let _ = var;
    let valid_in: Vec<bool> = toks.iter().map(|t| split_tok(t).0).collect();
    let rs = do_cast(&enc, &to, true);
    let rt = do_cast(&enc, &to, false);
    let mut out = Out::new(answer(if safe { &rs } else { &rt }));
    let dom = in_domain(&from, &toks);
    if !dom {
        out.tags.push("ood".into());
    }
    if let (Some((_, p1, s1)), Some((_, _, s2))) = (dec_params(&from), dec_params(&to)) {
        if s2 >= s1 && p1 as i32 + (s2 as i32 - s1 as i32) > 127 {
            out.tags.push("kf:upscale-i8-wrap".into());
        }
    }
    if matches!(&rs, Err(e) if e == "PANIC") || matches!(&rt, Err(e) if e == "PANIC") {
        out.tags.push("kf:panic".into());
    }
    // the plain array is the reference on the implementation side too
    let plain = build(&from, &toks.iter().map(|t| if split_tok(t).0 { *t } else { "n" }).collect::<Vec<_>>(), false);
    let pr = do_cast(&plain, &to, safe);
    if answer(&pr) != out.answer {
        out.oracle.push(format!("encoded source ({}) casts to {} but the plain array casts to {}", kind, out.answer, answer(&pr)));
        out.tags.push(format!("kf:enc-differs:{}", f[0]));
    }
    if let (Ok(a), Ok(b)) = (&rs, &rt) {
        if show(a.as_ref()) != show(b.as_ref()) {
            out.oracle.push("duality: strict and safe results differ".into());
        }
    }
    let _ = valid_in;
    out
}

fn int_range(t: &str) -> Option<(i128, i128)> {
    Some(match t {
        "i8" => (i8::MIN as i128, i8::MAX as i128),
        "i16" => (i16::MIN as i128, i16::MAX as i128),
        "i32" => (i32::MIN as i128, i32::MAX as i128),
        "i64" => (i64::MIN as i128, i64::MAX as i128),
        "u8" => (0, u8::MAX as i128),
        "u16" => (0, u16::MAX as i128),
        "u32" => (0, u32::MAX as i128),
        "u64" => (0, u64::MAX as i128),
        _ => return None,
    })
}

fn is_str(t: &str) -> bool {
    matches!(t, "utf8" | "lutf8" | "utf8v")
}
fn unit_rank(t: &str) -> Option<u32> {
    t.split(':').nth(1).and_then(|u| match u {
        "s" => Some(0),
        "ms" => Some(1),
        "us" => Some(2),
        "ns" => Some(3),
        _ => None,
    })
}

/// pairs for which `src → mid` loses nothing, so `mid → src` must give the input back
fn lossless(src: &str, mid: &str) -> bool {
    let (a, b) = (parse_ty(src), parse_ty(mid));
    if let (Some((lo1, hi1)), Some((lo2, hi2))) = (int_range(src), int_range(mid)) {
        return lo2 <= lo1 && hi1 <= hi2;
    }
    if int_range(src).is_some() && is_str(mid) {
        return true;
    }
    if src == "bool" && (int_range(mid).is_some() || is_str(mid)) {
        return true;
    }
    if let Some((_, _, s)) = dec_params(&a) {
        if is_str(mid) {
            return s >= 0;
        }
        if let Some((_, _, s2)) = dec_params(&b) {
            return s2 >= s;
        }
        return false;
    }
    if int_range(src).is_some() {
        if let Some((_, _, s)) = dec_params(&b) {
            return s >= 0;
        }
        if mid == "f64" {
            return matches!(src, "i8" | "i16" | "i32" | "u8" | "u16" | "u32");
        }
        if mid == "f32" {
            return matches!(src, "i8" | "i16" | "u8" | "u16");
        }
    }
    if src == "f32" && mid == "f64" {
        return true;
    }
    if (src == "f32" || src == "f64") && is_str(mid) {
        return true;
    }
    if src.starts_with("ts:") && mid.starts_with("ts:") || src.starts_with("dur:") && mid.starts_with("dur:") {
        return unit_rank(src) <= unit_rank(mid);
    }
    if src == "date32" && (mid == "date64" || mid.starts_with("ts:") || mid == "i32" || mid == "i64" || is_str(mid)) {
        return true;
    }
    if src.starts_with("ts:") && (mid == "i64" || is_str(mid)) {
        return true;
    }
    if src.starts_with("dur:") && mid == "i64" {
        return true;
    }
    // text round trips through chrono / the interval parser (times of day, Date64 within years 1..9999, intervals, f16)
    if is_str(mid) && (src.starts_with("t32:") || src.starts_with("t64:") || matches!(src, "date64" | "iym" | "idt" | "imdn" | "f16")) {
        return true;
    }
    false
}

fn op_rt(var: usize, src: &str, mid: &str, vals: &str) -> Out {
    let (from, to) = (parse_ty(src), parse_ty(mid));
    let toks: Vec<&str> = if vals == "-" { vec![] } else { vals.split(',').collect() };
    let arr = build_var(&from, &toks, var);
    let fwd = do_cast(&arr, &to, false);
    let back = match &fwd {
        Ok(m) => do_cast(m, &from, false),
        Err(e) => Err(e.clone()),
    };
    let mut out = Out::new(answer(&back));
    let dom = in_domain(&from, &toks);
    if !dom {
        out.tags.push("ood".into());
    }
    let input = show(build(&from, &toks.iter().map(|t| if split_tok(t).0 { *t } else { "n" }).collect::<Vec<_>>(), false).as_ref());
    match (&fwd, &back) {
        (Ok(_), Ok(b)) => {
            out.tags.push("rt:ok".into());
            if lossless(src, mid) && dom {
                out.tags.push("rt:lossless".into());
                let got = show(b.as_ref());
                // float text: compare bit patterns except NaN payloads
                if got != input {
                    out.oracle.push(format!("round trip {src}->{mid}->{src}: got {} expected {}", got, input));
                }
            }
        }
        (Ok(_), Err(e)) => {
            out.tags.push("rt:back-err".into());
            if lossless(src, mid) && dom {
                out.oracle.push(format!("round trip {src}->{mid}->{src}: inverse cast failed ({})", e));
            }
        }
        _ => out.tags.push("rt:fwd-err".into()),
    }
    out
}

// ---------------------------------------------------------------------------- re-encodings

fn op_reenc(kind: &str, var: usize, src: &str, vals: &str) -> Out {
    let from = parse_ty(src);
    let toks: Vec<&str> = if vals == "-" { vec![] } else { vals.split(',').collect() };
    let arr = build_var(&from, &toks, var);
    let f: Vec<&str> = kind.split(':').collect();
    let item = |t: &DataType| Arc::new(Field::new_list_field(t.clone(), true));
    // the chain of types the array is sent through (strict mode), ending at `from`
    let chain: Vec<DataType> = match f[0] {
        "dict" => vec![DataType::Dictionary(Box::new(parse_ty(f[1])), Box::new(from.clone()))],
        "dict2" => vec![
            DataType::Dictionary(Box::new(parse_ty(f[1])), Box::new(from.clone())),
            DataType::Dictionary(Box::new(parse_ty(f[2])), Box::new(from.clone())),
        ],
        "ree" => vec![DataType::RunEndEncoded(
            Arc::new(Field::new("run_ends", parse_ty(f[1]), false)),
            Arc::new(Field::new("values", from.clone(), true)),
        )],
        "view" => vec![DataType::Utf8View, DataType::LargeUtf8, DataType::BinaryView, DataType::Binary, DataType::Utf8View],
        "bin" => vec![DataType::Binary, DataType::LargeBinary, DataType::BinaryView, DataType::LargeUtf8],
        "fsl1" => vec![DataType::FixedSizeList(item(&from), 1)],
        "list" => vec![
            DataType::List(item(&from)),
            DataType::LargeList(item(&from)),
            DataType::ListView(item(&from)),
            DataType::LargeListView(item(&from)),
            DataType::FixedSizeList(item(&from), 1),
        ],
        "listree" => vec![
            DataType::List(item(&from)),
            DataType::FixedSizeList(item(&from), 1),
            DataType::Dictionary(Box::new(DataType::Int32), Box::new(from.clone())),
        ],
        _ => panic!("bad reenc kind"),
    };
    let mut cur: Result<ArrayRef, String> = Ok(arr);
    let mut out_tags = vec![];
    for (i, t) in chain.iter().chain(std::iter::once(&from)).enumerate() {
        cur = match cur {
            Ok(a) => {
                if !can_cast_types(a.data_type(), t) {
                    out_tags.push(format!("cannot-cast-step{}", i));
                }
                do_cast(&a, t, false)
            }
            e => e,
        };
    }
    let mut out = Out::new(answer(&cur));
    out.tags = out_tags;
    let input = show(build(&from, &toks.iter().map(|t| if split_tok(t).0 { *t } else { "n" }).collect::<Vec<_>>(), false).as_ref());
    if out.answer != input {
        out.oracle.push(format!("re-encoding {kind} changed the logical values: got {} expected {}", out.answer, input));
    }
    out
}

// -------------------------------------------------------------------------- can_cast grid

fn unhex_str(s: &str) -> String {
    String::from_utf8(unhex(s)).expect("utf8 in hex field")
}

fn op_cancast(a: &str, b: &str) -> Out {
    let (sa, sb) = (unhex_str(a), unhex_str(b));
    let (from, to) = match (DataType::from_str(&sa), DataType::from_str(&sb)) {
        (Ok(x), Ok(y)) => (x, y),
        _ => return Out::new("ERR:parse".into()),
    };
    let can = can_cast_types(&from, &to);
    let mut res = vec![];
    for arr in [new_empty_array(&from), new_null_array(&from, 3)] {
        for safe in [true, false] {
            res.push(match do_cast(&arr, &to, safe) {
                Ok(o) => {
                    if o.data_type() != &to || o.len() != arr.len() { "badout".to_string() } else { "ok".to_string() }
                }
                Err(e) => e,
            });
        }
    }
    let mut out = Out::new(format!("can={} {}", can as u8, res.join(",")));
    if can {
        out.tags.push("can:1".into());
        if res.iter().any(|r| r == "ERR:unsupported") {
            out.oracle.push(format!("can_cast_types({sa}, {sb}) is true but the cast fails as not supported"));
        } else if res.iter().any(|r| r != "ok") {
            out.tags.push("can-but-typelevel-error".into());
            out.oracle.push(format!("can_cast_types({sa}, {sb}) is true but casting an empty/all-null array fails: {}", res.join(",")));
        }
    } else {
        out.tags.push("can:0".into());
        if res.iter().all(|r| r == "ok") {
            out.tags.push("cannot-but-casts".into());
        }
    }
    out
}

// ------------------------------------------------------------------------------- DataType

fn op_dtype(_class: &str, h: &str) -> Out {
    let s = unhex_str(h);
    match catch_unwind(AssertUnwindSafe(|| DataType::from_str(&s))) {
        Ok(Ok(t)) => {
            let again = t.to_string();
            let mut out = Out::new(xhex(again.as_bytes()));
            if again != s {
                out.oracle.push(format!("display(parse(s)) differs: s={} again={}", s.escape_default(), again.escape_default()));
            }
            out
        }
        Ok(Err(_)) => {
            let mut out = Out::new("ERR:parse".into());
            out.oracle.push(format!("a displayed DataType does not parse back: {}", s.escape_default()));
            out
        }
        Err(_) => Out::new("PANIC".into()),
    }
}

fn op_pdec(w: &str, p: u8, s: i8, h: &str) -> Out {
    let st = unhex_str(h);
    let r = catch_unwind(AssertUnwindSafe(|| match w {
        "32" => arrow_cast::parse::parse_decimal::<Decimal32Type>(&st, p, s).map(|v| v.to_string()),
        "64" => arrow_cast::parse::parse_decimal::<Decimal64Type>(&st, p, s).map(|v| v.to_string()),
        "128" => arrow_cast::parse::parse_decimal::<Decimal128Type>(&st, p, s).map(|v| v.to_string()),
        _ => arrow_cast::parse::parse_decimal::<Decimal256Type>(&st, p, s).map(|v| v.to_string()),
    }));
    Out::new(match r {
        Ok(Ok(v)) => v,
        Ok(Err(_)) => "ERR:parse".into(),
        Err(_) => "PANIC".into(),
    })
}

fn run_case(line: &str) -> Out {
    let t: Vec<&str> = line.split(' ').collect();
    assert_eq!(t[0], "C13");
    let us = |s: &str| s.parse::<usize>().unwrap();
    match t[1] {
        "cast" => op_cast(us(t[2]), t[3], t[4], t[5] == "1", t[6]),
        "rt" => op_rt(us(t[2]), t[3], t[4], t[5]),
        "enc" => op_enc(t[2], us(t[3]), t[4], t[5], t[6] == "1", t[7]),
        "reenc" => op_reenc(t[2], us(t[3]), t[4], t[5]),
        "cancast" => op_cancast(t[2], t[3]),
        "dtype" => op_dtype(t[2], t[3]),
        "pdec" => op_pdec(t[2], t[3].parse().unwrap(), t[4].parse().unwrap(), t[5]),
        _ => Out::new("bad-op".into()),
    }
}

// ------------------------------------------------------------------------------ generators

const INTS: [&str; 8] = ["i8", "i16", "i32", "i64", "u8", "u16", "u32", "u64"];
const UNITS: [&str; 4] = ["s", "ms", "us", "ns"];

fn gen_var(rng: &mut Rng) -> usize {
    if rng.chance(1, 2) { 0 } else { rng.usize(8) }
}

/// interesting integers inside [lo, hi]
fn band(rng: &mut Rng, lo: i128, hi: i128) -> i128 {
    let mut c: Vec<i128> = vec![lo, lo + 1, hi, hi - 1, 0, 1, -1, 2, -2, 9, 10, 99, 100, -100, 127, 128, 255, 256];
    for k in [7u32, 8, 15, 16, 31, 32, 63, 64] {
        let b = 1i128 << k;
        c.extend_from_slice(&[b - 2, b - 1, b, b + 1, -b - 1, -b, -b + 1]);
    }
    match rng.below(4) {
        0 | 1 => {
            let x = *rng.pick(&c);
            x.clamp(lo, hi)
        }
        2 => {
            // small
            (rng.range(-300, 300) as i128).clamp(lo, hi)
        }
        _ => {
            let span = (hi - lo) as u128 + 1;
            let r = ((rng.next_u64() as u128) << 64 | rng.next_u64() as u128) % span;
            lo + r as i128
        }
    }
}

fn with_nulls(rng: &mut Rng, vals: Vec<String>, garbage: &dyn Fn(&mut Rng) -> String) -> Vec<String> {
    let p = *rng.pick(&[0u64, 0, 1, 1, 3]);
    vals.into_iter()
        .map(|v| {
            if p > 0 && rng.chance(p, 8) {
                if rng.chance(1, 4) { "n".to_string() } else { format!("n:{}", garbage(rng)) }
            } else {
                v
            }
        })
        .collect()
}

fn n_rows(rng: &mut Rng) -> usize {
    *rng.pick(&[0usize, 1, 1, 2, 3, 5, 8, 9, 17, 33])
}

fn int_vals(rng: &mut Rng, ty: &str) -> Vec<String> {
    let (lo, hi) = int_range(ty).unwrap();
    let n = n_rows(rng);
    let v: Vec<String> = (0..n).map(|_| band(rng, lo, hi).to_string()).collect();
    with_nulls(rng, v, &|r| band(r, lo, hi).to_string())
}

fn nines(k: usize) -> String {
    "9".repeat(k)
}

/// a decimal integer string with at most `p` digits (in domain) or more (ood)
fn dec_val(rng: &mut Rng, w: u32, p: usize, ood: bool) -> String {
    let native_digits = match w {
        32 => 10,
        64 => 19,
        128 => 39,
        _ => 77,
    };
    let neg = rng.bool();
    let body = if ood {
        match rng.below(6) {
            0 => {
                return match (w, neg) {
                    (32, false) => i32::MAX.to_string(),
                    (32, true) => i32::MIN.to_string(),
                    (64, false) => i64::MAX.to_string(),
                    (64, true) => i64::MIN.to_string(),
                    (128, false) => i128::MAX.to_string(),
                    (128, true) => i128::MIN.to_string(),
                    (_, false) => i256::MAX.to_string(),
                    (_, true) => i256::MIN.to_string(),
                };
            }
            1 => format!("1{}", "0".repeat(p)),
            2 => format!("1{}1", "0".repeat(p - 1)),
            _ => {
                if p + 1 > native_digits - 1 {
                    format!("1{}", "0".repeat(p))
                } else {
                    let k = p + 1 + rng.usize(native_digits - 1 - p);
                    let mut s = String::new();
                    s.push((b'1' + rng.below(9) as u8) as char);
                    for _ in 1..k {
                        s.push((b'0' + rng.below(10) as u8) as char);
                    }
                    s
                }
            }
        }
    } else {
        let k = if rng.chance(1, 3) { p } else { 1 + rng.usize(p) };
        match rng.below(9) {
            0 => "0".to_string(),
            1 => nines(k),
            2 => format!("1{}", "0".repeat(k - 1)),
            3 if k >= 2 => format!("1{}1", "0".repeat(k - 2)),
            4 => format!("4{}", nines(k - 1)),
            5 => format!("5{}", "0".repeat(k - 1)),
            6 if k >= 2 => format!("5{}1", "0".repeat(k - 2)),
            7 if k >= 2 => format!("{}5{}", 1 + rng.below(9), "0".repeat(k - 2)),
            _ => {
                let mut s = String::new();
                s.push((b'1' + rng.below(9) as u8) as char);
                for _ in 1..k {
                    s.push((b'0' + rng.below(10) as u8) as char);
                }
                s
            }
        }
    };
    // ood bodies with digit count = native_digits might not fit; they are built to fit
    if neg && body != "0" { format!("-{}", body) } else { body }
}

fn max_p(w: u32) -> usize {
    match w {
        32 => 9,
        64 => 18,
        128 => 38,
        _ => 76,
    }
}

fn gen_width(rng: &mut Rng) -> u32 {
    *rng.pick(&[32u32, 64, 128, 128, 128, 256, 256, 256])
}

fn gen_prec(rng: &mut Rng, w: u32) -> usize {
    let m = max_p(w);
    match rng.below(4) {
        0 => m,
        1 => *rng.pick(&[1usize, 2, 3, m - 1, m / 2]),
        _ => 1 + rng.usize(m),
    }
}

fn gen_scale(rng: &mut Rng, p: usize) -> i64 {
    match rng.below(8) {
        0 => 0,
        1 => p as i64,
        2 => -(rng.range(1, 6)),
        3 => -(rng.range(1, 40)),
        _ => rng.range(0, p as i64),
    }
}

fn dec_tok(w: u32, p: usize, s: i64) -> String {
    format!("d{}:{}:{}", w, p, s)
}

fn dec_vals(rng: &mut Rng, w: u32, p: usize, ood: bool) -> Vec<String> {
    let n = n_rows(rng).max(1);
    let v: Vec<String> = (0..n).map(|_| { let o = ood && rng.chance(1, 2); dec_val(rng, w, p, o) }).collect();
    with_nulls(rng, v, &|r| dec_val(r, w, p, true))
}

fn join(v: &[String]) -> String {
    if v.is_empty() { "-".into() } else { v.join(",") }
}

fn nt_of(vals: &[String]) -> &'static str {
    if vals.iter().any(|v| !v.starts_with('n')) { "nt" } else { "" }
}

fn str_tok(s: &str) -> String {
    xhex(s.as_bytes())
}

/// adversarial numeric strings
fn num_string(rng: &mut Rng) -> String {
    let core = match rng.below(10) {
        0 => band(rng, i64::MIN as i128 - 3, u64::MAX as i128 + 3).to_string(),
        1 => format!("+{}", band(rng, 0, u64::MAX as i128)),
        2 => format!("{}{}", "0".repeat(1 + rng.usize(25)), band(rng, 0, 70000)),
        3 => format!("-{}", "0".repeat(1 + rng.usize(4))),
        4 => rng.pick(&["", "-", "+", "--1", "+-1", "1-", "1+", "0x10", "1e3", "1.0", "1.", ".5", "1_000", "٣", "1 2", "- 1", "+ 1", "NaN", "inf", "true"]).to_string(),
        5 => band(rng, -70000, 70000).to_string(),
        6 => band(rng, i8::MIN as i128 - 2, u8::MAX as i128 + 2).to_string(),
        7 => band(rng, i32::MIN as i128 - 2, u32::MAX as i128 + 2).to_string(),
        8 => format!("{}", band(rng, i64::MAX as i128 - 2, u64::MAX as i128 + 2)),
        _ => format!("{}{}", band(rng, 1, 99), "0".repeat(rng.usize(22))),
    };
    let ws = [" ", "\t", "\n", "\r", "\x0c", "  ", "\u{a0}", "\x0b"];
    match rng.below(8) {
        0 => format!("{}{}", rng.pick(&ws), core),
        1 => format!("{}{}", core, rng.pick(&ws)),
        2 => format!("{}{}{}", rng.pick(&ws), core, rng.pick(&ws)),
        _ => core,
    }
}

/// adversarial decimal strings
fn dec_string(rng: &mut Rng, p: usize, s: i64) -> String {
    let digs = |rng: &mut Rng, k: usize| -> String { (0..k).map(|_| (b'0' + rng.below(10) as u8) as char).collect() };
    let sign = *rng.pick(&["", "", "-", "+"]);
    let s = s.max(0) as usize;
    let core = match rng.below(10) {
        0 => {
            // exactly representable: ≤ p-s integer digits, ≤ s fractional digits
            let a = { let k_ = rng.usize(p - s.min(p) + 1); digs(rng, k_) };
            let b = { let k_ = rng.usize(s + 1); digs(rng, k_) };
            if b.is_empty() && rng.bool() { a } else { format!("{}.{}", a, b) }
        }
        1 => {
            // extra fractional digits: rounding, incl. ...5 and 9.99…95 carries
            let a = { let k_ = rng.usize(p - s.min(p) + 1); digs(rng, k_) };
            let b = if rng.bool() { nines(s) } else { digs(rng, s) };
            let c = *rng.pick(&["4", "5", "49", "50", "499999", "500000", "9", "0", "05"]);
            format!("{}.{}{}", a, b, c)
        }
        2 => format!("{}.{}", nines(p - s.min(p)), nines(s)),
        3 => format!("{}.{}5", nines(p - s.min(p)), nines(s)),
        4 => format!("{}{}", "0".repeat(rng.usize(30)), { let k_ = 1 + rng.usize(p); digs(rng, k_) }),
        5 => rng.pick(&["", ".", "-", "+", "-.", "1.2.3", "1e5", "1E-2", "abc", "1,5", "--1", "1-", ". 5", "0x1", "1.5 ", " 1.5", "\t7\n", "1 .5"]).to_string(),
        6 => format!("{}", { let k_ = p + 1 + rng.usize(3); digs(rng, k_) }),
        7 => format!(".{}", { let k_ = 1 + rng.usize(s + 3); digs(rng, k_) }),
        8 => format!("{}.", { let k_ = 1 + rng.usize(p); digs(rng, k_) }),
        _ => format!("{}.{}", { let k_ = rng.usize(45); digs(rng, k_) }, { let k_ = rng.usize(45); digs(rng, k_) }),
    };
    format!("{}{}", sign, core)
}


// ---------------------------------------------------------------- dense boundary enumeration

fn p10(k: u32) -> i256 {
    pow10_256(k)
}
fn i256_of(v: i128) -> i256 {
    i256::from_i128(v)
}
fn native_fits(w: u32, v: i256) -> bool {
    match w {
        32 => v >= i256_of(i32::MIN as i128) && v <= i256_of(i32::MAX as i128),
        64 => v >= i256_of(i64::MIN as i128) && v <= i256_of(i64::MAX as i128),
        128 => v >= i256_of(i128::MIN) && v <= i256_of(i128::MAX),
        _ => true,
    }
}
/// number of decimal digits of the widest magnitude of an integer type
fn type_digits(t: &str) -> usize {
    match t {
        "i8" | "u8" => 3,
        "i16" | "u16" => 5,
        "i32" | "u32" => 10,
        "i64" => 19,
        _ => 20,
    }
}

/// Deterministic, exhaustive-over-parameters boundary cases (emitted in every run, both modes):
/// precisions around the digit count of the source/target type, values at and around
/// `10^(p-s)`, `±(10^p - 1)`, `±10^p`, type MIN/MAX, and the rounding carry into `10^p2`.
fn boundary_cases() -> Vec<(String, String)> {
    let mut out = vec![];
    let widths = [32u32, 64, 128, 256];
    let mut push = |src: String, dst: String, vals: Vec<i256>, srcw: Option<u32>, tag: &str| {
        let mut v: Vec<String> = vec![];
        for x in vals {
            if srcw.map_or(true, |w| native_fits(w, x)) {
                let t = x.to_string();
                if !v.contains(&t) {
                    v.push(t);
                }
            }
        }
        if v.is_empty() {
            return;
        }
        // a null with an extreme-but-native payload in front
        v.insert(0, format!("n:{}", v[v.len() - 1]));
        for safe in [1, 0] {
            out.push((format!("C13 cast 0 {} {} {} {}", src, dst, safe, v.join(",")), format!("op:cast g:boundary-{} safe:{} nt", tag, safe)));
        }
    };
    // integer -> decimal
    for src in INTS {
        let (lo, hi) = int_range(src).unwrap();
        let d = type_digits(src);
        for w in widths {
            for s in [0usize, 1, 3] {
                for dp in [-1i64, 0, 1] {
                    let p = d as i64 + dp + s as i64;
                    if p < 1 || p as usize > max_p(w) || s as i64 > p {
                        continue;
                    }
                    let k = (p as usize - s) as u32;
                    let mut vals = vec![];
                    for b in [p10(k), p10(k.saturating_sub(1))] {
                        for dlt in [-1i128, 0, 1] {
                            vals.push(b.wrapping_add(i256_of(dlt)));
                            vals.push(b.wrapping_neg().wrapping_add(i256_of(dlt)));
                        }
                    }
                    for x in [lo, lo + 1, hi, hi - 1, 0, 1, -1] {
                        vals.push(i256_of(x));
                    }
                    let vals: Vec<i256> = vals.into_iter().filter(|x| *x >= i256_of(lo) && *x <= i256_of(hi)).collect();
                    push(src.to_string(), dec_tok(w, p as usize, s as i64), vals, None, "int-dec");
                }
            }
        }
    }
    // decimal -> integer
    for dst in INTS {
        let (lo, hi) = int_range(dst).unwrap();
        let d = type_digits(dst);
        for w in widths {
            for s in [0usize, 1, 3] {
                for dp in [-1i64, 0, 1] {
                    let p = d as i64 + dp + s as i64;
                    if p < 1 || p as usize > max_p(w) {
                        continue;
                    }
                    let sc = p10(s as u32);
                    let mut vals = vec![];
                    for b in [p10(p as u32), p10(p as u32 - 1)] {
                        for dlt in [-1i128, 0] {
                            vals.push(b.wrapping_add(i256_of(dlt)));
                            vals.push(b.wrapping_add(i256_of(dlt)).wrapping_neg());
                        }
                    }
                    for e in [hi, hi + 1, lo, lo - 1] {
                        let b = i256_of(e).wrapping_mul(sc);
                        for dlt in [-1i128, 0, 1] {
                            vals.push(b.wrapping_add(i256_of(dlt)));
                        }
                        // last value that still truncates to e / first that does not
                        let edge = if e >= 0 { b.wrapping_add(sc).wrapping_sub(i256::ONE) } else { b.wrapping_sub(sc).wrapping_add(i256::ONE) };
                        vals.push(edge);
                    }
                    vals.push(i256::ZERO);
                    // keep the declared-precision domain (out-of-domain values run in the random stream)
                    let lim = p10(p as u32);
                    let vals: Vec<i256> = vals.into_iter().filter(|x| *x < lim && *x > lim.wrapping_neg()).collect();
                    push(dec_tok(w, p as usize, s as i64), dst.to_string(), vals, Some(w), "dec-int");
                }
            }
        }
    }
    // decimal -> decimal
    for w1 in widths {
        for w2 in widths {
            for p1 in [3usize, max_p(w1)] {
                for s1 in [0i64, 2] {
                    for delta in [-2i64, -1, 0, 1, 2] {
                        for dp in [-1i64, 0, 1] {
                            let p2 = p1 as i64 + delta + dp;
                            let s2 = s1 + delta;
                            if p2 < 1 || p2 as usize > max_p(w2) || s2 > p2 || s1 > p1 as i64 {
                                continue;
                            }
                            let mut vals = vec![];
                            for b in [p10(p1 as u32), p10(p1 as u32 - 1)] {
                                for dlt in [-1i128, 0] {
                                    let x = b.wrapping_add(i256_of(dlt));
                                    vals.push(x);
                                    vals.push(x.wrapping_neg());
                                }
                            }
                            // inputs whose rescaled image is at the output boundary 10^p2 - 1 | 10^p2
                            let bt = p10(p2 as u32);
                            if delta >= 0 {
                                let m = p10(delta as u32);
                                let q = bt.wrapping_div(m);
                                for dlt in [-1i128, 0, 1] {
                                    let x = q.wrapping_add(i256_of(dlt));
                                    vals.push(x);
                                    vals.push(x.wrapping_neg());
                                }
                            } else {
                                let k = (-delta) as u32;
                                let m = p10(k);
                                let half = p10(k - 1).wrapping_mul(i256_of(5));
                                for base in [bt.wrapping_mul(m), bt.wrapping_sub(i256::ONE).wrapping_mul(m)] {
                                    for x in [base.wrapping_sub(half).wrapping_sub(i256::ONE), base.wrapping_sub(half), base, base.wrapping_add(half).wrapping_sub(i256::ONE), base.wrapping_add(half)] {
                                        vals.push(x);
                                        vals.push(x.wrapping_neg());
                                    }
                                }
                            }
                            vals.push(i256::ZERO);
                            let lim = p10(p1 as u32);
                            let vals: Vec<i256> = vals.into_iter().filter(|x| *x < lim && *x > lim.wrapping_neg()).collect();
                            push(dec_tok(w1, p1, s1), dec_tok(w2, p2 as usize, s2), vals, Some(w1), "dec-dec");
                        }
                    }
                }
            }
        }
    }
    out
}

// ------------------------------------------------------------------ dense float boundaries

fn next_up(x: f64) -> f64 {
    if x == 0.0 { return f64::from_bits(1); }
    let b = x.to_bits();
    f64::from_bits(if x > 0.0 { b + 1 } else { b - 1 })
}
fn next_down(x: f64) -> f64 {
    -next_up(-x)
}
fn next_up32(x: f32) -> f32 {
    if x == 0.0 { return f32::from_bits(1); }
    let b = x.to_bits();
    f32::from_bits(if x > 0.0 { b + 1 } else { b - 1 })
}

fn ftok(ty: &str, x: f64) -> String {
    match ty {
        "f16" => (half::f16::from_f64(x).to_bits() as u64).to_string(),
        "f32" => ((x as f32).to_bits() as u64).to_string(),
        _ => x.to_bits().to_string(),
    }
}

/// boundary values of a float format with `fb` fraction bits (52 / 23 / 10), as f64
fn float_edge_values(fbits: u32) -> Vec<f64> {
    let t = 2f64.powi(fbits as i32); // 2^fb: spacing 1 starts here
    let mut v: Vec<f64> = vec![0.0, 0.5, 1.0, 1.5, 2.5, 3.5, 4.5, 0.25, 0.75, 0.49999999999999994, 0.5000000000000001, 1e-320, 5e-324, f64::MIN_POSITIVE];
    for k in 0..10 {
        let k = k as f64;
        v.extend_from_slice(&[t + k, 2.0 * t - k, 2.0 * t + 2.0 * k, t / 2.0 + k + 0.5, t - k - 0.5, t / 4.0 + k + 0.25, t / 4.0 + k + 0.5, k + 0.5]);
    }
    if fbits == 52 {
        let more: Vec<f64> = v.iter().flat_map(|x| [next_up(*x), next_down(*x)]).collect();
        v.extend(more);
        for p in [1i32, 2, 5, 9, 10, 15, 16, 17, 18, 19, 20, 22, 23, 38, 39, 76] {
            let b = 10f64.powi(p);
            v.extend_from_slice(&[b, next_down(b), next_up(b), b - 1.0, next_down(b - 1.0), next_up(b - 1.0), b - 0.5, b / 10.0 + 0.5]);
        }
        v.extend_from_slice(&[1.005, 2.675, 0.285, 1.0049999999999999, 0.145, 8.345, 1e22 + 2097152.0, 4503599627370497.0 / 10.0, 450359962737049.75]);
    } else if fbits == 23 {
        let more: Vec<f64> = v.iter().flat_map(|x| { let y = *x as f32; [next_up32(y) as f64, -(next_up32(-y)) as f64] }).collect();
        v.extend(more);
        v.extend_from_slice(&[16777216.0, 16777215.0, 8388608.5, 8388607.5, 9999999.0, 1e7, 99999.99, 0.1, 3.4028235e38]);
    } else {
        v.extend_from_slice(&[2047.0, 2048.0, 2049.0, 1023.5, 1024.5, 511.5, 512.25, 65504.0, 0.1, 999.5, 99.94, 5.96e-8, 6.1e-5]);
    }
    let neg: Vec<f64> = v.iter().map(|x| -*x).collect();
    v.extend(neg);
    v.extend_from_slice(&[f64::NAN, f64::INFINITY, f64::NEG_INFINITY]);
    v
}

fn float_boundary_cases() -> Vec<(String, String)> {
    let mut out = vec![];
    let chunk = 24usize;
    for (fl, fbits) in [("f64", 52u32), ("f32", 23), ("f16", 10)] {
        let vals = float_edge_values(fbits);
        let toks: Vec<String> = {
            let mut t: Vec<String> = vec![];
            for x in &vals {
                let s = ftok(fl, *x);
                if !t.contains(&s) {
                    t.push(s);
                }
            }
            t
        };
        // float -> decimal: all widths, precisions at/around the 2^53 digit count and the maximum, scales 0/1/2/-1
        for w in [32u32, 64, 128, 256] {
            let mut ps: Vec<usize> = vec![max_p(w), 5];
            for p in [16usize, 17, 20] {
                if p < max_p(w) {
                    ps.push(p);
                }
            }
            for p in ps {
                for s in [0i64, 1, 2, -1] {
                    if s > p as i64 {
                        continue;
                    }
                    for (ci, c) in toks.chunks(chunk).enumerate() {
                        // scale 0 gets every value; other scales every second chunk
                        if s != 0 && (ci + p + w as usize) % 2 == 1 {
                            continue;
                        }
                        for safe in [1, 0] {
                            out.push((
                                format!("C13 cast 0 {} {} {} n:{},{}", fl, dec_tok(w, p, s), safe, c[0], c.join(",")),
                                format!("op:cast g:boundary-float-dec safe:{} nt", safe),
                            ));
                        }
                    }
                }
            }
        }
    }
    // float -> integer: around every integer type's MIN/MAX
    for (fl, fbits) in [("f64", 52u32), ("f32", 23), ("f16", 10)] {
        for dst in INTS {
            let (lo, hi) = int_range(dst).unwrap();
            let mut v: Vec<f64> = vec![0.0, -0.0, 0.5, -0.5, 0.99, -0.99, 1.5, -1.5, f64::NAN, f64::INFINITY, f64::NEG_INFINITY];
            for e in [lo as f64, hi as f64, hi as f64 + 1.0] {
                for d in [-2.0, -1.5, -1.0, -0.5, -0.25, 0.0, 0.25, 0.5, 1.0, 1.5, 2.0] {
                    v.push(e + d);
                }
                v.push(next_up(e));
                v.push(next_down(e));
                v.push(e * 2.0);
            }
            let _ = fbits;
            let mut t: Vec<String> = vec![];
            for x in &v {
                let s = ftok(fl, *x);
                if !t.contains(&s) {
                    t.push(s);
                }
            }
            for safe in [1, 0] {
                out.push((format!("C13 cast 0 {} {} {} {}", fl, dst, safe, t.join(",")), format!("op:cast g:boundary-float-int safe:{} nt", safe)));
            }
        }
    }
    // integer -> float: around 2^24 / 2^53 (rounding to even) and type MIN/MAX
    for src in INTS {
        let (lo, hi) = int_range(src).unwrap();
        let mut v: Vec<i128> = vec![lo, lo + 1, hi, hi - 1, 0, 1];
        for k in [24u32, 25, 53, 54, 63] {
            let b = 1i128 << k;
            for d in -3i128..=3 {
                v.push(b + d);
                v.push(-b + d);
            }
        }
        let t: Vec<String> = v.into_iter().filter(|x| *x >= lo && *x <= hi).map(|x| x.to_string()).collect();
        for fl in ["f32", "f64"] {
            out.push((format!("C13 cast 0 {} {} 1 {}", src, fl, t.join(",")), "op:cast g:boundary-int-float safe:1 nt".to_string()));
        }
    }
    out
}

/// deterministic block: null source, bool/float, Float16 targets, decimal -> float, and the
/// encoded entry points (dictionary flavours, run-end, slice) over modelled pairs
fn extra_boundary_cases() -> Vec<(String, String)> {
    let mut out = vec![];
    let mut both = |src: &str, dst: &str, vals: String, tag: &str| {
        for safe in [1, 0] {
            out.push((format!("C13 cast 1 {} {} {} {}", src, dst, safe, vals), format!("op:cast g:{} safe:{} nt", tag, safe)));
        }
    };
    for dst in ["i8", "u64", "f32", "f16", "bool", "utf8", "utf8v", "d128:10:2", "d256:76:0", "ts:s", "date32", "date64", "dur:ms", "t32:s", "t64:ns"] {
        both("null", dst, "n,n,n".into(), "null-src");
        both("null", dst, "-".into(), "null-src");
    }
    for fl in ["f16", "f32", "f64"] {
        both("bool", fl, "0,1,n:1,n,1,0".into(), "bool-float");
        let v: Vec<String> = [0.0, -0.0, 1.0, -1.0, 0.5, 5e-324, 6e-8, f64::NAN, f64::INFINITY, f64::NEG_INFINITY, 65504.0].iter().map(|x| ftok(fl, *x)).collect();
        both(fl, "bool", format!("n:{},{}", v[2], v.join(",")), "float-bool");
    }
    // integer / float -> Float16 (via f32: double rounding) and -> f32 / f64
    let ints: Vec<i128> = vec![0, 1, -1, 2047, 2048, 2049, 2050, 2051, 4095, 4097, 4098, 4099, 65503, 65504, 65519, 65520, 65535, 65536, 16777217, 16779265, 33556481, -2049, -65520, 134225921, 9007199254740993, 1125899906842625, 36028797018963969];
    for src in INTS {
        let (lo, hi) = int_range(src).unwrap();
        let t: Vec<String> = ints.iter().filter(|x| **x >= lo && **x <= hi).map(|x| x.to_string()).chain([lo.to_string(), hi.to_string()]).collect();
        both(src, "f16", t.join(","), "int-f16");
    }
    let h = |k: i32| 2f64.powi(k);
    let f16_edges: Vec<f64> = vec![
        1.0 + h(-11), 1.0 + h(-11) + h(-40), 1.0 + h(-11) - h(-40), 1.0 + h(-11) + h(-24), 1.0 + h(-11) + h(-25), 1.0 + 3.0 * h(-11), 1.0 + 3.0 * h(-11) - h(-30),
        65504.0, 65519.9, 65520.0, 65519.99999999999, 65536.0, 1e5, h(-24), h(-25), h(-25) + h(-60), 1.5 * h(-24), h(-14), h(-14) - h(-25), 2049.0, 2051.0, 2050.0000001, 0.1, 0.0, f64::NAN, f64::INFINITY,
    ];
    for fl in ["f64", "f32"] {
        let mut t: Vec<String> = vec![];
        for x in &f16_edges {
            for y in [*x, -*x] {
                let s = ftok(fl, y);
                if !t.contains(&s) {
                    t.push(s);
                }
            }
        }
        both(fl, "f16", t.join(","), "float-f16");
    }
    let f32_edges: Vec<f64> = vec![1.0 + h(-24), 1.0 + h(-24) + h(-52), 1.0 + h(-24) - h(-53), 1.0 + 3.0 * h(-24), 16777217.0, 3.4028235677973366e38, 3.4028235677973362e38, 3.5e38, h(-149), h(-150), h(-150) + h(-200), h(-126) - h(-150), 1e-46, 0.1];
    both("f64", "f32", f32_edges.iter().flat_map(|x| [ftok("f64", *x), ftok("f64", -*x)]).collect::<Vec<_>>().join(","), "float-f32");
    // decimal -> float
    for (w, p) in [(32u32, 9usize), (64, 18), (128, 38), (256, 76)] {
        for s in [0i64, 2, -2, p as i64] {
            let mut v: Vec<String> = vec!["0".into(), "1".into(), "-1".into(), "3".into(), "15".into(), "-25".into(), nines(p), format!("-{}", nines(p)), format!("1{}", "0".repeat(p - 1))];
            for x in ["16777217", "9007199254740993", "-9007199254740993", "9007199254740995", "18014398509481985", "123456789012345678901234567890", "340282366920938463463374607431768211455", "57896044618658097711785492504343953926634992332820282019728792003956564819967"] {
                if x.trim_start_matches('-').len() <= p {
                    v.push(x.to_string());
                }
            }
            for fl in ["f64", "f32", "f16"] {
                both(&dec_tok(w, p, s), fl, v.join(","), "dec-float");
            }
        }
    }
    // byte containers: every arm of the Binary / LargeBinary / BinaryView / FixedSizeBinary / Utf8 family
    let bytes_vals = "x,x61,xc3a9,xe282ac,xf09f9880,xff,xc3,xc080,xeda080,xf5808080,xe282,x6162636465666768696a6b6c,x6162636465666768696a6b6c6d,x6162636465666768696a6bc3a9,n,n:xff,n:x61,xf4908080,x00,x7f";
    let text_vals = "x,x61,xc3a9,xe282ac,xf09f9880,x6162636465666768696a6b6c,x6162636465666768696a6b6c6d,x6162636465666768696a6bc3a9,n,x00,x7f";
    for src in ["bin", "lbin", "binv"] {
        for dst in ["bin", "lbin", "binv", "utf8", "lutf8", "utf8v"] {
            if src != dst {
                both(src, dst, bytes_vals.into(), "bytes");
            }
        }
    }
    for src in ["bin", "lbin"] {
        for dst in ["utf8", "lutf8", "utf8v"] {
            // every row valid UTF-8; only the bytes under the null slot are not
            both(src, dst, "x61,n:xff,xc3a9,n:xc3,x".into(), "bytes-null-payload");
        }
    }
    for src in ["bin", "lbin"] {
        for n in [0, 1, 2, 4] {
            both(src, &format!("fsb:{}", n), "x,x61,xc3a9,x61626364,xff,n,n:x6161,x6162,x0000,x6162636465".into(), "bytes-fsb");
        }
    }
    for (n, vals) in [(0, "x,n,x"), (1, "x61,xff,n,n:x62,x00"), (2, "x6162,xffc3,n,xc3a9"), (4, "x61626364,xf09f9880,n,xffffffff")] {
        for dst in ["bin", "lbin", "binv"] {
            both(&format!("fsb:{}", n), dst, vals.into(), "bytes-fsb");
        }
    }
    for src in ["utf8", "lutf8", "utf8v"] {
        for dst in ["bin", "lbin", "binv"] {
            both(src, dst, text_vals.into(), "bytes");
        }
    }
    for src in INTS {
        let (lo, hi) = int_range(src).unwrap();
        for dst in ["bin", "lbin"] {
            both(src, dst, format!("{},{},0,1,n:77,258,n", lo, hi).replace("258", &(258i128.min(hi)).to_string()), "int-bytes");
        }
    }
    // intervals and durations
    both("iym", "imdn", "0,1,-1,2147483647,-2147483648,n:5,n".into(), "interval");
    both("i32", "iym", "0,1,-1,2147483647,-2147483648,n:5,n".into(), "interval");
    both("idt", "imdn", "0/0,1/1,-1/-1,2147483647/2147483647,-2147483648/-2147483648,n:3/4,n,0/999,5/0".into(), "interval");
    for u in UNITS {
        both(&format!("dur:{u}"), "imdn", "0,1,-1,9223372036,9223372037,-9223372036,-9223372037,9223372036854,9223372036855,9223372036854775,9223372036854776,9223372036854775807,-9223372036854775808,n:9223372036854775807,n".into(), "interval");
        both("imdn", &format!("dur:{u}"), "0/0/0,0/0/1,0/0/-1,0/0/999,0/0/1000,0/0/-1999,0/0/999999999,0/0/1000000000,0/0/-1000000001,0/0/9223372036854775807,0/0/-9223372036854775808,1/0/5,0/1/5,-1/0/0,0/-1/0,n:1/1/1,n:0/0/7,n".into(), "interval");
    }
    // text round trips of the remaining temporal / interval types (implementation-level oracle)
    for (src, vals) in [
        ("t32:s", "0,1,59,60,3599,3600,43200,86399,n:5,n"),
        ("t32:ms", "0,1,999,1000,59999,86399999,3600000"),
        ("t64:us", "0,1,999999,1000000,86399999999"),
        ("t64:ns", "0,1,999,1000,999999999,1000000000,60000000000,86399999999999,123456789"),
        ("date64", "0,1,86399999,86400000,-1,-86400000,253402214400000,253402300799999,-62135596800000,n"),
        ("iym", "0,1,-1,11,12,13,-11,-12,-13,25,2147483647,-2147483640,-2147483641,-2147483648"),
        ("idt", "0/0,1/1,-1/-1,1/-1,-1/1,0/-1,3/999,0/1000,0/60000,0/3600000,0/86400000,2147483647/2147483647,-2147483648/-2147483648"),
        ("imdn", "0/0/0,1/1/1,-1/-1/-1,1/-1/1,-1/1/-1,0/0/-1,13/40/999999999,0/0/1000000000,0/0/60000000000,0/0/3600000000000,12/0/0,-12/0/0,2147483647/2147483647/9223372036854775807,-2147483648/-2147483648/-9223372036854775808"),
        ("ts:ms", "0,1,-1,253402300799999,-62135596800000"),
        ("ts:ns", "0,1,-1,999999999,-999999999,9223372036854775807,-9223372036854775808"),
        ("f16", "15360,0,32768,31743,64511,1,1024,1023,15361,11878"),
    ] {
        for mid in ["utf8", "lutf8", "utf8v"] {
            for (i, chunk) in vals.split(',').collect::<Vec<_>>().chunks(1).enumerate() {
                // one value per line so that one failing value does not hide the others
                if mid != "utf8" && i % 3 != 0 {
                    continue;
                }
                out.push((format!("C13 rt 0 {} {} {}", src, mid, chunk.join(",")), "op:rt g:rt-text-temporal nt".to_string()));
            }
        }
    }
    // encoded entry points
    let pairs: [(&str, &str, &str); 18] = [
        ("i32", "i8", "127,128,n:300,-128,-129,n,127,127,5,5,5,n:7"),
        ("i64", "d128:10:2", "99999999,100000000,n:100000000,-99999999,1,1,n"),
        ("d128:5:2", "d128:3:0", "99949,99950,n:99999,-99950,49,50,50,n"),
        ("utf8", "i16", "x3132,x2d3332373638,x3332373638,n,x20370a,x3132,x61"),
        ("i16", "utf8", "-32768,0,n:5,32767,0,0"),
        ("f64", "d64:10:1", "4602678819172646912,4591870180066957722,n:4607182418800017408,4890909195324358656,9218868437227405312"),
        ("date32", "ts:us", "0,1,n:2147483647,106751991,106751992,-106751992,1,1"),
        ("u64", "d128:19:0", "9999999999999999999,10000000000000000000,18446744073709551615,n,0,0"),
        ("d256:10:0", "d128:20:5", "9999999999,n,-1,1,1"),
        ("bool", "i8", "1,0,n:1,1,1,n"),
        ("i32", "i8", "1,2,2,n:1000,3,-128,127"),
        ("utf8", "i64", "x31,x32,x32,n,x2d37"),
        ("i64", "i16", "5,5,5,6"),
        ("d128:10:2", "d128:4:0", "149,150,n:99999999,-150"),
        ("f64", "i32", "4607182418800017408,4611686018427387904,n:9218868437227405312"),
        ("ts:s", "ts:ns", "1,2,n:9223372036854775807,2"),
        ("date64", "date32", "0,86400000,n:9223372036854775807"),
        ("i16", "d32:5:1", "9999,-9999,n:32767,0"),
    ];
    for kind in [
        "dict:i8:0", "dict:i32:1", "dict:u16:2", "dict:i32:4", "dict:i64:7", "dict:i32:3", "ree:run", "ree:split", "slice", "list:1", "list:2", "llist:3", "lview:2", "fsl:1", "fsl:2",
        "rees:i16:f", "rees:i16:b", "rees:i16:fb", "rees:i32:f", "rees:i32:b", "rees:i32:fb", "rees:i64:f", "rees:i64:b", "rees:i64:fb",
        "lists:1:f", "lists:2:fb", "llists:1:b", "llists:3:fb", "lviews:1:fb", "lviews:2:f", "fsls:1:fb", "fsls:2:b", "structs:0:f", "structs:0:fb",
    ] {
        for (src, dst, vals) in pairs {
            for safe in [1, 0] {
                out.push((format!("C13 enc {} 0 {} {} {} {}", kind, src, dst, safe, vals), format!("op:enc g:enc-{} safe:{} nt", kind.replace(':', "-"), safe)));
            }
        }
    }
    out
}

fn gen_cast(rng: &mut Rng) -> (String, String) {
    let var = gen_var(rng);
    let safe = rng.below(2);
    let g = rng.below(100);
    let (src, dst, vals, tag): (String, String, Vec<String>, String) = if g < 16 {
        // integer ↔ integer, every ordered pair
        let s = *rng.pick(&INTS);
        let d = *rng.pick(&INTS);
        let vals = if (s == "i8" || s == "u8") && rng.chance(1, 3) {
            let (lo, hi) = int_range(s).unwrap();
            (lo..=hi).map(|x| x.to_string()).collect()
        } else {
            int_vals(rng, s)
        };
        (s.into(), d.into(), vals, "g:int-int".into())
    } else if g < 28 {
        // integer → decimal
        let s = *rng.pick(&INTS);
        let w = gen_width(rng);
        let (p, sc) = if rng.chance(1, 2) {
            // precision around the digit count of the source type (plus the scale)
            let sc = rng.range(0, 4);
            let p = (type_digits(s) as i64 + rng.range(-1, 1) + sc).clamp(1, max_p(w) as i64) as usize;
            (p, sc.min(p as i64))
        } else {
            let p = gen_prec(rng, w);
            (p, gen_scale(rng, p))
        };
        let mut vals = int_vals(rng, s);
        if sc >= 0 && p as i64 >= sc && rng.chance(2, 3) {
            // values at and around 10^(p-s), clipped to the source range
            let (lo, hi) = int_range(s).unwrap();
            let k = (p as i64 - sc) as u32;
            if k <= 38 {
                let b = 10i128.pow(k);
                for x in [b - 1, b, b + 1, -b + 1, -b, -b - 1, hi, lo] {
                    if x >= lo && x <= hi {
                        vals.push(x.to_string());
                    }
                }
            }
        }
        (s.into(), dec_tok(w, p, sc), vals, format!("g:int-dec sc:{}", if sc < 0 { "neg" } else { "nonneg" }))
    } else if g < 40 {
        // decimal → integer
        let d = *rng.pick(&INTS);
        let w = gen_width(rng);
        let p = gen_prec(rng, w);
        let sc = gen_scale(rng, p);
        let ood = rng.chance(1, 8);
        (dec_tok(w, p, sc), d.into(), dec_vals(rng, w, p, ood), format!("g:dec-int sc:{}", if sc < 0 { "neg" } else { "nonneg" }))
    } else if g < 62 {
        // decimal → decimal
        let (w1, w2) = if rng.chance(1, 2) { let w = gen_width(rng); (w, w) } else { (gen_width(rng), gen_width(rng)) };
        let p1 = gen_prec(rng, w1);
        let s1 = gen_scale(rng, p1);
        let p2 = gen_prec(rng, w2);
        let s2 = match rng.below(6) {
            0 => s1.min(p2 as i64),
            1 => (s1 + rng.range(1, 4)).min(p2 as i64),
            2 => s1 - rng.range(1, 4),
            3 => (s1 + (p2 as i64 - p1 as i64)).min(p2 as i64), // just infallible
            _ => gen_scale(rng, p2),
        }
        .min(p2 as i64);
        let ood = rng.chance(1, 5);
        let dir = if s2 > s1 { "up" } else if s2 < s1 { "down" } else { "same" };
        let inf = if s2 >= s1 { (p1 as i64) + (s2 - s1) <= p2 as i64 } else { (p1 as i64) - (s1 - s2) < p2 as i64 };
        (
            dec_tok(w1, p1, s1),
            dec_tok(w2, p2, s2),
            dec_vals(rng, w1, p1, ood),
            format!("g:dec-dec dir:{} {} {}", dir, if inf { "infallible" } else { "fallible" }, if w1 == w2 { "same-width" } else { "cross-width" }),
        )
    } else if g < 63 {
        // Decimal256 with a large scale increase (precision + scale delta beyond 127)
        let p1 = *rng.pick(&[76usize, 75, 70, 60, 52]);
        let s1 = rng.range(-3, 10);
        let p2 = *rng.pick(&[76usize, 76, 70]);
        let s2 = (s1 + rng.range(45, 76)).min(p2 as i64);
        (dec_tok(256, p1, s1), dec_tok(256, p2, s2), dec_vals(rng, 256, p1, false), "g:dec-dec dir:up big-delta".into())
    } else if g < 70 {
        // bool ↔ numeric / text
        if rng.bool() {
            let n = n_rows(rng);
            let v: Vec<String> = (0..n).map(|_| rng.below(2).to_string()).collect();
            let v = with_nulls(rng, v, &|r| r.below(2).to_string());
            let d = if rng.chance(1, 4) { *rng.pick(&["utf8", "lutf8", "utf8v", "f32", "f64"]) } else { *rng.pick(&INTS) };
            ("bool".into(), d.into(), v, "g:bool-num".into())
        } else if rng.chance(3, 4) {
            let s = *rng.pick(&INTS);
            (s.into(), "bool".into(), int_vals(rng, s), "g:num-bool".into())
        } else {
            let n = n_rows(rng);
            let v: Vec<String> = (0..n)
                .map(|_| str_tok(*rng.pick(&["true", "false", "t", "f", "yes", "no", "on", "off", "1", "0", "TRUE", "False", "y", "n", "", "2", " true", "tru"])))
                .collect();
            ("utf8".into(), "bool".into(), with_nulls(rng, v, &|_| "x".into()), "g:str-bool".into())
        }
    } else if g < 86 {
        // temporal
        let u1 = *rng.pick(&UNITS);
        let u2 = *rng.pick(&UNITS);
        let pairs: Vec<(String, String)> = vec![
            (format!("ts:{u1}"), format!("ts:{u2}")),
            (format!("dur:{u1}"), format!("dur:{u2}")),
            (format!("ts:{u1}"), "date64".into()),
            (format!("ts:{u1}"), "date32".into()),
            ("date32".into(), format!("ts:{u1}")),
            ("date64".into(), format!("ts:{u1}")),
            ("date32".into(), "date64".into()),
            ("date64".into(), "date32".into()),
            ("i64".into(), format!("ts:{u1}")),
            (format!("ts:{u1}"), "i64".into()),
            (format!("ts:{u1}"), "i32".into()),
            ("i32".into(), "date32".into()),
            ("i64".into(), "date32".into()),
            ("i32".into(), "date64".into()),
            ("date64".into(), "i32".into()),
            ("date32".into(), "i64".into()),
            (format!("dur:{u1}"), "i64".into()),
            ("i64".into(), format!("dur:{u1}")),
            ("i32".into(), format!("dur:{u1}")),
            ("t32:s".into(), "t32:ms".into()),
            ("t32:ms".into(), "t32:s".into()),
            (rng.pick(&["t32:s", "t32:ms"]).to_string(), rng.pick(&["t64:us", "t64:ns"]).to_string()),
            (rng.pick(&["t64:us", "t64:ns"]).to_string(), rng.pick(&["t32:s", "t32:ms", "t64:us", "t64:ns"]).to_string()),
            (format!("ts:{u1}"), rng.pick(&["t32:s", "t32:ms", "t64:us", "t64:ns"]).to_string()),
        ];
        let (s, d) = rng.pick(&pairs).clone();
        let vals = if s.starts_with("t32") || s.starts_with("t64") {
            let day: i128 = match s.as_str() {
                "t32:s" => 86_400,
                "t32:ms" => 86_400_000,
                "t64:us" => 86_400_000_000,
                _ => 86_400_000_000_000,
            };
            let n = n_rows(rng);
            let v: Vec<String> = (0..n).map(|_| band(rng, 0, day - 1).to_string()).collect();
            with_nulls(rng, v, &|r| band(r, 0, i32::MAX as i128).to_string())
        } else {
            let (lo, hi) = if s == "date32" || s == "i32" { (i32::MIN as i128, i32::MAX as i128) } else { (i64::MIN as i128, i64::MAX as i128) };
            let n = n_rows(rng);
            let v: Vec<String> = (0..n)
                .map(|_| {
                    if rng.chance(1, 3) {
                        // around the multiplication overflow points
                        let m = *rng.pick(&[1000i128, 1_000_000, 1_000_000_000, 86_400, 86_400_000, 86_400_000_000, 86_400_000_000_000]);
                        let q = if rng.bool() { hi / m } else { lo / m };
                        (q + rng.range(-2, 2) as i128).clamp(lo, hi).to_string()
                    } else if rng.chance(1, 3) {
                        // calendar range in the source unit
                        band(rng, -62_135_596_800, 253_402_300_799).clamp(lo, hi).to_string()
                    } else {
                        band(rng, lo, hi).to_string()
                    }
                })
                .collect();
            with_nulls(rng, v, &|r| band(r, lo, hi).to_string())
        };
        (s, d, vals, "g:temporal".into())
    } else if g < 93 {
        // text → number / decimal
        if rng.chance(1, 2) {
            let d = *rng.pick(&INTS);
            let n = n_rows(rng);
            let v: Vec<String> = (0..n).map(|_| str_tok(&num_string(rng))).collect();
            (rng.pick(&["utf8", "lutf8", "utf8v"]).to_string(), d.into(), with_nulls(rng, v, &|_| "x".into()), "g:str-int".into())
        } else {
            let w = gen_width(rng);
            let p = gen_prec(rng, w);
            let sc = if rng.chance(1, 12) { gen_scale(rng, p) } else { rng.range(0, p as i64) };
            let n = n_rows(rng);
            let v: Vec<String> = (0..n).map(|_| str_tok(&dec_string(rng, p, sc))).collect();
            (rng.pick(&["utf8", "lutf8", "utf8v"]).to_string(), dec_tok(w, p, sc), with_nulls(rng, v, &|_| "x".into()), "g:str-dec".into())
        }
    } else if g < 97 {
        // number / decimal → text
        if rng.chance(1, 2) {
            let s = *rng.pick(&INTS);
            (s.into(), rng.pick(&["utf8", "lutf8", "utf8v"]).to_string(), int_vals(rng, s), "g:int-str".into())
        } else {
            let w = gen_width(rng);
            let p = gen_prec(rng, w);
            let sc = gen_scale(rng, p);
            let ood = rng.chance(1, 10);
            (dec_tok(w, p, sc), rng.pick(&["utf8", "lutf8", "utf8v"]).to_string(), dec_vals(rng, w, p, ood), "g:dec-str".into())
        }
    } else {
        // floats (no Lean model: duality oracle only)
        let fl = *rng.pick(&["f16", "f32", "f64", "f64"]);
        let fbits = |rng: &mut Rng, fl: &str| -> String {
            let specials: [f64; 16] = [0.0, -0.0, 1.0, -1.0, 0.5, 1.5, 2.5, -2.5, 127.0, 128.0, 255.5, 256.0, 2147483648.0, 9.223372036854775807e18, 1e300, f64::MIN_POSITIVE];
            let x = match rng.below(6) {
                0 => *rng.pick(&specials),
                1 => *rng.pick(&[f64::NAN, f64::INFINITY, f64::NEG_INFINITY]),
                2 => rng.range(-70000, 70000) as f64 / 8.0,
                3 => {
                    let y = f64::from_bits(rng.next_u64());
                    if y.is_nan() { f64::NAN } else { y }
                }
                4 => {
                    // integers near 2^52..2^53 and half-way values
                    let b = 2f64.powi(*rng.pick(&[22i32, 23, 24, 51, 52, 53]));
                    let y = b + rng.range(-6, 6) as f64 * 0.5;
                    if rng.bool() { y } else { -y }
                }
                _ => (rng.next_u64() as i64) as f64,
            };
            ftok(fl, x)
        };
        if rng.chance(2, 3) {
            let n = n_rows(rng);
            let v: Vec<String> = (0..n).map(|_| fbits(rng, fl)).collect();
            let d = if rng.chance(1, 4) {
                let w = gen_width(rng);
                let p = gen_prec(rng, w);
                dec_tok(w, p, rng.range(0, p as i64))
            } else {
                rng.pick(&INTS).to_string()
            };
            (fl.into(), d, with_nulls(rng, v, &|_| "0".into()), "g:float-num".into())
        } else {
            let s = *rng.pick(&INTS);
            if rng.chance(1, 3) {
                let w = gen_width(rng);
                let p = gen_prec(rng, w);
                let sc = gen_scale(rng, p);
                (dec_tok(w, p, sc), fl.into(), dec_vals(rng, w, p, false), "g:dec-float".into())
            } else {
                (s.into(), fl.into(), int_vals(rng, s), "g:int-float".into())
            }
        }
    };
    let line = format!("C13 cast {} {} {} {} {}", var, src, dst, safe, join(&vals));
    (line, format!("op:cast {} safe:{} {}", tag, safe, nt_of(&vals)))
}

fn gen_rt(rng: &mut Rng) -> (String, String) {
    let var = gen_var(rng);
    let strs = ["utf8", "lutf8", "utf8v"];
    let (src, mid, vals, tag): (String, String, Vec<String>, &str) = match rng.below(9) {
        0 => {
            let s = *rng.pick(&INTS);
            (s.into(), rng.pick(&INTS).to_string(), int_vals(rng, s), "g:rt-int-int")
        }
        1 | 2 => {
            let s = *rng.pick(&INTS);
            (s.into(), rng.pick(&strs).to_string(), int_vals(rng, s), "g:rt-int-str")
        }
        3 | 4 => {
            let w = gen_width(rng);
            let p = gen_prec(rng, w);
            let sc = rng.range(0, p as i64);
            (dec_tok(w, p, sc), rng.pick(&strs).to_string(), dec_vals(rng, w, p, false), "g:rt-dec-str")
        }
        5 => {
            let s = *rng.pick(&INTS);
            let w = gen_width(rng);
            let p = gen_prec(rng, w);
            let sc = rng.range(0, (p as i64).min(6));
            (s.into(), dec_tok(w, p, sc), int_vals(rng, s), "g:rt-int-dec")
        }
        6 => {
            let w1 = gen_width(rng);
            let w2 = gen_width(rng);
            let p1 = gen_prec(rng, w1);
            let s1 = rng.range(-3, p1 as i64);
            let p2 = gen_prec(rng, w2);
            let s2 = (s1 + rng.range(0, 5)).min(p2 as i64);
            (dec_tok(w1, p1, s1), dec_tok(w2, p2, s2), dec_vals(rng, w1, p1, false), "g:rt-dec-dec")
        }
        7 => {
            let u1 = *rng.pick(&UNITS);
            let u2 = *rng.pick(&UNITS);
            let (s, m): (String, String) = match rng.below(5) {
                0 => (format!("ts:{u1}"), format!("ts:{u2}")),
                1 => (format!("dur:{u1}"), format!("dur:{u2}")),
                2 => ("date32".into(), rng.pick(&["date64", "ts:s", "ts:ms", "ts:us", "ts:ns", "i64", "utf8"]).to_string()),
                3 => (format!("ts:{u1}"), rng.pick(&["i64", "utf8", "lutf8", "utf8v"]).to_string()),
                _ => ("date32".into(), "utf8".into()),
            };
            let n = n_rows(rng);
            let text = is_str(&m);
            let v: Vec<String> = (0..n)
                .map(|_| {
                    if s == "date32" {
                        if text { band(rng, -719_162, 2_932_896).to_string() } else if m.starts_with("ts:") { band(rng, -95_000_000, 95_000_000).to_string() } else { band(rng, i32::MIN as i128, i32::MAX as i128).to_string() }
                    } else if text {
                        // years 0001..9999 in the source unit
                        let mult: i128 = [1, 1000, 1_000_000, 1_000_000_000][unit_rank(&s).unwrap() as usize];
                        let (lo, hi) = (-62_135_596_800i128 * mult, 253_402_300_799i128 * mult + (mult - 1));
                        band(rng, lo.max(i64::MIN as i128), hi.min(i64::MAX as i128)).to_string()
                    } else {
                        band(rng, i64::MIN as i128, i64::MAX as i128).to_string()
                    }
                })
                .collect();
            (s, m, with_nulls(rng, v, &|r| band(r, -1000, 1000).to_string()), "g:rt-temporal")
        }
        _ => {
            let fl = *rng.pick(&["f32", "f64"]);
            let n = n_rows(rng);
            let v: Vec<String> = (0..n)
                .map(|_| {
                    let x = match rng.below(4) {
                        0 => *rng.pick(&[0.0, -0.0, 1.0, 0.1, 1e-320, 5e-324, f64::MAX, f64::MIN_POSITIVE, 1e22, 1e23, 123456789.125]),
                        1 => rng.range(-70000, 70000) as f64 / 7.0,
                        _ => {
                            let b = f64::from_bits(rng.next_u64());
                            if b.is_nan() { 1.0 } else { b }
                        }
                    };
                    if fl == "f32" {
                        let y = x as f32;
                        ((if y.is_nan() { 1.0f32 } else { y }).to_bits() as u64).to_string()
                    } else {
                        x.to_bits().to_string()
                    }
                })
                .collect();
            let m = if fl == "f32" && rng.chance(1, 3) { "f64".to_string() } else { rng.pick(&strs).to_string() };
            (fl.into(), m, with_nulls(rng, v, &|_| "0".into()), "g:rt-float")
        }
    };
    (format!("C13 rt {} {} {} {}", var, src, mid, join(&vals)), format!("op:rt {} {}", tag, nt_of(&vals)))
}

fn gen_reenc(rng: &mut Rng) -> (String, String) {
    let var = gen_var(rng);
    let keys = ["i8", "i16", "i32", "i64", "u8", "u16", "u32", "u64"];
    let kind = match rng.below(8) {
        0 | 1 => format!("dict:{}", rng.pick(&keys)),
        2 => format!("dict2:{}:{}", rng.pick(&keys), rng.pick(&keys)),
        3 | 4 => format!("ree:{}", rng.pick(&["i16", "i32", "i64"])),
        5 => "fsl1".to_string(),
        6 => "list".to_string(),
        _ => "listree".to_string(),
    };
    let (src, vals): (String, Vec<String>) = if rng.chance(1, 3) {
        let kind_s = rng.chance(1, 2);
        let n = n_rows(rng);
        let pool = ["", "a", "ab", "a", "the quick brown fox jumps", "ünï", "0123456789ab", "0123456789abc", "z"];
        let v: Vec<String> = (0..n).map(|_| str_tok(*rng.pick(&pool))).collect();
        let v = with_nulls(rng, v, &|_| "x".into());
        if kind_s && !kind.starts_with("ree") && !kind.starts_with("dict") {
            return (
                format!("C13 reenc {} {} {} {}", if rng.bool() { "view" } else { "bin" }, var, rng.pick(&["utf8", "lutf8", "utf8v"]), join(&v)),
                format!("op:reenc g:reenc-bytes {}", nt_of(&v)),
            );
        }
        (rng.pick(&["utf8", "lutf8"]).to_string(), v)
    } else {
        let s = *rng.pick(&INTS);
        let (lo, hi) = int_range(s).unwrap();
        let n = n_rows(rng);
        // few distinct values, with runs
        let pool: Vec<i128> = (0..1 + rng.usize(5)).map(|_| band(rng, lo, hi)).collect();
        let mut v = vec![];
        while v.len() < n {
            let x = *rng.pick(&pool);
            for _ in 0..1 + rng.usize(3) {
                v.push(x.to_string());
            }
        }
        v.truncate(n);
        (s.to_string(), with_nulls(rng, v, &|r| band(r, lo, hi).to_string()))
    };
    (format!("C13 reenc {} {} {} {}", kind, var, src, join(&vals)), format!("op:reenc g:reenc-{} {}", kind.split(':').next().unwrap(), nt_of(&vals)))
}

fn type_grid() -> Vec<DataType> {
    use DataType::*;
    let item = |t: DataType| Arc::new(Field::new_list_field(t, true));
    let mut g = vec![
        Null, Boolean, Int8, Int16, Int32, Int64, UInt8, UInt16, UInt32, UInt64, Float16, Float32, Float64, Utf8, LargeUtf8, Utf8View,
        Binary, LargeBinary, BinaryView, FixedSizeBinary(4), Date32, Date64,
        Time32(TimeUnit::Second), Time32(TimeUnit::Millisecond), Time64(TimeUnit::Microsecond), Time64(TimeUnit::Nanosecond),
        Interval(IntervalUnit::YearMonth), Interval(IntervalUnit::DayTime), Interval(IntervalUnit::MonthDayNano),
        Decimal32(9, 2), Decimal64(18, 4), Decimal128(38, 10), Decimal128(10, -2), Decimal256(76, 20), Decimal256(40, 0),
    ];
    for u in [TimeUnit::Second, TimeUnit::Millisecond, TimeUnit::Microsecond, TimeUnit::Nanosecond] {
        g.push(Timestamp(u, None));
        g.push(Duration(u));
    }
    g.push(Timestamp(TimeUnit::Millisecond, Some("+01:00".into())));
    g.push(Timestamp(TimeUnit::Nanosecond, Some("+00:00".into())));
    g.extend_from_slice(&[
        List(item(Int32)),
        LargeList(item(Utf8)),
        ListView(item(Int64)),
        LargeListView(item(Float64)),
        FixedSizeList(item(Int32), 1),
        FixedSizeList(item(Int16), 3),
        List(item(Decimal128(10, 2))),
        List(item(List(item(UInt8)))),
        Dictionary(Box::new(Int8), Box::new(Utf8)),
        Dictionary(Box::new(UInt32), Box::new(Int64)),
        Dictionary(Box::new(Int32), Box::new(Decimal128(12, 3))),
        Dictionary(Box::new(Int16), Box::new(Timestamp(TimeUnit::Second, None))),
        RunEndEncoded(Arc::new(Field::new("run_ends", Int32, false)), Arc::new(Field::new("values", Utf8, true))),
        RunEndEncoded(Arc::new(Field::new("run_ends", Int16, false)), Arc::new(Field::new("values", Int64, true))),
        Struct(Fields::from(vec![Field::new("a", Int32, true), Field::new("b", Utf8, true)])),
        Struct(Fields::from(vec![Field::new("b", LargeUtf8, true), Field::new("a", Int64, true)])),
        Struct(Fields::from(vec![Field::new("x", Float32, true)])),
        Map(
            Arc::new(Field::new("entries", Struct(Fields::from(vec![Field::new("key", Utf8, false), Field::new("value", Int32, true)])), false)),
            false,
        ),
        Map(
            Arc::new(Field::new("entries", Struct(Fields::from(vec![Field::new("key", LargeUtf8, false), Field::new("value", Int64, true)])), false)),
            false,
        ),
        Union(UnionFields::try_new(vec![0, 1], vec![Field::new("i", Int32, true), Field::new("s", Utf8, true)]).unwrap(), UnionMode::Sparse),
        Union(UnionFields::try_new(vec![0, 1], vec![Field::new("i", Int32, true), Field::new("s", Utf8, true)]).unwrap(), UnionMode::Dense),
    ]);
    g
}

fn gen_cancast(rng: &mut Rng, grid: &[DataType], idx: &mut usize, exhaustive: bool) -> (String, String) {
    let n = grid.len();
    let (i, j) = if exhaustive {
        let k = *idx % (n * n);
        *idx += 1;
        (k / n, k % n)
    } else {
        (rng.usize(n), rng.usize(n))
    };
    (
        format!("C13 cancast {} {}", hex(grid[i].to_string().as_bytes()), hex(grid[j].to_string().as_bytes())),
        format!("op:cancast {}", if i != j { "nt" } else { "" }),
    )
}

// random DataTypes ---------------------------------------------------------------------

fn plain_name(rng: &mut Rng) -> String {
    rng.pick(&["a", "b", "item", "key", "value", "entries", "f1", "my field", "x-y", "col(1)", "a:b", "a,b", "Int32", "ünï", "µs"]).to_string()
}

/// (type, class) where class says which known display/parse limitation the type touches
fn gen_dtype(rng: &mut Rng, depth: usize, class: &mut &'static str) -> DataType {
    use DataType::*;
    let leaf = depth == 0 || rng.chance(2, 5);
    let tu = |rng: &mut Rng| *rng.pick(&[TimeUnit::Second, TimeUnit::Millisecond, TimeUnit::Microsecond, TimeUnit::Nanosecond]);
    let name = |rng: &mut Rng, class: &mut &'static str, single: bool| -> String {
        if rng.chance(1, 40) {
            *class = "esc";
            rng.pick(&["a\"b", "a\\b", "tab\there", "nl\nx", "q\\", "\"", "\\\""]).to_string()
        } else if rng.chance(1, 60) {
            *class = "empty";
            String::new()
        } else if single && rng.chance(1, 30) {
            *class = "sq";
            rng.pick(&["it's", "'", "a'b"]).to_string()
        } else {
            plain_name(rng)
        }
    };
    if leaf {
        return match rng.below(28) {
            0 => Null,
            1 => Boolean,
            2 => Int8,
            3 => Int16,
            4 => Int32,
            5 => Int64,
            6 => UInt8,
            7 => UInt16,
            8 => UInt32,
            9 => UInt64,
            10 => Float16,
            11 => Float32,
            12 => Float64,
            13 => Utf8,
            14 => LargeUtf8,
            15 => Utf8View,
            16 => Binary,
            17 => LargeBinary,
            18 => BinaryView,
            19 => Date32,
            20 => Date64,
            21 => {
                let tz = match rng.below(6) {
                    0 | 1 | 2 => None,
                    3 => Some("+00:00".to_string()),
                    4 => Some(rng.pick(&["+01:00", "-08:30", "Europe/Paris", "America/Argentina/Buenos_Aires"]).to_string()),
                    _ => Some(name(rng, class, false)),
                };
                Timestamp(tu(rng), tz.map(Into::into))
            }
            22 => {
                if rng.bool() { Time32(*rng.pick(&[TimeUnit::Second, TimeUnit::Millisecond])) } else { Time64(*rng.pick(&[TimeUnit::Microsecond, TimeUnit::Nanosecond])) }
            }
            23 => Duration(tu(rng)),
            24 => Interval(*rng.pick(&[IntervalUnit::YearMonth, IntervalUnit::DayTime, IntervalUnit::MonthDayNano])),
            25 => FixedSizeBinary(*rng.pick(&[0i32, 1, 16, 1000, i32::MAX])),
            _ => {
                let w = gen_width(rng);
                let p = gen_prec(rng, w) as u8;
                let s = if rng.chance(1, 6) { -(rng.range(1, 128)) as i8 } else { rng.range(0, p as i64) as i8 };
                match w {
                    32 => Decimal32(p, s),
                    64 => Decimal64(p, s),
                    128 => Decimal128(p, s),
                    _ => Decimal256(p, s),
                }
            }
        };
    }
    let field = |rng: &mut Rng, class: &mut &'static str, nm: String| -> Field {
        let t = gen_dtype(rng, depth - 1, class);
        let f = Field::new(nm, t, rng.chance(2, 3));
        if rng.chance(1, 50) {
            *class = "meta";
            f.with_metadata(HashMap::from([("k".to_string(), "v".to_string())]))
        } else {
            f
        }
    };
    match rng.below(11) {
        0 | 1 => {
            let nm = if rng.chance(2, 3) { "item".to_string() } else { name(rng, class, true) };
            let f = Arc::new(field(rng, class, nm));
            match rng.below(4) {
                0 => List(f),
                1 => LargeList(f),
                2 => ListView(f),
                _ => LargeListView(f),
            }
        }
        2 => {
            let nm = if rng.chance(2, 3) { "item".to_string() } else { name(rng, class, true) };
            FixedSizeList(Arc::new(field(rng, class, nm)), *rng.pick(&[0i32, 1, 2, 7, 1000, i32::MAX]))
        }
        3 | 4 | 5 => {
            let n = rng.usize(4);
            let fs: Vec<Field> = (0..n)
                .map(|_| {
                    let nm = name(rng, class, false);
                    field(rng, class, nm)
                })
                .collect();
            Struct(Fields::from(fs))
        }
        6 | 7 => {
            let k = rng.pick(&[Int8, Int16, Int32, Int64, UInt8, UInt16, UInt32, UInt64]).clone();
            Dictionary(Box::new(k), Box::new(gen_dtype(rng, depth - 1, class)))
        }
        8 => {
            let kf = Field::new(if rng.chance(3, 4) { "key".to_string() } else { name(rng, class, false) }, gen_dtype(rng, 0, class), false);
            let vn = if rng.chance(3, 4) { "value".to_string() } else { name(rng, class, false) };
            let vf = field(rng, class, vn);
            let en = if rng.chance(3, 4) { "entries".to_string() } else { name(rng, class, false) };
            Map(Arc::new(Field::new(en, Struct(Fields::from(vec![kf, vf])), rng.chance(1, 4))), rng.bool())
        }
        9 => {
            let re = Field::new(if rng.chance(3, 4) { "run_ends".to_string() } else { name(rng, class, false) }, rng.pick(&[Int16, Int32, Int64]).clone(), false);
            let vn = if rng.chance(3, 4) { "values".to_string() } else { name(rng, class, false) };
            RunEndEncoded(Arc::new(re), Arc::new(field(rng, class, vn)))
        }
        _ => {
            let n = rng.usize(4);
            let mut ids: Vec<i8> = vec![];
            while ids.len() < n {
                let id = rng.range(0, 127) as i8;
                if !ids.contains(&id) {
                    ids.push(id);
                }
            }
            let fs: Vec<Field> = (0..n)
                .map(|_| {
                    let nm = name(rng, class, false);
                    field(rng, class, nm)
                })
                .collect();
            Union(UnionFields::try_new(ids, fs).unwrap(), if rng.bool() { UnionMode::Sparse } else { UnionMode::Dense })
        }
    }
}

fn gen_pdec(rng: &mut Rng) -> (String, String) {
    let w = gen_width(rng);
    let p = gen_prec(rng, w);
    let s = rng.range(0, p as i64);
    let st = if rng.chance(1, 2) {
        // the display form of an in-domain value
        let v = dec_val(rng, w, p, false);
        arrow_array::types::Decimal256Type::format_decimal(i256::from_string(&v).unwrap(), p as u8, s as i8)
    } else {
        dec_string(rng, p, s)
    };
    (format!("C13 pdec {} {} {} {}", w, p, s, hex(st.as_bytes())), "op:pdec nt".to_string())
}

fn main() {
    let args = parse_args();
    if std::env::var("VERIF_LOUD").is_err() {
        quiet_panics();
    }
    let mut sink = Sink::new(&args.out);
    let emit = |sink: &mut Sink, line: String, tags: String, extra_oracle: Option<String>| {
        let o = run_case(&line);
        let mut tg = tags;
        for t in &o.tags {
            tg.push(' ');
            tg.push_str(t);
        }
        for w in &o.oracle {
            sink.oracle_failure(line.clone(), w.clone(), &tg);
        }
        if let Some(w) = extra_oracle {
            sink.oracle_failure(line.clone(), w, &tg);
        }
        sink.case(line, o.answer, &tg);
    };
    if args.mode == "replay" {
        for line in read_cases(args.replay.as_ref().unwrap()) {
            emit(&mut sink, line, "replay".to_string(), None);
        }
    } else {
        let mut rng = Rng::new(args.seed ^ 0xC13);
        let thorough = args.tier == "thorough";
        let n = n_cases(&args, 14000, 300000);
        let grid = type_grid();
        // the can_cast grid: exhaustive over ordered pairs in the thorough tier, sampled otherwise
        let n_grid = if thorough { grid.len() * grid.len() } else { 1200 };
        // dense boundary enumeration (deterministic, every run, both modes)
        if args.cases.is_none() {
            for (line, tags) in boundary_cases() {
                emit(&mut sink, line, tags, None);
            }
            for (line, tags) in float_boundary_cases() {
                emit(&mut sink, line, tags, None);
            }
            for (line, tags) in extra_boundary_cases() {
                emit(&mut sink, line, tags, None);
            }
        }
        let mut idx = 0usize;
        for _ in 0..n_grid.min(if args.cases.is_some() { n } else { usize::MAX }) {
            let (line, tags) = gen_cancast(&mut rng, &grid, &mut idx, thorough);
            emit(&mut sink, line, tags, None);
        }
        for _ in 0..n {
            match rng.below(20) {
                0..=10 => {
                    let (line, tags) = gen_cast(&mut rng);
                    emit(&mut sink, line, tags, None);
                }
                11 => {
                    // the same cast through an encoded source
                    let (line, tags) = gen_cast(&mut rng);
                    let f: Vec<&str> = line.splitn(7, ' ').collect();
                    let kind = *rng.pick(&["dict:i8:0", "dict:i32:1", "dict:u16:2", "dict:i32:4", "dict:i64:7", "dict:i32:5", "ree:run", "ree:split", "slice", "list:1", "list:2", "llist:3", "lview:2", "fsl:1", "fsl:3", "rees:i16:fb", "rees:i32:f", "rees:i64:b", "rees:i32:fb", "lists:2:fb", "llists:1:f", "lviews:2:fb", "fsls:1:fb", "structs:0:fb"]);
                    let n = if f[6] == "-" { 0 } else { f[6].split(',').count() };
                    if n > 60 || tags.contains("g:float") && f[6].contains("n:") {
                        emit(&mut sink, line, tags, None);
                    } else {
                        let l2 = format!("C13 enc {} {} {} {} {} {}", kind, f[2], f[3], f[4], f[5], f[6]);
                        emit(&mut sink, l2, tags.replace("op:cast", &format!("op:enc enc:{}", kind.split(':').next().unwrap())), None);
                    }
                }
                12 | 13 => {
                    let (line, tags) = gen_rt(&mut rng);
                    emit(&mut sink, line, tags, None);
                }
                14 | 15 => {
                    let (line, tags) = gen_reenc(&mut rng);
                    emit(&mut sink, line, tags, None);
                }
                16 => {
                    let (line, tags) = gen_pdec(&mut rng);
                    emit(&mut sink, line, tags, None);
                }
                _ => {
                    let mut class = "plain";
                    let depth = rng.usize(4);
                    let t = gen_dtype(&mut rng, depth, &mut class);
                    let s = t.to_string();
                    let line = format!("C13 dtype {} {}", class, hex(s.as_bytes()));
                    let extra = match DataType::from_str(&s) {
                        Ok(t2) if t2 != t => Some(format!("parse(display(t)) != t for {}", s.escape_default())),
                        _ => None,
                    };
                    emit(&mut sink, line, format!("op:dtype class:{} {}", class, if depth > 0 { "nt" } else { "" }), extra);
                }
            }
        }
    }
    sink.finish();
}
