//! C09 correspondence harness: checked constructors never accept a malformed array layout.
//!
//! Case lines (see lean/ArrowModel/C09/Driver.lean for the dump grammar):
//!   C09 trynew <array>            ArrayData::try_new applied bottom-up (children first)
//!   C09 full <array>              build_unchecked everywhere, then ArrayData::validate_full
//!   C09 align <type> <idx> <k>    valid array whose buffer <idx> starts k bytes off a 64-byte boundary
//!   C09 batch <rows|-> <fields> <cols>   RecordBatch::try_new_with_options
//!   C09 tacc|trej <kind> <array>  typed constructor (StringArray/ListArray/DictionaryArray/UnionArray/
//!                                 StructArray/FixedSizeListArray/RunArray/… ::try_new) accepted / rejected
//! Answers: `ok wf=1` (accepted; the Lean side answers `ok wf=<spec verdict>`), `ERR`, `PANIC`, `REJ`.
//! After every acceptance the array is exercised (make_array, formatter over every row, slice, concat,
//! take, filter, to_data().validate_full()) under `guarded`; a panic there is an oracle failure.
use arrow_array::types::*;
use arrow_array::*;
use arrow_buffer::{BooleanBuffer, Buffer, NullBuffer, OffsetBuffer, ScalarBuffer};
use arrow_data::{ArrayData, ArrayDataBuilder};
use arrow_schema::{ArrowError, DataType, Field, Fields, Schema, UnionFields, UnionMode};
use std::sync::Arc;
use vcommon::*;

// ------------------------------------------------------------------------------------ types

#[derive(Clone, PartialEq, Debug)]
enum Ty {
    Null,
    Bool,
    Prim(usize),
    Utf8(bool),
    Binary(bool),
    Fsb(usize),
    /// Utf8View (true) / BinaryView
    View(bool),
    /// Map(key, value, value nullable): physically List<Struct<key not null, value>>
    Map(Box<Ty>, Box<Ty>, bool),
    List(bool, Box<Ty>, bool),
    Fsl(usize, Box<Ty>, bool),
    Struct(Vec<(bool, Ty)>),
    Dict(usize, bool, Box<Ty>),
    Ree(usize, Box<Ty>),
    Union(bool, Vec<(i8, Ty)>),
}

fn nb(b: bool) -> char {
    if b { '?' } else { '!' }
}

fn show_ty(t: &Ty) -> String {
    match t {
        Ty::Null => "n".into(),
        Ty::Bool => "b".into(),
        Ty::Prim(w) => format!("p{}", w),
        Ty::Utf8(l) => if *l { "T" } else { "t" }.into(),
        Ty::Binary(l) => if *l { "Y" } else { "y" }.into(),
        Ty::Fsb(n) => format!("x{}", n),
        Ty::View(u) => if *u { "v" } else { "w" }.into(),
        Ty::Map(k, v, vn) => format!("M!<s<!{},{}{}>>", show_ty(k), nb(*vn), show_ty(v)),
        Ty::List(l, i, n) => format!("{}{}<{}>", if *l { 'L' } else { 'l' }, nb(*n), show_ty(i)),
        Ty::Fsl(k, i, n) => format!("f{}{}<{}>", k, nb(*n), show_ty(i)),
        Ty::Struct(fs) => format!("s<{}>", fs.iter().map(|(n, t)| format!("{}{}", nb(*n), show_ty(t))).collect::<Vec<_>>().join(",")),
        Ty::Dict(kw, s, v) => format!("d{}{}<{}>", kw, if *s { 's' } else { 'u' }, show_ty(v)),
        Ty::Ree(rw, v) => format!("r{}<{}>", rw, show_ty(v)),
        Ty::Union(d, fs) => format!(
            "{}<{}>",
            if *d { 'D' } else { 'S' },
            fs.iter().map(|(i, t)| format!("{}:{}", i, show_ty(t))).collect::<Vec<_>>().join(",")
        ),
    }
}

struct Cur<'a> {
    s: &'a [u8],
    i: usize,
}
impl<'a> Cur<'a> {
    fn peek(&self) -> u8 {
        if self.i < self.s.len() { self.s[self.i] } else { 0 }
    }
    fn next(&mut self) -> u8 {
        let c = self.peek();
        self.i += 1;
        c
    }
    fn expect(&mut self, c: u8) {
        let g = self.next();
        assert_eq!(g as char, c as char, "parse at {}", self.i);
    }
    fn num(&mut self) -> u64 {
        let st = self.i;
        while self.peek().is_ascii_digit() {
            self.i += 1;
        }
        std::str::from_utf8(&self.s[st..self.i]).unwrap().parse().expect("number")
    }
    fn int(&mut self) -> i64 {
        if self.peek() == b'-' {
            self.i += 1;
            -(self.num() as i64)
        } else {
            self.num() as i64
        }
    }
    fn until(&mut self, stop: u8) -> &'a str {
        let st = self.i;
        while self.i < self.s.len() && self.s[self.i] != stop {
            self.i += 1;
        }
        std::str::from_utf8(&self.s[st..self.i]).unwrap()
    }
}

fn parse_ty(c: &mut Cur) -> Ty {
    match c.next() {
        b'n' => Ty::Null,
        b'b' => Ty::Bool,
        b'p' => Ty::Prim(c.num() as usize),
        b't' => Ty::Utf8(false),
        b'T' => Ty::Utf8(true),
        b'y' => Ty::Binary(false),
        b'Y' => Ty::Binary(true),
        b'x' => Ty::Fsb(c.num() as usize),
        b'v' => Ty::View(true),
        b'w' => Ty::View(false),
        b'M' => {
            c.expect(b'!');
            c.expect(b'<');
            let inner = parse_ty(c);
            c.expect(b'>');
            match inner {
                Ty::Struct(mut fs) if fs.len() == 2 => {
                    let (vn, v) = fs.pop().unwrap();
                    let (_, k) = fs.pop().unwrap();
                    Ty::Map(Box::new(k), Box::new(v), vn)
                }
                _ => panic!("map entries"),
            }
        }
        k @ (b'l' | b'L') => {
            let n = c.next() == b'?';
            c.expect(b'<');
            let t = parse_ty(c);
            c.expect(b'>');
            Ty::List(k == b'L', Box::new(t), n)
        }
        b'f' => {
            let k = c.num() as usize;
            let n = c.next() == b'?';
            c.expect(b'<');
            let t = parse_ty(c);
            c.expect(b'>');
            Ty::Fsl(k, Box::new(t), n)
        }
        b's' => {
            c.expect(b'<');
            let mut fs = vec![];
            if c.peek() == b'>' {
                c.next();
                return Ty::Struct(fs);
            }
            loop {
                let n = c.next() == b'?';
                fs.push((n, parse_ty(c)));
                if c.next() == b'>' {
                    break;
                }
            }
            Ty::Struct(fs)
        }
        b'd' => {
            let kw = c.num() as usize;
            let s = c.next() == b's';
            c.expect(b'<');
            let t = parse_ty(c);
            c.expect(b'>');
            Ty::Dict(kw, s, Box::new(t))
        }
        b'r' => {
            let rw = c.num() as usize;
            c.expect(b'<');
            let t = parse_ty(c);
            c.expect(b'>');
            Ty::Ree(rw, Box::new(t))
        }
        k @ (b'D' | b'S') => {
            c.expect(b'<');
            let mut fs = vec![];
            if c.peek() == b'>' {
                c.next();
                return Ty::Union(k == b'D', fs);
            }
            loop {
                let id = c.int() as i8;
                c.expect(b':');
                fs.push((id, parse_ty(c)));
                if c.next() == b'>' {
                    break;
                }
            }
            Ty::Union(k == b'D', fs)
        }
        x => panic!("bad type char {}", x as char),
    }
}

fn to_dt(t: &Ty) -> DataType {
    match t {
        Ty::Null => DataType::Null,
        Ty::Bool => DataType::Boolean,
        Ty::Prim(1) => DataType::Int8,
        Ty::Prim(2) => DataType::Int16,
        Ty::Prim(4) => DataType::Int32,
        Ty::Prim(8) => DataType::Int64,
        Ty::Prim(16) => DataType::Decimal128(38, 0),
        Ty::Prim(32) => DataType::Decimal256(76, 0),
        Ty::Prim(w) => panic!("no primitive of width {}", w),
        Ty::Utf8(false) => DataType::Utf8,
        Ty::Utf8(true) => DataType::LargeUtf8,
        Ty::Binary(false) => DataType::Binary,
        Ty::Binary(true) => DataType::LargeBinary,
        Ty::Fsb(n) => DataType::FixedSizeBinary(*n as i32),
        Ty::View(true) => DataType::Utf8View,
        Ty::View(false) => DataType::BinaryView,
        Ty::Map(k, v, vn) => DataType::Map(
            Arc::new(Field::new("entries", DataType::Struct(struct_fields(&[(false, (**k).clone()), (*vn, (**v).clone())])), false)),
            false,
        ),
        Ty::List(false, i, n) => DataType::List(Arc::new(Field::new("item", to_dt(i), *n))),
        Ty::List(true, i, n) => DataType::LargeList(Arc::new(Field::new("item", to_dt(i), *n))),
        Ty::Fsl(k, i, n) => DataType::FixedSizeList(Arc::new(Field::new("item", to_dt(i), *n)), *k as i32),
        Ty::Struct(fs) => DataType::Struct(struct_fields(fs)),
        Ty::Dict(kw, s, v) => DataType::Dictionary(Box::new(key_dt(*kw, *s)), Box::new(to_dt(v))),
        Ty::Ree(rw, v) => DataType::RunEndEncoded(
            Arc::new(Field::new("run_ends", to_dt(&Ty::Prim(*rw)), false)),
            Arc::new(Field::new("values", to_dt(v), true)),
        ),
        Ty::Union(d, fs) => DataType::Union(union_fields(fs), if *d { UnionMode::Dense } else { UnionMode::Sparse }),
    }
}
fn struct_fields(fs: &[(bool, Ty)]) -> Fields {
    Fields::from(fs.iter().enumerate().map(|(i, (n, t))| Field::new(format!("f{}", i), to_dt(t), *n)).collect::<Vec<_>>())
}
fn union_fields(fs: &[(i8, Ty)]) -> UnionFields {
    UnionFields::try_new(
        fs.iter().map(|(i, _)| *i),
        fs.iter().enumerate().map(|(k, (_, t))| Field::new(format!("f{}", k), to_dt(t), true)),
    )
    .expect("union fields")
}
fn key_dt(kw: usize, signed: bool) -> DataType {
    match (kw, signed) {
        (1, true) => DataType::Int8,
        (2, true) => DataType::Int16,
        (4, true) => DataType::Int32,
        (8, true) => DataType::Int64,
        (1, false) => DataType::UInt8,
        (2, false) => DataType::UInt16,
        (4, false) => DataType::UInt32,
        (8, false) => DataType::UInt64,
        _ => panic!("key width"),
    }
}

// --------------------------------------------------------------------------- physical layout

#[derive(Clone, Debug)]
struct Phys {
    ty: Ty,
    len: usize,
    offset: usize,
    nulls: Option<Vec<u8>>,
    nc: Option<usize>,
    bufs: Vec<Vec<u8>>,
    kids: Vec<Phys>,
}

fn show_phys(p: &Phys) -> String {
    let nulls = match (&p.nulls, p.nc) {
        (None, _) => "-".to_string(),
        (Some(b), None) => if b.is_empty() { "e".into() } else { hex(b) },
        (Some(b), Some(n)) => format!("{}:{}", if b.is_empty() { "e".into() } else { hex(b) }, n),
    };
    let bufs = if p.bufs.is_empty() {
        "-".to_string()
    } else {
        p.bufs.iter().map(|b| if b.is_empty() { "e".to_string() } else { hex(b) }).collect::<Vec<_>>().join("|")
    };
    format!(
        "A({};{};{};{};{};{})",
        show_ty(&p.ty),
        p.len,
        p.offset,
        nulls,
        bufs,
        p.kids.iter().map(show_phys).collect::<String>()
    )
}

fn unhex_e(s: &str) -> Vec<u8> {
    if s == "e" { vec![] } else { unhex(s) }
}

fn parse_phys(c: &mut Cur) -> Phys {
    c.expect(b'A');
    c.expect(b'(');
    let ty = parse_ty(c);
    c.expect(b';');
    let len = c.num() as usize;
    c.expect(b';');
    let offset = c.num() as usize;
    c.expect(b';');
    let ns = c.until(b';');
    c.expect(b';');
    let bs = c.until(b';');
    c.expect(b';');
    let (nulls, nc) = if ns == "-" {
        (None, None)
    } else if let Some((h, n)) = ns.split_once(':') {
        (Some(unhex_e(h)), Some(n.parse().unwrap()))
    } else {
        (Some(unhex_e(ns)), None)
    };
    let bufs = if bs == "-" { vec![] } else { bs.split('|').map(unhex_e).collect() };
    let mut kids = vec![];
    while c.peek() == b'A' {
        kids.push(parse_phys(c));
    }
    c.expect(b')');
    Phys { ty, len, offset, nulls, nc, bufs, kids }
}
fn parse_phys_str(s: &str) -> Phys {
    let mut c = Cur { s: s.as_bytes(), i: 0 };
    let p = parse_phys(&mut c);
    assert_eq!(c.i, s.len());
    p
}

fn abuf(b: &[u8]) -> Buffer {
    Buffer::from_slice_ref(b)
}

/// `ArrayData::try_new`, children first
fn try_new_rec(p: &Phys) -> Result<ArrayData, ArrowError> {
    let mut kids = vec![];
    for k in &p.kids {
        kids.push(try_new_rec(k)?);
    }
    ArrayData::try_new(to_dt(&p.ty), p.len, p.nulls.as_deref().map(abuf), p.offset, p.bufs.iter().map(|b| abuf(b)).collect(), kids)
}

/// `build_unchecked` everywhere
fn unchecked_rec(p: &Phys) -> ArrayData {
    let kids: Vec<ArrayData> = p.kids.iter().map(unchecked_rec).collect();
    let mut b = ArrayDataBuilder::new(to_dt(&p.ty))
        .len(p.len)
        .offset(p.offset)
        .null_bit_buffer(p.nulls.as_deref().map(abuf))
        .buffers(p.bufs.iter().map(|b| abuf(b)).collect())
        .child_data(kids);
    if let Some(n) = p.nc {
        b = b.null_count(n);
    }
    unsafe { b.build_unchecked() }
}

// ------------------------------------------------------------------------------- exercising

/// use an accepted array through safe APIs; returns the step that panicked, if any
fn exercise(data: &ArrayData) -> Option<String> {
    if data.len() > 400 {
        return None;
    }
    let step = |name: &str, f: &mut dyn FnMut()| -> Option<String> {
        match std::panic::catch_unwind(std::panic::AssertUnwindSafe(f)) {
            Ok(()) => None,
            Err(_) => Some(name.to_string()),
        }
    };
    let mut arr: Option<ArrayRef> = None;
    if let Some(s) = step("make_array", &mut || arr = Some(make_array(data.clone()))) {
        return Some(s);
    }
    let arr = arr.unwrap();
    let n = arr.len();
    let fmt = |a: &dyn Array| {
        for i in 0..a.len() {
            let _ = arrow_cast::display::array_value_to_string(a, i);
        }
    };
    if let Some(s) = step("format", &mut || fmt(arr.as_ref())) {
        return Some(s);
    }
    if let Some(s) = step("nulls", &mut || {
        let _ = arr.logical_nulls().map(|x| x.null_count());
        let _ = arr.null_count();
        let _ = arr.get_array_memory_size();
    }) {
        return Some(s);
    }
    if n > 1 {
        if let Some(s) = step("slice", &mut || {
            let s = arr.slice(1, n - 1);
            fmt(s.as_ref());
            let s2 = s.slice(0, (n - 1) / 2);
            fmt(s2.as_ref());
        }) {
            return Some(s);
        }
    }
    if let Some(s) = step("concat", &mut || {
        if let Ok(c) = arrow_select::concat::concat(&[arr.as_ref(), arr.as_ref()]) {
            fmt(c.as_ref());
        }
    }) {
        return Some(s);
    }
    if let Some(s) = step("take", &mut || {
        let idx = UInt32Array::from((0..n as u32).rev().collect::<Vec<_>>());
        if let Ok(c) = arrow_select::take::take(arr.as_ref(), &idx, None) {
            fmt(c.as_ref());
        }
    }) {
        return Some(s);
    }
    if let Some(s) = step("filter", &mut || {
        let m = BooleanArray::from((0..n).map(|i| i % 2 == 0).collect::<Vec<_>>());
        if let Ok(c) = arrow_select::filter::filter(arr.as_ref(), &m) {
            fmt(c.as_ref());
        }
    }) {
        return Some(s);
    }
    if let Some(s) = step("eq", &mut || {
        let _ = arr.to_data() == arr.to_data();
    }) {
        return Some(s);
    }
    let mut bad = false;
    if let Some(s) = step("to_data.validate_full", &mut || bad = arr.to_data().validate_full().is_err()) {
        return Some(s);
    }
    if bad {
        return Some("to_data-invalid".into());
    }
    None
}

thread_local! {
    /// panics seen while exercising an accepted array (become tags of the case)
    static USE: std::cell::RefCell<Vec<String>> = std::cell::RefCell::new(vec![]);
    static ORACLE: std::cell::RefCell<Vec<String>> = std::cell::RefCell::new(vec![]);
    /// crashes (signals) of the forked exerciser: always an oracle failure
    static CRASH: std::cell::RefCell<Vec<String>> = std::cell::RefCell::new(vec![]);
}

/// The exerciser runs in a helper process (`c09 exercise-server`, same binary): an
/// accepted-but-malformed array may make safe accessors read out of bounds (the very thing the
/// property forbids); a crash of the helper is reported as an oracle failure, not suffered.
struct Helper {
    child: std::process::Child,
    out: std::io::BufReader<std::process::ChildStdout>,
}
thread_local! {
    static HELPER: std::cell::RefCell<Option<Helper>> = std::cell::RefCell::new(None);
    static CUR_LINE: std::cell::RefCell<String> = std::cell::RefCell::new(String::new());
}
fn spawn_helper() -> Option<Helper> {
    use std::process::{Command, Stdio};
    let exe = std::env::current_exe().ok()?;
    let mut child = Command::new(exe).arg("exercise-server").stdin(Stdio::piped()).stdout(Stdio::piped()).stderr(Stdio::null()).spawn().ok()?;
    let out = std::io::BufReader::new(child.stdout.take()?);
    Some(Helper { child, out })
}
/// ask the helper to rebuild the array of `line` and exercise it; None = fine
fn exercise_remote(line: &str) -> Option<String> {
    use std::io::{BufRead, Write};
    HELPER.with(|h| {
        let mut h = h.borrow_mut();
        if h.is_none() {
            *h = spawn_helper();
        }
        let Some(helper) = h.as_mut() else { return None };
        let ok = helper.child.stdin.as_mut().map(|i| writeln!(i, "{}", line).and_then(|_| i.flush()).is_ok()).unwrap_or(false);
        let mut resp = String::new();
        let n = if ok { helper.out.read_line(&mut resp).unwrap_or(0) } else { 0 };
        if n == 0 {
            // the helper died: a crash while using an accepted array
            let _ = helper.child.kill();
            let status = helper.child.wait().ok();
            *h = None;
            let what = format!("accepted-then-crash:{}", status.map(|s| format!("{:?}", s).replace(' ', "_")).unwrap_or_default());
            CRASH.with(|o| o.borrow_mut().push(what));
            return Some("CRASH".into());
        }
        let r = resp.trim();
        if r == "-" { None } else { Some(r.to_string()) }
    })
}
/// helper process: one case line per input line -> the exercise step that panicked, or `-`
fn exercise_server() {
    use std::io::{BufRead, Write};
    quiet_panics();
    let stdin = std::io::stdin();
    let mut out = std::io::stdout();
    for line in stdin.lock().lines() {
        let Ok(line) = line else { break };
        let t: Vec<&str> = line.split(' ').collect();
        let built = std::panic::catch_unwind(|| -> Option<ArrayData> {
            match t.get(1).copied() {
                Some("trynew") => try_new_rec(&parse_phys_str(t[2])).ok(),
                Some("full") => Some(unchecked_rec(&parse_phys_str(t[2]))),
                Some("lview") => {
                    let w: usize = t[2].parse().unwrap();
                    let cl: usize = t[7].parse().unwrap();
                    let item = Arc::new(Field::new("item", DataType::Int8, true));
                    let dt = if w == 8 { DataType::LargeListView(item) } else { DataType::ListView(item) };
                    let child = ArrayData::try_new(DataType::Int8, cl, None, 0, vec![abuf(&vec![7u8; cl])], vec![]).unwrap();
                    ArrayData::try_new(dt, t[3].parse().unwrap(), None, t[4].parse().unwrap(), vec![abuf(&unhex_e(t[5])), abuf(&unhex_e(t[6]))], vec![child]).ok()
                }
                Some("typed") | Some("tacc") | Some("trej") => typed(t[2], &parse_phys_str(t[3])).ok(),
                _ => None,
            }
        });
        let r = match built {
            Ok(Some(d)) => exercise(&d).unwrap_or_else(|| "-".into()),
            _ => "nobuild".into(),
        };
        let _ = writeln!(out, "{}", r);
        let _ = out.flush();
    }
}

fn accepted(data: &ArrayData) -> String {
    if data.len() > 400 {
        return "ok wf=1".to_string();
    }
    let line = CUR_LINE.with(|l| l.borrow().clone());
    if let Some(step) = exercise_remote(&line) {
        USE.with(|o| o.borrow_mut().push(format!("use-panic:{}", step)));
    }
    "ok wf=1".to_string()
}

// ---------------------------------------------------------------------------- typed ctors

fn nulls_of(p: &Phys) -> Option<NullBuffer> {
    p.nulls.as_ref().map(|b| NullBuffer::new(BooleanBuffer::new(abuf(b), 0, p.len)))
}
fn kid_array(p: &Phys) -> Result<ArrayRef, ArrowError> {
    Ok(make_array(try_new_rec(p)?))
}

/// run the typed `try_new` for `kind` on the layout `p` (offset 0); Ok(data of the produced array)
fn typed(kind: &str, p: &Phys) -> Result<ArrayData, ArrowError> {
    assert_eq!(p.offset, 0);
    let shape = |ok: bool| if ok { Ok(()) } else { Err(ArrowError::InvalidArgumentError("shape".into())) };
    match (kind, &p.ty) {
        ("bytes", Ty::Utf8(false)) => {
            let o = OffsetBuffer::new(ScalarBuffer::<i32>::from(abuf(&p.bufs[0])));
            Ok(StringArray::try_new(o, abuf(&p.bufs[1]), nulls_of(p))?.to_data())
        }
        ("bytes", Ty::Utf8(true)) => {
            let o = OffsetBuffer::new(ScalarBuffer::<i64>::from(abuf(&p.bufs[0])));
            Ok(LargeStringArray::try_new(o, abuf(&p.bufs[1]), nulls_of(p))?.to_data())
        }
        ("bytes", Ty::Binary(false)) => {
            let o = OffsetBuffer::new(ScalarBuffer::<i32>::from(abuf(&p.bufs[0])));
            Ok(BinaryArray::try_new(o, abuf(&p.bufs[1]), nulls_of(p))?.to_data())
        }
        ("bytes", Ty::Binary(true)) => {
            let o = OffsetBuffer::new(ScalarBuffer::<i64>::from(abuf(&p.bufs[0])));
            Ok(LargeBinaryArray::try_new(o, abuf(&p.bufs[1]), nulls_of(p))?.to_data())
        }
        ("list", Ty::List(false, item, n)) => {
            let o = OffsetBuffer::new(ScalarBuffer::<i32>::from(abuf(&p.bufs[0])));
            shape(p.kids.len() == 1)?;
            let f = Arc::new(Field::new("item", to_dt(item), *n));
            Ok(ListArray::try_new(f, o, kid_array(&p.kids[0])?, nulls_of(p))?.to_data())
        }
        ("list", Ty::List(true, item, n)) => {
            let o = OffsetBuffer::new(ScalarBuffer::<i64>::from(abuf(&p.bufs[0])));
            shape(p.kids.len() == 1)?;
            let f = Arc::new(Field::new("item", to_dt(item), *n));
            Ok(LargeListArray::try_new(f, o, kid_array(&p.kids[0])?, nulls_of(p))?.to_data())
        }
        ("fsbin", Ty::Fsb(n)) => Ok(FixedSizeBinaryArray::try_new(*n as i32, abuf(&p.bufs[0]), nulls_of(p))?.to_data()),
        ("prim", Ty::Prim(w)) => {
            let b = abuf(&p.bufs[0]);
            let n = nulls_of(p);
            match w {
                1 => Ok(Int8Array::try_new(ScalarBuffer::from(b), n)?.to_data()),
                2 => Ok(Int16Array::try_new(ScalarBuffer::from(b), n)?.to_data()),
                4 => Ok(Int32Array::try_new(ScalarBuffer::from(b), n)?.to_data()),
                _ => Ok(Int64Array::try_new(ScalarBuffer::from(b), n)?.to_data()),
            }
        }
        ("view", Ty::View(u)) => {
            let views = ScalarBuffer::<u128>::from(abuf(&p.bufs[0]));
            let bufs: Vec<Buffer> = p.bufs[1..].iter().map(|b| abuf(b)).collect();
            if *u {
                Ok(StringViewArray::try_new(views, bufs, nulls_of(p))?.to_data())
            } else {
                Ok(BinaryViewArray::try_new(views, bufs, nulls_of(p))?.to_data())
            }
        }
        ("map", Ty::Map(k, v, vn)) => {
            let o = OffsetBuffer::new(ScalarBuffer::<i32>::from(abuf(&p.bufs[0])));
            shape(p.kids.len() == 1)?;
            let st = DataType::Struct(struct_fields(&[(false, (**k).clone()), (*vn, (**v).clone())]));
            let f = Arc::new(Field::new("entries", st, false));
            let entries = StructArray::from(try_new_rec(&p.kids[0])?);
            Ok(MapArray::try_new(f, o, entries, nulls_of(p), false)?.to_data())
        }
        ("fsl", Ty::Fsl(k, item, n)) => {
            shape(p.kids.len() == 1)?;
            let f = Arc::new(Field::new("item", to_dt(item), *n));
            Ok(FixedSizeListArray::try_new(f, *k as i32, kid_array(&p.kids[0])?, nulls_of(p))?.to_data())
        }
        ("struct", Ty::Struct(fs)) => {
            let mut kids = vec![];
            for k in &p.kids {
                kids.push(kid_array(k)?);
            }
            Ok(StructArray::try_new_with_length(struct_fields(fs), kids, nulls_of(p), p.len)?.to_data())
        }
        ("dict", Ty::Dict(kw, s, _)) => {
            shape(p.kids.len() == 1)?;
            let v = kid_array(&p.kids[0])?;
            let kb = abuf(&p.bufs[0]);
            let n = nulls_of(p);
            macro_rules! go {
                ($t:ty) => {{
                    let keys = PrimitiveArray::<$t>::try_new(ScalarBuffer::from(kb), n)?;
                    Ok(DictionaryArray::<$t>::try_new(keys, v)?.to_data())
                }};
            }
            match (kw, s) {
                (1, true) => go!(Int8Type),
                (2, true) => go!(Int16Type),
                (4, true) => go!(Int32Type),
                (8, true) => go!(Int64Type),
                (1, false) => go!(UInt8Type),
                (2, false) => go!(UInt16Type),
                (4, false) => go!(UInt32Type),
                _ => go!(UInt64Type),
            }
        }
        ("run", Ty::Ree(rw, _)) => {
            shape(p.kids.len() == 2)?;
            let re = try_new_rec(&p.kids[0])?;
            let v = kid_array(&p.kids[1])?;
            match rw {
                2 => Ok(RunArray::<Int16Type>::try_new(&PrimitiveArray::<Int16Type>::from(re), v.as_ref())?.to_data()),
                4 => Ok(RunArray::<Int32Type>::try_new(&PrimitiveArray::<Int32Type>::from(re), v.as_ref())?.to_data()),
                _ => Ok(RunArray::<Int64Type>::try_new(&PrimitiveArray::<Int64Type>::from(re), v.as_ref())?.to_data()),
            }
        }
        ("union", Ty::Union(dense, fs)) => {
            let mut kids = vec![];
            for k in &p.kids {
                kids.push(kid_array(k)?);
            }
            let ids = ScalarBuffer::<i8>::from(abuf(&p.bufs[0]));
            let offs = if *dense { Some(ScalarBuffer::<i32>::from(abuf(&p.bufs[1]))) } else { None };
            Ok(UnionArray::try_new(union_fields(fs), ids, offs, kids)?.to_data())
        }
        _ => Err(ArrowError::InvalidArgumentError("shape".into())),
    }
}

/// the length a typed constructor derives from its components (None: taken from `p.len`)
fn typed_len(kind: &str, p: &Phys) -> Option<usize> {
    match (kind, &p.ty) {
        ("bytes", Ty::Utf8(l)) | ("bytes", Ty::Binary(l)) | ("list", Ty::List(l, _, _)) => {
            let w = if *l { 8 } else { 4 };
            Some((p.bufs.first()?.len() / w).saturating_sub(1))
        }
        ("fsl", Ty::Fsl(k, _, _)) => if *k == 0 { Some(if p.nulls.is_some() { p.len } else { 0 }) } else { Some(p.kids.first()?.len / k) },
        ("dict", Ty::Dict(kw, _, _)) => Some(p.bufs.first()?.len() / kw),
        ("view", Ty::View(_)) => Some(p.bufs.first()?.len() / 16),
        ("fsbin", Ty::Fsb(n)) => if *n == 0 { Some(if p.nulls.is_some() { p.len } else { 0 }) } else { Some(p.bufs.first()?.len() / n) },
        ("prim", Ty::Prim(w)) => Some(p.bufs.first()?.len() / w),
        ("map", Ty::Map(..)) => Some((p.bufs.first()?.len() / 4).saturating_sub(1)),
        ("union", _) => Some(p.bufs.first()?.len()),
        ("run", Ty::Ree(rw, _)) => {
            let re = p.kids.first()?;
            if re.len == 0 {
                return Some(0);
            }
            let b = re.bufs.first()?;
            let at = (re.offset + re.len - 1) * rw;
            if at + rw > b.len() {
                return None;
            }
            let mut v: i64 = 0;
            for j in (0..*rw).rev() {
                v = (v << 8) | b[at + j] as i64;
            }
            let sh = 64 - 8 * rw;
            Some(((v << sh) >> sh).max(0) as usize)
        }
        _ => None,
    }
}

// ------------------------------------------------------------------------------------ run

fn run_case(line: &str) -> String {
    CUR_LINE.with(|l| *l.borrow_mut() = line.to_string());
    let t: Vec<&str> = line.split(' ').collect();
    assert_eq!(t[0], "C09");
    match t[1] {
        "trynew" => {
            let p = parse_phys_str(t[2]);
            guarded(|| match try_new_rec(&p) {
                Ok(d) => accepted(&d),
                Err(_) => "ERR".into(),
            })
        }
        "full" => {
            let p = parse_phys_str(t[2]);
            guarded(|| {
                let d = unchecked_rec(&p);
                match d.validate_full() {
                    Ok(()) => accepted(&d),
                    Err(_) => "ERR".into(),
                }
            })
        }
        "tacc" | "trej" | "typed" => {
            let p = parse_phys_str(t[3]);
            let kind = t[2];
            if t[1] == "typed" && kind != "run" {
                if let Some(l) = typed_len(kind, &p) {
                    if l != p.len {
                        return "SHAPE".into();
                    }
                }
            }
            let r = guarded(|| match typed(kind, &p) {
                Ok(d) => {
                    // the produced array must also pass the generic validator
                    match std::panic::catch_unwind(std::panic::AssertUnwindSafe(|| d.validate_full().is_err())) {
                        Ok(true) => ORACLE.with(|o| o.borrow_mut().push("typed-ok-but-validate_full-err".into())),
                        Ok(false) => {}
                        Err(_) => USE.with(|o| o.borrow_mut().push("use-panic:validate_full-after-typed".into())),
                    }
                    accepted(&d)
                }
                Err(_) => "REJ".into(),
            });
            if r == "PANIC" { "REJ".into() } else { r }
        }
        "lview" => {
            // C09 lview <w> <len> <offset> <offsets> <sizes> <childlen>: ListView / LargeListView of Int8,
            // ArrayData::try_new and GenericListViewArray::try_new (whole buffers)
            let w: usize = t[2].parse().unwrap();
            let (len, off): (usize, usize) = (t[3].parse().unwrap(), t[4].parse().unwrap());
            let (ob, sb) = (unhex_e(t[5]), unhex_e(t[6]));
            let cl: usize = t[7].parse().unwrap();
            let item = Arc::new(Field::new("item", DataType::Int8, true));
            let dt = if w == 8 { DataType::LargeListView(item.clone()) } else { DataType::ListView(item.clone()) };
            let child = || ArrayData::try_new(DataType::Int8, cl, None, 0, vec![abuf(&vec![7u8; cl])], vec![]).unwrap();
            let a = guarded(|| match ArrayData::try_new(dt.clone(), len, None, off, vec![abuf(&ob), abuf(&sb)], vec![child()]) {
                Ok(d) => {
                    let _ = accepted(&d);
                    "ok".into()
                }
                Err(_) => "ERR".into(),
            });
            let b = guarded(|| {
                let vals = make_array(child());
                let r = if w == 8 {
                    LargeListViewArray::try_new(item.clone(), ScalarBuffer::<i64>::from(abuf(&ob)), ScalarBuffer::<i64>::from(abuf(&sb)), vals, None).map(|a| a.to_data())
                } else {
                    ListViewArray::try_new(item.clone(), ScalarBuffer::<i32>::from(abuf(&ob)), ScalarBuffer::<i32>::from(abuf(&sb)), vals, None).map(|a| a.to_data())
                };
                match r {
                    Ok(d) => if d.validate_full().is_ok() { "ok".into() } else { "ok-but-invalid".into() },
                    Err(_) => "REJ".into(),
                }
            });
            format!("t={} y={}", a, if b == "PANIC" { "REJ".to_string() } else { b })
        }
        "ffi" => {
            // C09 ffi <array>: export through the C data interface and import again
            let p = parse_phys_str(t[2]);
            guarded(|| {
                let Ok(d) = try_new_rec(&p) else { return "ERR".into() };
                let arr = make_array(d);
                let src = arr.to_data();
                let Ok((fa, fs)) = arrow_array::ffi::to_ffi(&src) else { return "ERR:export".into() };
                let back = match unsafe { arrow_array::ffi::from_ffi(fa, &fs) } {
                    Ok(b) => b,
                    Err(_) => return "ERR:import".into(),
                };
                if let Err(e) = back.validate_full() {
                    if std::env::var("VERIF_LOUD").is_ok() {
                        eprintln!("imported invalid: {} | imported buffers {:?} offset {} len {}", e, back.buffers().iter().map(|b| b.len()).collect::<Vec<_>>(), back.offset(), back.len());
                    }
                    return "IMPORTED-INVALID".into();
                }
                if back.len() != src.len() || back.data_type() != src.data_type() {
                    return "MISMATCH:shape".into();
                }
                let fmt = |a: &ArrayRef| (0..a.len().min(300)).map(|i| arrow_cast::display::array_value_to_string(a.as_ref(), i).unwrap_or_default()).collect::<Vec<_>>();
                if fmt(&make_array(back)) != fmt(&arr) { "MISMATCH:values".into() } else { "ok".into() }
            })
        }
        "obuf" => {
            // C09 obuf <w> <hex>: OffsetBuffer::new over a ScalarBuffer
            let (w, b) = (t[2], unhex_e(t[3]));
            guarded(|| {
                if w == "8" {
                    let o = OffsetBuffer::new(ScalarBuffer::<i64>::from(abuf(&b)));
                    let _ = o.len();
                } else {
                    let o = OffsetBuffer::new(ScalarBuffer::<i32>::from(abuf(&b)));
                    let _ = o.len();
                }
                "ok".into()
            })
        }
        "fromlens" => {
            // C09 fromlens <w> <lens>: OffsetBuffer::from_lengths
            let lens: Vec<usize> = parse_list(t[3]);
            let w = t[2];
            guarded(|| {
                if w == "8" {
                    show_list(&OffsetBuffer::<i64>::from_lengths(lens).iter().copied().collect::<Vec<_>>())
                } else {
                    show_list(&OffsetBuffer::<i32>::from_lengths(lens).iter().copied().collect::<Vec<_>>())
                }
            })
        }
        "rebuf" => {
            // C09 rebuf <w> <hex> <off> <len>: RunEndBuffer::new
            let (w, b, off, len): (&str, Vec<u8>, usize, usize) = (t[2], unhex_e(t[3]), t[4].parse().unwrap(), t[5].parse().unwrap());
            guarded(|| {
                match w {
                    "2" => { let _ = arrow_buffer::RunEndBuffer::new(ScalarBuffer::<i16>::from(abuf(&b)), off, len); }
                    "4" => { let _ = arrow_buffer::RunEndBuffer::new(ScalarBuffer::<i32>::from(abuf(&b)), off, len); }
                    _ => { let _ = arrow_buffer::RunEndBuffer::new(ScalarBuffer::<i64>::from(abuf(&b)), off, len); }
                }
                "ok".into()
            })
        }
        "align" => {
            let mut c = Cur { s: t[2].as_bytes(), i: 0 };
            let ty = parse_ty(&mut c);
            let (idx, k): (usize, usize) = (t[3].parse().unwrap(), t[4].parse().unwrap());
            guarded(|| {
                let mut rng = Rng::new(7);
                let p = gen_valid(&mut rng, &ty, 3, 0, false, 0);
                let bufs: Vec<Buffer> = p
                    .bufs
                    .iter()
                    .enumerate()
                    .map(|(i, b)| {
                        if i == idx {
                            let mut v = vec![0u8; k];
                            v.extend_from_slice(b);
                            abuf(&v).slice(k)
                        } else {
                            abuf(b)
                        }
                    })
                    .collect();
                let kids: Vec<ArrayData> = p.kids.iter().map(|k| try_new_rec(k).unwrap()).collect();
                match ArrayData::try_new(to_dt(&p.ty), p.len, p.nulls.as_deref().map(abuf), p.offset, bufs, kids) {
                    Ok(_) => "ok".into(),
                    Err(_) => "ERR".into(),
                }
            })
        }
        "batch" => {
            let rows: Option<usize> = if t[2] == "-" { None } else { Some(t[2].parse().unwrap()) };
            let fields: Vec<Field> = if t[3] == "-" {
                vec![]
            } else {
                t[3].split('+')
                    .enumerate()
                    .map(|(i, s)| {
                        let mut c = Cur { s: s.as_bytes(), i: 0 };
                        let n = c.next() == b'?';
                        Field::new(format!("c{}", i), to_dt(&parse_ty(&mut c)), n)
                    })
                    .collect()
            };
            let cols: Vec<Phys> = if t[4] == "-" { vec![] } else { t[4].split('+').map(parse_phys_str).collect() };
            guarded(|| {
                let mut arrays: Vec<ArrayRef> = vec![];
                for c in &cols {
                    match try_new_rec(c) {
                        Ok(d) => arrays.push(make_array(d)),
                        Err(_) => return "COLERR".into(),
                    }
                }
                let opts = RecordBatchOptions::new().with_row_count(rows);
                match RecordBatch::try_new_with_options(Arc::new(Schema::new(fields)), arrays, &opts) {
                    Ok(b) => {
                        let r = std::panic::catch_unwind(std::panic::AssertUnwindSafe(|| {
                            let _ = b.slice(0, b.num_rows() / 2);
                            for c in b.columns() {
                                for i in 0..c.len().min(50) {
                                    let _ = arrow_cast::display::array_value_to_string(c.as_ref(), i);
                                }
                            }
                        }));
                        if r.is_err() {
                            USE.with(|o| o.borrow_mut().push("use-panic:batch".into()));
                        }
                        "ok wf=1".into()
                    }
                    Err(_) => "ERR".into(),
                }
            })
        }
        _ => "bad-op".into(),
    }
}

// ------------------------------------------------------------------------------- generator

fn put_int(v: i64, w: usize, out: &mut Vec<u8>) {
    out.extend_from_slice(&v.to_le_bytes()[..w]);
}
fn get_int(b: &[u8], i: usize, w: usize) -> i64 {
    let mut v: i64 = 0;
    for j in (0..w).rev() {
        v = (v << 8) | b[i * w + j] as i64;
    }
    let sh = 64 - 8 * w;
    if sh == 0 { v } else { (v << sh) >> sh }
}
fn set_int(b: &mut [u8], i: usize, w: usize, v: i64) {
    b[i * w..i * w + w].copy_from_slice(&v.to_le_bytes()[..w]);
}
fn bit(b: &[u8], i: usize) -> bool {
    i / 8 < b.len() && (b[i / 8] >> (i % 8)) & 1 == 1
}

fn gen_ty(rng: &mut Rng, depth: usize) -> Ty {
    let leaf = depth >= 2 || rng.chance(1, 3);
    if leaf {
        match rng.below(9) {
            0 => Ty::Null,
            1 => Ty::Bool,
            2 => Ty::Prim(*rng.pick(&[1, 2, 4, 8, 16, 32])),
            3 => Ty::Prim(4),
            4 => Ty::Utf8(rng.bool()),
            5 => Ty::Utf8(false),
            6 => Ty::Binary(rng.bool()),
            7 => if rng.bool() { Ty::Fsb(rng.usize(4)) } else { Ty::View(rng.bool()) },
            _ => Ty::Prim(8),
        }
    } else {
        match rng.below(8) {
            7 => Ty::Map(Box::new(gen_ty(rng, 2)), Box::new(gen_ty(rng, depth + 1)), rng.bool()),
            0 => Ty::List(rng.bool(), Box::new(gen_ty(rng, depth + 1)), rng.chance(2, 3)),
            1 => Ty::Fsl(rng.usize(4), Box::new(gen_ty(rng, depth + 1)), rng.chance(2, 3)),
            2 => {
                let n = rng.usize(4);
                Ty::Struct((0..n).map(|_| (rng.chance(2, 3), gen_ty(rng, depth + 1))).collect())
            }
            3 => {
                let kw = *rng.pick(&[1usize, 2, 4, 8]);
                Ty::Dict(kw, rng.bool(), Box::new(gen_ty(rng, 2)))
            }
            4 => Ty::Ree(*rng.pick(&[2usize, 4, 8]), Box::new(gen_ty(rng, 2))),
            _ => {
                let n = 1 + rng.usize(3);
                let mut ids: Vec<i8> = vec![0, 1, 2, 5, 7, 100];
                let mut fs = vec![];
                for _ in 0..n {
                    let id = ids.remove(rng.usize(ids.len()));
                    fs.push((id, gen_ty(rng, depth + 1)));
                }
                fs.sort_by_key(|f| f.0);
                if rng.bool() {
                    fs.reverse();
                }
                Ty::Union(rng.bool(), fs)
            }
        }
    }
}

const CHARS: [&str; 6] = ["a", "z", "\u{e9}", "\u{20ac}", "\u{1d11e}", "~"];

fn can_null(t: &Ty) -> bool {
    !matches!(t, Ty::Null | Ty::Union(..) | Ty::Ree(..))
}

/// a valid layout of `n` slots behind `off` unused leading slots
fn gen_valid(rng: &mut Rng, ty: &Ty, n: usize, off: usize, no_nulls: bool, depth: usize) -> Phys {
    let total = off + n;
    let extra = |rng: &mut Rng| if rng.chance(1, 4) { 1 + rng.usize(2) } else { 0 };
    let koff = |rng: &mut Rng| if rng.chance(1, 4) { 1 + rng.usize(3) } else { 0 };
    let nulls = if can_null(ty) && !no_nulls && rng.chance(1, 2) {
        let mut b = { let e = extra(rng); rng.bytes((total + 7) / 8 + e) };
        if rng.chance(1, 4) {
            for x in b.iter_mut() {
                *x = 0xff;
            }
        }
        Some(b)
    } else {
        None
    };
    let mut p = Phys { ty: ty.clone(), len: n, offset: off, nulls, nc: None, bufs: vec![], kids: vec![] };
    match ty {
        Ty::Null => {}
        Ty::Bool => p.bufs.push({ let e = extra(rng); rng.bytes((total + 7) / 8 + e) }),
        Ty::Prim(w) => p.bufs.push({ let e = extra(rng); rng.bytes(total * w + e) }),
        Ty::Fsb(w) => p.bufs.push({ let e = extra(rng); rng.bytes(total * w + e) }),
        Ty::View(u) => {
            let nbuf = rng.usize(3);
            let mut datas: Vec<Vec<u8>> = (0..nbuf).map(|_| vec![b'#'; rng.usize(3)]).collect();
            let mut views: Vec<u8> = vec![];
            for _ in 0..total {
                let mut val: Vec<u8> = vec![];
                let target = *rng.pick(&[0usize, 1, 3, 4, 5, 11, 12, 13, 14, 20]);
                while val.len() < target {
                    if *u { val.extend_from_slice(rng.pick(&CHARS).as_bytes()); } else { val.push(rng.next_u64() as u8); }
                }
                if val.len() > 12 && nbuf == 0 { val.truncate(if *u { 0 } else { 12 }); }
                let mut v = [0u8; 16];
                v[..4].copy_from_slice(&(val.len() as u32).to_le_bytes());
                if val.len() <= 12 {
                    v[4..4 + val.len()].copy_from_slice(&val);
                } else {
                    let bi = rng.usize(nbuf);
                    let at = datas[bi].len();
                    datas[bi].extend_from_slice(&val);
                    v[4..8].copy_from_slice(&val[..4]);
                    v[8..12].copy_from_slice(&(bi as u32).to_le_bytes());
                    v[12..16].copy_from_slice(&(at as u32).to_le_bytes());
                }
                views.extend_from_slice(&v);
            }
            for _ in 0..extra(rng) { views.extend_from_slice(&[0u8; 16]); }
            p.bufs.push(views);
            p.bufs.extend(datas);
        }
        Ty::Map(k, v, vn) => {
            let st = Ty::Struct(vec![(false, (**k).clone()), (*vn, (**v).clone())]);
            let mut q = gen_valid(rng, &Ty::List(false, Box::new(st), false), n, off, no_nulls, depth);
            q.ty = ty.clone();
            return q;
        }
        Ty::Utf8(l) | Ty::Binary(l) => {
            let w = if *l { 8 } else { 4 };
            let mut data: Vec<u8> = vec![];
            for _ in 0..rng.usize(3) {
                data.push(b'#');
            }
            let mut offs = vec![];
            put_int(data.len() as i64, w, &mut offs);
            for _ in 0..total {
                for _ in 0..rng.usize(4) {
                    if matches!(ty, Ty::Utf8(_)) {
                        data.extend_from_slice(rng.pick(&CHARS).as_bytes());
                    } else {
                        data.push(rng.next_u64() as u8);
                    }
                }
                put_int(data.len() as i64, w, &mut offs);
            }
            for _ in 0..extra(rng) {
                data.push(b'#');
            }
            if total == 0 && rng.chance(1, 3) {
                offs.clear();
            }
            p.bufs.push(offs);
            p.bufs.push(data);
        }
        Ty::List(l, item, nullable) => {
            let w = if *l { 8 } else { 4 };
            let mut offs = vec![];
            let mut pos = rng.usize(3);
            put_int(pos as i64, w, &mut offs);
            for _ in 0..total {
                pos += rng.usize(4);
                put_int(pos as i64, w, &mut offs);
            }
            let m = pos + extra(rng);
            if total == 0 && rng.chance(1, 3) {
                offs.clear();
            }
            p.bufs.push(offs);
            p.kids.push({ let ko = koff(rng); gen_valid(rng, item, m, ko, !*nullable, depth + 1) });
        }
        Ty::Fsl(k, item, nullable) => {
            let m = total * k + extra(rng);
            p.kids.push({ let ko = koff(rng); gen_valid(rng, item, m, ko, !*nullable, depth + 1) });
        }
        Ty::Struct(fs) => {
            for (nullable, t) in fs {
                let m = total + extra(rng);
                p.kids.push({ let ko = koff(rng); gen_valid(rng, t, m, ko, !*nullable, depth + 1) });
            }
        }
        Ty::Dict(kw, _s, v) => {
            let m = 1 + rng.usize(4);
            let mut keys = vec![];
            for _ in 0..total {
                put_int(rng.usize(m) as i64, *kw, &mut keys);
            }
            // garbage under nulls is allowed
            if let Some(nb) = &p.nulls {
                for i in 0..n {
                    if !bit(nb, off + i) && rng.chance(1, 2) {
                        set_int(&mut keys, off + i, *kw, 100);
                    }
                }
            }
            for _ in 0..extra(rng) {
                keys.extend_from_slice(&vec![0x7f; *kw]);
            }
            p.bufs.push(keys);
            p.kids.push({ let ko = koff(rng); gen_valid(rng, v, m, ko, false, depth + 1) });
        }
        Ty::Ree(rw, v) => {
            let mut ends = vec![];
            let mut e = 0usize;
            let mut runs = 0;
            while e < total || (runs == 0 && rng.bool()) {
                e += 1 + rng.usize(4);
                put_int(e as i64, *rw, &mut ends);
                runs += 1;
            }
            let ro = if rng.chance(1, 8) { 1 } else { 0 };
            let mut re_buf = vec![0u8; ro * rw];
            re_buf.extend_from_slice(&ends);
            p.kids.push(Phys { ty: Ty::Prim(*rw), len: runs, offset: ro, nulls: None, nc: None, bufs: vec![re_buf], kids: vec![] });
            p.kids.push(gen_valid(rng, v, runs, 0, false, depth + 1));
        }
        Ty::Union(dense, fs) => {
            let mut ids = vec![];
            let mut offs = vec![];
            let lens: Vec<usize> = fs.iter().map(|_| if *dense { 1 + rng.usize(4) } else { total + extra(rng) }).collect();
            for _ in 0..total {
                let k = rng.usize(fs.len());
                ids.push(fs[k].0 as u8);
                if *dense {
                    put_int(rng.usize(lens[k]) as i64, 4, &mut offs);
                }
            }
            for _ in 0..extra(rng) {
                ids.push(0x55);
                if *dense {
                    put_int(77, 4, &mut offs);
                }
            }
            p.bufs.push(ids);
            if *dense {
                p.bufs.push(offs);
            }
            for (k, (_, t)) in fs.iter().enumerate() {
                p.kids.push({ let ko = koff(rng); gen_valid(rng, t, lens[k], ko, false, depth + 1) });
            }
        }
    }
    p
}

fn pick_len(rng: &mut Rng) -> usize {
    match rng.below(10) {
        0 => 0,
        1 => 1,
        2 => *rng.pick(&[7usize, 8, 9]),
        3 => *rng.pick(&[63usize, 64, 65, 70, 130]),
        _ => rng.usize(7),
    }
}
fn pick_off(rng: &mut Rng) -> usize {
    match rng.below(8) {
        0..=3 => 0,
        4 => *rng.pick(&[7usize, 8, 9, 64]),
        _ => 1 + rng.usize(4),
    }
}

/// apply one mutation to the node `p`; returns tags describing it (None: not applicable)
fn mutate(rng: &mut Rng, p: &mut Phys) -> Option<String> {
    let (len, off) = (p.len, p.offset);
    let total = len + off;
    let m = if matches!(p.ty, Ty::View(_)) && rng.chance(1, 2) { 20 } else { rng.below(22) };
    match m {
        0 => {
            // one offset out of order / out of bounds / negative
            let (w, limit) = match &p.ty {
                Ty::Utf8(l) | Ty::Binary(l) => (if *l { 8 } else { 4 }, p.bufs.get(1)?.len()),
                Ty::List(l, _, _) => (if *l { 8 } else { 4 }, p.kids.first()?.len),
                Ty::Map(..) => (4, p.kids.first()?.len),
                _ => return None,
            };
            if len == 0 || p.bufs[0].len() < (total + 1) * w {
                return None;
            }
            let i = off + rng.usize(len + 1);
            let how = rng.below(4);
            let cur = get_int(&p.bufs[0], i, w);
            let v = match how {
                0 => -1 - rng.usize(3) as i64,
                1 => limit as i64 + 1 + rng.usize(3) as i64,
                2 => {
                    if i == off { return None; }
                    get_int(&p.bufs[0], i - 1, w) - 1
                }
                _ => {
                    if i == off + len { return None; }
                    get_int(&p.bufs[0], i + 1, w) + 1
                }
            };
            if v == cur { return None; }
            set_int(&mut p.bufs[0], i, w, v);
            Some(format!("mut:offset{} pos:{}", how, if i == off { "first" } else if i == off + len { "last" } else { "mid" }))
        }
        1 => {
            // an offset before `offset` or after `offset+len` is garbage: still valid
            let w = match &p.ty {
                Ty::Utf8(l) | Ty::Binary(l) | Ty::List(l, _, _) => if *l { 8 } else { 4 },
                Ty::Map(..) => 4,
                _ => return None,
            };
            if off == 0 || p.bufs[0].len() < (total + 1) * w { return None; }
            set_int(&mut p.bufs[0], rng.usize(off), w, -5);
            Some("mut:offset-outside-window valid".into())
        }
        2 => {
            // dictionary key out of range
            let Ty::Dict(kw, signed, _) = p.ty.clone() else { return None };
            if len == 0 { return None; }
            let i = off + rng.usize(len);
            let dl = p.kids[0].len as i64;
            let v = match rng.below(3) {
                0 => dl,
                1 => if signed { -1 } else { (1i64 << (8 * kw.min(7))) - 1 + if kw == 8 { i64::MIN } else { 0 } },
                _ => dl + 1 + rng.usize(50) as i64,
            };
            set_int(&mut p.bufs[0], i, kw, v);
            let is_valid = p.nulls.as_ref().map(|b| bit(b, i)).unwrap_or(true);
            Some(format!("mut:key-out-of-range {}", if is_valid { "at-valid" } else { "at-null valid" }))
        }
        3 => {
            // union type id not declared
            let Ty::Union(_, fs) = p.ty.clone() else { return None };
            if len == 0 { return None; }
            let i = off + rng.usize(len);
            let bad = *rng.pick(&[3i8, -1, 99, 127, -128, 4]);
            if fs.iter().any(|f| f.0 == bad) { return None; }
            p.bufs[0][i] = bad as u8;
            Some("mut:union-typeid kf:union-typeid-unvalidated".into())
        }
        4 => {
            // dense union offset out of the child's range
            let Ty::Union(true, fs) = p.ty.clone() else { return None };
            if len == 0 { return None; }
            let i = off + rng.usize(len);
            let id = p.bufs[0][i] as i8;
            let k = fs.iter().position(|f| f.0 == id)?;
            let cl = p.kids[k].len as i64;
            let v = match rng.below(3) { 0 => cl, 1 => -1, _ => cl + 100 };
            set_int(&mut p.bufs[1], i, 4, v);
            Some("mut:union-offset kf:union-offset-unvalidated".into())
        }
        5 => {
            // run ends: not increasing / non-positive / not covering
            let Ty::Ree(rw, _) = p.ty.clone() else { return None };
            let re = &mut p.kids[0];
            if re.len == 0 { return None; }
            let how = rng.below(4);
            match how {
                0 => {
                    if re.len < 2 { return None; }
                    let j = re.offset + 1 + rng.usize(re.len - 1);
                    let prev = get_int(&re.bufs[0], j - 1, rw);
                    set_int(&mut re.bufs[0], j, rw, prev - rng.usize(2) as i64);
                    Some("mut:runend-not-increasing".into())
                }
                1 => {
                    let v = -(rng.usize(2) as i64);
                    set_int(&mut re.bufs[0], re.offset, rw, v);
                    Some("mut:runend-nonpositive".into())
                }
                2 => {
                    // last run end below offset+len
                    let last = get_int(&re.bufs[0], re.offset + re.len - 1, rw);
                    let prev = if re.len >= 2 { get_int(&re.bufs[0], re.offset + re.len - 2, rw) } else { 0 };
                    if total == 0 || prev + 1 >= total as i64 || last < total as i64 { return None; }
                    let v = prev + 1 + rng.usize((total as i64 - 1 - prev) as usize) as i64;
                    set_int(&mut re.bufs[0], re.offset + re.len - 1, rw, v);
                    Some("mut:runend-short kf:ree-len-beyond-run-ends".into())
                }
                _ => {
                    // parent len grows beyond the last run end
                    let last = get_int(&re.bufs[0], re.offset + re.len - 1, rw);
                    p.len = (last as usize).saturating_sub(off) + 1 + rng.usize(3);
                    Some("mut:ree-len-beyond kf:ree-len-beyond-run-ends".into())
                }
            }
        }
        6 => {
            // len / offset overflow-ish
            let how = rng.below(4);
            match how {
                0 => p.len = usize::MAX - rng.usize(3),
                1 => p.offset = usize::MAX - rng.usize(3),
                2 => {
                    p.len = usize::MAX / 2 + 1 + rng.usize(2);
                    p.offset = usize::MAX / 2 + rng.usize(2);
                }
                _ => p.len = (1usize << 62) + rng.usize(2),
            }
            let v = matches!(p.ty, Ty::Null) && p.len.checked_add(p.offset).is_some()
                || matches!(&p.ty, Ty::Struct(f) if f.is_empty()) && p.nulls.is_none() && p.len.checked_add(p.offset).is_some();
            let ree = matches!(p.ty, Ty::Ree(..)) && p.len.checked_add(p.offset).is_some();
            let no_ovf = p.len.checked_add(p.offset).is_some();
            let kf = match &p.ty {
                Ty::Struct(f) if !f.is_empty() && no_ovf => " kf:struct-child-len-offset",
                Ty::Fsl(n, _, _) if *n > 0 && no_ovf => " kf:fsl-child-len-offset",
                _ => "",
            };
            Some(format!("mut:huge{}{}{}{}", how, if v { " valid" } else { "" }, if ree { " kf:ree-len-beyond-run-ends" } else { "" }, kf))
        }
        7 => {
            // short buffer
            if p.bufs.is_empty() { return None; }
            let k = rng.usize(p.bufs.len());
            let need = match (&p.ty, k) {
                (Ty::Bool, 0) => (total + 7) / 8,
                (Ty::Prim(w), 0) | (Ty::Fsb(w), 0) | (Ty::Dict(w, _, _), 0) => total * w,
                (Ty::Utf8(l), 0) | (Ty::Binary(l), 0) | (Ty::List(l, _, _), 0) => (total + 1) * if *l { 8 } else { 4 },
                (Ty::Union(..), 0) => total,
                (Ty::View(_), 0) => total * 16,
                (Ty::Map(..), 0) => (total + 1) * 4,
                (Ty::Union(..), 1) => total * 4,
                (Ty::Utf8(_), 1) | (Ty::Binary(_), 1) => {
                    // values buffer shorter than the last offset
                    let w = if matches!(p.ty, Ty::Utf8(true) | Ty::Binary(true)) { 8 } else { 4 };
                    if p.bufs[0].len() < (total + 1) * w { return None; }
                    get_int(&p.bufs[0], total, w).max(0) as usize
                }
                _ => return None,
            };
            if need == 0 || p.bufs[k].len() < need { return None; }
            let cut = 1 + rng.usize(need.min(3));
            p.bufs[k].truncate(need - cut);
            // a values buffer cut below the last offset of the window only matters if len > 0 or offsets are checked
            Some(format!("mut:short-buffer{}", k))
        }
        8 => {
            // wrong buffer count
            if rng.bool() {
                if p.bufs.is_empty() { return None; }
                p.bufs.pop();
                Some("mut:buffer-dropped".into())
            } else {
                p.bufs.push(rng.bytes(8));
                Some("mut:buffer-added".into())
            }
        }
        9 => {
            // wrong child count
            if rng.bool() {
                if p.kids.is_empty() { return None; }
                p.kids.pop();
                Some("mut:child-dropped".into())
            } else {
                let k = if p.kids.is_empty() || rng.bool() { gen_valid(rng, &Ty::Prim(4), total.min(1000), 0, false, 2) } else { p.kids[0].clone() };
                p.kids.push(k);
                Some("mut:child-added".into())
            }
        }
        10 => {
            // child shorter than offset+len (struct / fsl / sparse union)
            let (k, per, kf) = match &p.ty {
                Ty::Struct(fs) if !fs.is_empty() => (rng.usize(fs.len()), 1, "kf:struct-child-len-offset"),
                Ty::Fsl(n, _, _) if *n > 0 => (0, *n, "kf:fsl-child-len-offset"),
                Ty::Union(false, fs) => (rng.usize(fs.len()), 1, "sparse-union"),
                _ => return None,
            };
            if total == 0 { return None; }
            let need = total * per;
            let newlen = if off > 0 && rng.chance(2, 3) {
                // enough for `len` slots but not for `offset + len`
                len * per + rng.usize((need - len * per).max(1))
            } else {
                rng.usize(need)
            };
            if newlen >= need || p.kids[k].len < newlen { return None; }
            p.kids[k].len = newlen;
            let gap = newlen >= len * per && off > 0;
            Some(format!("mut:child-short {}", if gap && kf != "sparse-union" { kf } else { "below-len" }))
        }
        11 => {
            // bad declared null count (builder path only)
            let nb = p.nulls.as_ref()?;
            let actual = (0..len).filter(|i| !bit(nb, off + i)).count();
            let v = match rng.below(3) { 0 => actual + 1, 1 => actual.checked_sub(1)?, _ => len + 1 };
            p.nc = Some(v);
            Some(format!("mut:null-count {}", if v == 0 { "declared-zero valid" } else { "" }))
        }
        12 => {
            // short validity bitmap
            let nb = p.nulls.as_mut()?;
            let need = (total + 7) / 8;
            if need == 0 { return None; }
            nb.truncate(need - 1 - rng.usize(need.min(2)));
            Some("mut:short-bitmap".into())
        }
        13 => {
            // null in a non-nullable child at a slot owned by a valid parent slot
            let (k, per) = match &p.ty {
                Ty::Struct(fs) => (fs.iter().position(|f| !f.0)?, 1),
                Ty::Fsl(n, _, false) if *n > 0 => (0, *n),
                Ty::List(_, _, false) => (0, 0),
                _ => return None,
            };
            let c = &mut p.kids[k];
            if !can_null(&c.ty) || c.len == 0 { return None; }
            let j = if per == 0 {
                rng.usize(c.len)
            } else {
                if len == 0 { return None; }
                let i = rng.usize(len);
                if let Some(nb) = &p.nulls { if !bit(nb, off + i) { return None; } }
                (off + i) * per + rng.usize(per)
            };
            if j >= c.len { return None; }
            let mut nbm = vec![0xffu8; (c.offset + c.len + 7) / 8];
            nbm[(c.offset + j) / 8] &= !(1 << ((c.offset + j) % 8));
            c.nulls = Some(nbm);
            Some(format!("mut:nonnull-child-null {}", if off > 0 && per > 0 { "kf:nonnull-child-parent-offset" } else { "" }))
        }
        14 => {
            // wrong child type
            if p.kids.is_empty() { return None; }
            let k = rng.usize(p.kids.len());
            let old = p.kids[k].ty.clone();
            let new = match old {
                Ty::Prim(4) => Ty::Prim(8),
                Ty::List(l, i, n) => Ty::List(l, i, !n),
                _ => Ty::Prim(4),
            };
            let (kl, ko) = (p.kids[k].len.min(1000), p.kids[k].offset.min(10));
            p.kids[k] = gen_valid(rng, &new, kl, ko, true, 2);
            Some("mut:child-type".into())
        }
        15 => {
            // invalid UTF-8 or an offset inside a character
            let Ty::Utf8(l) = p.ty.clone() else { return None };
            let w = if l { 8 } else { 4 };
            if len == 0 || p.bufs[0].len() < (total + 1) * w { return None; }
            let (s, e) = (get_int(&p.bufs[0], off, w) as usize, get_int(&p.bufs[0], total, w) as usize);
            if rng.bool() {
                if e <= s { return None; }
                let at = s + rng.usize(e - s);
                p.bufs[1][at] = *rng.pick(&[0xffu8, 0x80, 0xc0, 0xed, 0xf5]);
                Some("mut:utf8-bad-byte maybe-valid".into())
            } else {
                // move an interior offset into the middle of a multi-byte character
                for i in off + 1..total {
                    let o = get_int(&p.bufs[0], i, w) as usize;
                    let prev = get_int(&p.bufs[0], i - 1, w) as usize;
                    if o > prev + 1 && o < p.bufs[1].len() && p.bufs[1][o - 1] >= 0x80 && (p.bufs[1][o - 1] & 0xc0) == 0x80 {
                        set_int(&mut p.bufs[0], i, w, o as i64 - 1);
                        return Some("mut:utf8-split-char".into());
                    }
                }
                None
            }
        }
        16 => {
            // validity bitmap on a type that cannot have one
            if can_null(&p.ty) { return None; }
            let mut b = rng.bytes((total.min(4096) + 7) / 8 + 1);
            if rng.bool() { for x in b.iter_mut() { *x = 0xff; } }
            let all_valid = (0..len.min(4096)).all(|i| bit(&b, off + i));
            p.nulls = Some(b);
            Some(format!("mut:nulls-not-allowed {}", if all_valid { "dropped-by-build valid" } else { "" }))
        }
        17 => {
            // invalid UTF-8 under an otherwise fine binary layout is fine: Binary accepts any bytes
            let Ty::Binary(_) = p.ty else { return None };
            if p.bufs[1].is_empty() { return None; }
            let at = rng.usize(p.bufs[1].len());
            p.bufs[1][at] = 0xff;
            Some("mut:binary-any-bytes valid".into())
        }
        18 => {
            // run-ends child with nulls / different length from values
            let Ty::Ree(..) = p.ty else { return None };
            if rng.bool() {
                let re = &mut p.kids[0];
                if re.len == 0 { return None; }
                let mut nbm = vec![0xffu8; (re.offset + re.len + 7) / 8];
                nbm[re.offset / 8] &= !(1 << (re.offset % 8));
                re.nulls = Some(nbm);
                Some("mut:runends-null".into())
            } else {
                if p.kids[1].len == 0 { return None; }
                p.kids[1].len -= 1;
                Some("mut:ree-values-len".into())
            }
        }
        19 => {
            // an element buffer whose byte length is not a multiple of the element size
            // (`Buffer::typed_data` asserts an empty suffix: the validator panics instead of returning Err)
            let w = match &p.ty {
                Ty::Utf8(l) | Ty::Binary(l) | Ty::List(l, _, _) => if *l { 8 } else { 4 },
                Ty::Dict(kw, _, _) => *kw,
                Ty::View(_) => 16,
                Ty::Map(..) => 4,
                _ => return None,
            };
            if w <= 1 || p.bufs.is_empty() || p.bufs[0].is_empty() { return None; }
            let k = 1 + rng.usize(w - 1);
            let extra = rng.bytes(k);
            p.bufs[0].extend_from_slice(&extra);
            Some("mut:buffer-odd-length".into())
        }
        20 | 21 => {
            // one view out of range / malformed
            let Ty::View(u) = p.ty.clone() else { return None };
            if len == 0 || p.bufs[0].len() < total * 16 { return None; }
            let i = off + rng.usize(len);
            let v: [u8; 16] = p.bufs[0][i * 16..i * 16 + 16].try_into().unwrap();
            let vlen = u32::from_le_bytes([v[0], v[1], v[2], v[3]]) as usize;
            let ndata = p.bufs.len() - 1;
            let how = rng.below(7);
            match how {
                0 => {
                    // non-zero padding of an inline view
                    if vlen >= 12 { return None; }
                    let v = &mut p.bufs[0][i * 16..i * 16 + 16];
                    v[4 + vlen + rng.usize(12 - vlen)] = 1 + rng.usize(200) as u8;
                    Some("mut:view-padding".into())
                }
                1 => {
                    // inline length 12 -> 13 without a buffer behind it
                    let v = &mut p.bufs[0][i * 16..i * 16 + 16];
                    v[0] = 13;
                    v[1] = 0;
                    v[2] = 0;
                    v[3] = 0;
                    v[8..12].copy_from_slice(&(ndata as u32 + rng.usize(2) as u32).to_le_bytes());
                    Some("mut:view-len13-no-buffer".into())
                }
                2 => {
                    if vlen <= 12 { return None; }
                    let v = &mut p.bufs[0][i * 16..i * 16 + 16];
                    v[8..12].copy_from_slice(&(ndata as u32).to_le_bytes());
                    Some("mut:view-buffer-index".into())
                }
                3 => {
                    if vlen <= 12 { return None; }
                    let bi = u32::from_le_bytes([v[8], v[9], v[10], v[11]]) as usize;
                    let dl = p.bufs[1 + bi].len();
                    let v = &mut p.bufs[0][i * 16..i * 16 + 16];
                    v[12..16].copy_from_slice(&((dl - vlen + 1) as u32).to_le_bytes());
                    Some("mut:view-offset-beyond".into())
                }
                4 => {
                    if vlen <= 12 { return None; }
                    let v = &mut p.bufs[0][i * 16..i * 16 + 16];
                    v[4 + rng.usize(4)] ^= 0x01;
                    Some("mut:view-prefix".into())
                }
                5 => {
                    if !u || vlen == 0 { return None; }
                    if vlen <= 12 {
                        let v = &mut p.bufs[0][i * 16..i * 16 + 16];
                        v[4 + rng.usize(vlen)] = 0xff;
                    } else {
                        let bi = u32::from_le_bytes([v[8], v[9], v[10], v[11]]) as usize;
                        let at = u32::from_le_bytes([v[12], v[13], v[14], v[15]]) as usize;
                        let k = 4 + rng.usize(vlen - 4);
                        p.bufs[1 + bi][at + k] = 0xff;
                    }
                    Some("mut:view-utf8".into())
                }
                _ => {
                    // huge length
                    let v = &mut p.bufs[0][i * 16..i * 16 + 16];
                    v[3] = 0x7f;
                    Some("mut:view-len-huge".into())
                }
            }
        }
        _ => None,
    }
}

/// collect mutable references to nodes (pre-order)
fn node_count(p: &Phys) -> usize {
    1 + p.kids.iter().map(node_count).sum::<usize>()
}
fn node_mut(p: &mut Phys, k: usize) -> &mut Phys {
    if k == 0 { return p; }
    let mut k = k - 1;
    for c in p.kids.iter_mut() {
        let n = node_count(c);
        if k < n { return node_mut(c, k); }
        k -= n;
    }
    unreachable!()
}

fn ty_tag(t: &Ty) -> &'static str {
    match t {
        Ty::Null => "null",
        Ty::Bool => "bool",
        Ty::Prim(_) => "prim",
        Ty::Utf8(_) => "utf8",
        Ty::Binary(_) => "binary",
        Ty::Fsb(_) => "fsb",
        Ty::View(_) => "view",
        Ty::Map(..) => "map",
        Ty::List(..) => "list",
        Ty::Fsl(..) => "fsl",
        Ty::Struct(_) => "struct",
        Ty::Dict(..) => "dict",
        Ty::Ree(..) => "ree",
        Ty::Union(true, _) => "dense-union",
        Ty::Union(false, _) => "sparse-union",
    }
}

fn gen_layout_case(rng: &mut Rng) -> (String, String) {
    let ty = gen_ty(rng, 0);
    let (n, off) = (pick_len(rng), pick_off(rng));
    let mut p = gen_valid(rng, &ty, n, off, false, 0);
    let mut tags = format!("type:{}", ty_tag(&ty));
    if off > 0 { tags.push_str(" off>0"); }
    let mut mutated = false;
    if rng.chance(3, 4) {
        for _ in 0..12 {
            let cnt = node_count(&p);
            let k = if rng.chance(3, 4) { 0 } else { rng.usize(cnt) };
            let mut q = p.clone();
            let node = node_mut(&mut q, k);
            let nty = ty_tag(&node.ty);
            if let Some(t) = mutate(rng, node) {
                // kf tags are only meaningful when the mutated node is reachable from the root window;
                // keep them for the root, replace for inner nodes (inner windows may not be addressed)
                let t = if k == 0 { t } else { t + " inner" };
                tags.push_str(&format!(" {} mtype:{} nt", t, nty));
                p = q;
                mutated = true;
                break;
            }
        }
    }
    if !mutated {
        tags.push_str(" mut:none valid");
        if n > 0 { tags.push_str(" nt"); }
    }
    let op = if p_has_nc(&p) || rng.chance(1, 3) { "full" } else { "trynew" };
    tags.push_str(&format!(" op:{}", op));
    (format!("C09 {} {}", op, show_phys(&p)), tags)
}
fn p_has_nc(p: &Phys) -> bool {
    p.nc.is_some() || p.kids.iter().any(p_has_nc)
}

fn gen_align_case(rng: &mut Rng) -> (String, String) {
    loop {
        let ty = gen_ty(rng, 1);
        let nb = match &ty {
            Ty::Null | Ty::Fsl(..) | Ty::Struct(_) | Ty::Ree(..) => 0,
            Ty::Utf8(_) | Ty::Binary(_) | Ty::Union(true, _) => 2,
            _ => 1,
        };
        if nb == 0 { continue; }
        let idx = rng.usize(nb);
        let k = *rng.pick(&[0usize, 1, 2, 3, 4, 6, 8, 12, 16, 24, 32, 48]);
        return (format!("C09 align {} {} {}", show_ty(&ty), idx, k), format!("op:align type:{} {}", ty_tag(&ty), if k % 16 != 0 { "nt" } else { "" }));
    }
}

fn gen_batch_case(rng: &mut Rng) -> (String, String) {
    let ncols = rng.usize(4);
    let rows = pick_len(rng).min(9);
    let mut fields: Vec<(bool, Ty)> = vec![];
    let mut cols: Vec<Phys> = vec![];
    for _ in 0..ncols {
        let ty = gen_ty(rng, 1);
        let nullable = rng.chance(2, 3);
        let po = pick_off(rng).min(3);
        cols.push(gen_valid(rng, &ty, rows, po, !nullable, 1));
        fields.push((nullable, ty));
    }
    let mut row_opt = if rng.bool() { Some(rows) } else { None };
    let mut tag = "mut:none";
    match rng.below(8) {
        0 if ncols > 0 => {
            let k = rng.usize(ncols);
            let l = if rng.bool() { rows + 1 } else { rows.saturating_sub(1) };
            cols[k] = gen_valid(rng, &fields[k].1, l, 0, !fields[k].0, 1);
            tag = "mut:col-len";
        }
        1 if ncols > 0 => {
            let k = rng.usize(ncols);
            fields[k].1 = if fields[k].1 == Ty::Prim(4) { Ty::Prim(8) } else { Ty::Prim(4) };
            tag = "mut:col-type";
        }
        2 if ncols > 0 => {
            let k = rng.usize(ncols);
            if can_null(&cols[k].ty) && rows > 0 {
                let c = &mut cols[k];
                let mut nbm = vec![0xffu8; (c.offset + c.len + 7) / 8];
                let j = c.offset + rng.usize(c.len);
                nbm[j / 8] &= !(1 << (j % 8));
                c.nulls = Some(nbm);
                fields[k].0 = false;
                tag = "mut:null-in-nonnullable";
            }
        }
        3 => {
            row_opt = Some(rows + 1);
            tag = "mut:row-count";
        }
        4 => {
            if rng.bool() && ncols > 0 { cols.pop(); } else { fields.push((true, Ty::Prim(4))); }
            tag = "mut:col-count";
        }
        5 => {
            row_opt = None;
            tag = "mut:no-row-count";
        }
        _ => {}
    }
    let f = if fields.is_empty() { "-".to_string() } else { fields.iter().map(|(n, t)| format!("{}{}", nb(*n), show_ty(t))).collect::<Vec<_>>().join("+") };
    let c = if cols.is_empty() { "-".to_string() } else { cols.iter().map(show_phys).collect::<Vec<_>>().join("+") };
    (
        format!("C09 batch {} {} {}", row_opt.map(|r| r.to_string()).unwrap_or("-".into()), f, c),
        format!("op:batch {} {}", tag, if ncols > 0 { "nt" } else { "" }),
    )
}

fn gen_typed_case(rng: &mut Rng) -> (String, String) {
    loop {
        let (kind, ty) = match rng.below(10) {
            0 => ("bytes", if rng.bool() { Ty::Utf8(rng.bool()) } else { Ty::Binary(rng.bool()) }),
            1 => ("list", Ty::List(rng.bool(), Box::new(gen_ty(rng, 2)), rng.chance(2, 3))),
            2 => ("fsl", Ty::Fsl(1 + rng.usize(3), Box::new(gen_ty(rng, 2)), rng.chance(2, 3))),
            3 => {
                let n = 1 + rng.usize(3);
                ("struct", Ty::Struct((0..n).map(|_| (rng.chance(2, 3), gen_ty(rng, 2))).collect()))
            }
            4 => ("dict", Ty::Dict(*rng.pick(&[1usize, 2, 4, 8]), rng.bool(), Box::new(gen_ty(rng, 2)))),
            5 => ("run", Ty::Ree(*rng.pick(&[2usize, 4, 8]), Box::new(gen_ty(rng, 2)))),
            7 => if rng.bool() { ("fsbin", Ty::Fsb(rng.usize(4))) } else { ("prim", Ty::Prim(*rng.pick(&[1usize, 2, 4, 8]))) },
            6 => if rng.bool() { ("view", Ty::View(rng.bool())) } else { ("map", Ty::Map(Box::new(gen_ty(rng, 2)), Box::new(gen_ty(rng, 2)), rng.bool())) },
            _ => {
                let t = loop {
                    let t = gen_ty(rng, 1);
                    if matches!(t, Ty::Union(..)) { break t; }
                };
                ("union", t)
            }
        };
        let n = pick_len(rng).min(70);
        let mut p = gen_valid(rng, &ty, n, 0, false, 1);
        let mut tags = format!("op:typed kind:{}", kind);
        if rng.chance(3, 4) {
            for _ in 0..12 {
                let mut q = p.clone();
                if let Some(t) = mutate(rng, &mut q) {
                    if q.offset != 0 || q.nc.is_some() { continue; }
                    if t.contains("mut:buffer-added") || t.contains("mut:nulls-not-allowed") { continue; }
                    if t.contains("mut:child-type") && (kind == "dict" || kind == "run" || kind == "map") { continue; }
                    if (t.contains("mut:child-added") || t.contains("mut:child-dropped")) && (kind == "view" || kind == "fsbin" || kind == "prim") { continue; }
                    if t.contains("mut:buffer-dropped") && kind == "view" { continue; }
                    if (t.contains("mut:child-added") || t.contains("mut:child-dropped")) && kind == "bytes" { continue; }
                    let extra_tag = if t.contains("mut:child-type") && kind == "union" { " kf:union-try-new-child-type" } else { "" };
                    tags.push_str(&format!(" {}{} nt", t.replace("kf:", "untyped-kf:"), extra_tag));
                    p = q;
                    break;
                }
            }
        }
        // typed constructors take whole components: drop trailing slack the components cannot express
        if let Some(l) = typed_len(kind, &p) {
            p.len = l;
        }
        if p.len > 100_000 { continue; }
        let line_body = show_phys(&p);
        return (format!("C09 typed {} {}", kind, line_body), tags);
    }
}

/// struct / fixed-size list with a non-nullable child, a parent validity bitmap and a parent offset:
/// put one null into the child at a slot owned by a *valid* parent slot (`NullBuffer::contains`
/// compares the masks without the parent offset)
fn gen_nonnull_offset_case(rng: &mut Rng) -> (String, String) {
    let per = if rng.bool() { 0 } else { 1 + rng.usize(2) };
    let ty = if per == 0 { Ty::Struct(vec![(false, Ty::Prim(1))]) } else { Ty::Fsl(per, Box::new(Ty::Prim(1)), false) };
    let k = per.max(1);
    let n = 1 + pick_len(rng).min(70);
    let span = if rng.bool() { 3 } else { 70 };
    let off = if rng.chance(1, 5) { 0 } else { 1 + rng.usize(span) };
    let total = off + n;
    let mut p = gen_valid(rng, &ty, n, off, false, 0);
    let mut nb = rng.bytes((total + 7) / 8);
    let i = rng.usize(n);
    nb[(off + i) / 8] |= 1 << ((off + i) % 8);
    p.nulls = Some(nb);
    let c = &mut p.kids[0];
    let j = (off + i) * k + rng.usize(k);
    let mut cb = vec![0xffu8; (c.offset + c.len + 7) / 8];
    cb[(c.offset + j) / 8] &= !(1 << ((c.offset + j) % 8));
    c.nulls = Some(cb);
    let op = if rng.bool() { "full" } else { "trynew" };
    (
        format!("C09 {} {}", op, show_phys(&p)),
        format!("type:{} mut:nonnull-child-null directed {} nt op:{}", ty_tag(&ty), if off > 0 { "off>0 kf:nonnull-child-parent-offset" } else { "" }, op),
    )
}

/// Directed UTF-8 cases: multi-byte content, the WHOLE values buffer valid UTF-8, and exactly one
/// visible offset moved into the middle of a code point (first visible / middle / last visible
/// offset; first offset != 0; array offset > 0), or an invalid byte only in the unreferenced
/// prefix / suffix of the values buffer.  At the root or nested under list / struct / dictionary.
fn gen_utf8_case(rng: &mut Rng) -> (String, String) {
    const MB: [&str; 3] = ["\u{e9}", "\u{20ac}", "\u{1f640}"];
    let large = rng.chance(1, 3);
    let w = if large { 8 } else { 4 };
    let n = 1 + rng.usize(5);
    let off = if rng.bool() { 0 } else { 1 + rng.usize(3) };
    let total = off + n;
    let mut data: Vec<u8> = vec![];
    let npre = if rng.chance(3, 4) { 1 + rng.usize(2) } else { 0 };
    for _ in 0..npre {
        data.extend_from_slice(rng.pick(&MB).as_bytes());
    }
    let mut offs_v: Vec<i64> = vec![data.len() as i64];
    for _ in 0..total {
        let k = 1 + rng.usize(3);
        for j in 0..k {
            if j == 1 && k == 3 && rng.bool() {
                data.push(b'a');
            } else {
                data.extend_from_slice(rng.pick(&MB).as_bytes());
            }
        }
        offs_v.push(data.len() as i64);
    }
    let nsuf = if rng.chance(3, 4) { 1 + rng.usize(2) } else { 0 };
    for _ in 0..nsuf {
        data.extend_from_slice(rng.pick(&MB).as_bytes());
    }
    let (first, last) = (offs_v[off] as usize, offs_v[total] as usize);
    let mut variant = rng.below(10);
    if variant == 1 && first == 0 { variant = 2; }
    if (variant == 5 || variant == 7) && first == 0 { variant = 2; }
    if variant == 6 && last == data.len() { variant = 4; }
    let mut tag = String::new();
    let mut split = |offs_v: &mut Vec<i64>, i: usize, up: bool, data_len: usize| -> bool {
        let v = offs_v[i] + if up { 1 } else { -1 };
        if v < 0 || v as usize > data_len { return false; }
        offs_v[i] = v;
        true
    };
    match variant {
        0 => tag.push_str("u8:none valid"),
        1 => { split(&mut offs_v, off, false, data.len()); tag.push_str("u8:split pos:first dir:down"); }
        2 | 8 => { split(&mut offs_v, off, true, data.len()); tag.push_str("u8:split pos:first dir:up"); }
        3 => {
            if n >= 2 {
                let i = off + 1 + rng.usize(n - 1);
                let up = rng.bool();
                split(&mut offs_v, i, up, data.len());
                tag.push_str("u8:split pos:mid");
            } else {
                split(&mut offs_v, off, true, data.len());
                tag.push_str("u8:split pos:first dir:up");
            }
        }
        4 | 9 => {
            let up = nsuf > 0 && rng.bool();
            split(&mut offs_v, total, up, data.len());
            tag.push_str(if up { "u8:split pos:last dir:up" } else { "u8:split pos:last dir:down" });
        }
        5 => { let at = rng.usize(first); data[at] = 0xff; tag.push_str("u8:bad-prefix valid"); }
        6 => { let at = last + rng.usize(data.len() - last); data[at] = 0xff; tag.push_str("u8:bad-suffix valid"); }
        _ => {
            let at = rng.usize(first);
            data[at] = 0xff;
            split(&mut offs_v, off, true, data.len());
            tag.push_str("u8:bad-prefix+split pos:first");
        }
    }
    let mut offs = vec![];
    for v in &offs_v {
        put_int(*v, w, &mut offs);
    }
    let nulls = if rng.chance(1, 3) { Some(rng.bytes((total + 7) / 8)) } else { None };
    let u = Phys { ty: Ty::Utf8(large), len: n, offset: off, nulls, nc: None, bufs: vec![offs, data], kids: vec![] };
    let (p, nest) = match rng.below(6) {
        0 => {
            let mut lo = vec![];
            put_int(0, 4, &mut lo);
            put_int(n as i64, 4, &mut lo);
            (Phys { ty: Ty::List(false, Box::new(Ty::Utf8(large)), true), len: 1, offset: 0, nulls: None, nc: None, bufs: vec![lo], kids: vec![u] }, "list")
        }
        1 => (Phys { ty: Ty::Struct(vec![(true, Ty::Utf8(large))]), len: n, offset: 0, nulls: None, nc: None, bufs: vec![], kids: vec![u] }, "struct"),
        2 => {
            let m = 1 + rng.usize(4);
            let keys: Vec<u8> = (0..m).map(|_| rng.usize(n) as u8).collect();
            (Phys { ty: Ty::Dict(1, true, Box::new(Ty::Utf8(large))), len: m, offset: 0, nulls: None, nc: None, bufs: vec![keys], kids: vec![u] }, "dict")
        }
        _ => (u, "root"),
    };
    let op = if rng.chance(1, 3) { "full" } else { "trynew" };
    (
        format!("C09 {} {}", op, show_phys(&p)),
        format!("type:utf8 directed-utf8 {} nest:{} {} {} nt op:{}", tag, nest, if off > 0 { "off>0" } else { "" }, if first != 0 { "first-offset-nonzero" } else { "" }, op),
    )
}

/// index classes around block boundaries (64, and 8/16/32), plus the ends
fn pick_index(rng: &mut Rng, last: usize) -> usize {
    let mut c: Vec<usize> = vec![0, 1, last.saturating_sub(1), last];
    for b in [64usize, 128, 192, 256] {
        for d in [-2i64, -1, 0, 1, 2] {
            c.push((b as i64 + d) as usize);
        }
    }
    for b in [8usize, 16, 32, 96, 160, 224] {
        for d in [-1i64, 0, 1] {
            c.push((b as i64 + d) as usize);
        }
    }
    let c: Vec<usize> = c.into_iter().filter(|x| *x <= last).collect();
    let blocks: Vec<usize> = [64usize, 128, 192, 256].into_iter().filter(|x| *x <= last).collect();
    if !blocks.is_empty() && rng.chance(1, 3) {
        return *rng.pick(&blocks);
    }
    if rng.chance(1, 10) { rng.usize(last + 1) } else { *rng.pick(&c) }
}
fn idx_tag(j: usize) -> String {
    let m = j % 64;
    format!("idx64:{}", if m == 0 { "0".to_string() } else if m == 63 { "63".into() } else if m == 1 { "1".into() } else { "other".into() })
}

/// Long buffers (up to ~300 entries) with a single defect placed at a chosen index class, through
/// both entry points (ArrayData::try_new / validate_full and the typed / buffer constructors).
fn gen_block_case(rng: &mut Rng) -> (String, String) {
    let l = *rng.pick(&[64usize, 65, 66, 70, 100, 127, 128, 129, 130, 191, 192, 193, 200, 256, 257, 300]);
    match rng.below(10) {
        0..=4 => {
            // offsets: strings / binary / list
            let large = rng.chance(1, 3);
            let w = if large { 8 } else { 4 };
            let which = rng.below(3);
            let mut vals: Vec<i64> = vec![1];
            for _ in 0..l {
                let last = *vals.last().unwrap();
                vals.push(last + rng.usize(3) as i64);
            }
            let limit = *vals.last().unwrap() as usize + rng.usize(2);
            let j = pick_index(rng, l);
            let defect = match rng.below(8) {
                0 => "none",
                1 if j == 0 => "neg-first",
                2 => "last-beyond",
                _ => "decrease",
            };
            let mut jj = j;
            match defect {
                "neg-first" => vals[0] = -1,
                "last-beyond" => { vals[l] = limit as i64 + 1; jj = l; }
                "decrease" => {
                    if j == 0 { jj = 1; }
                    vals[jj] = vals[jj - 1] - 1;
                }
                _ => {}
            }
            let mut offs = vec![];
            for v in &vals { put_int(*v, w, &mut offs); }
            let entry = rng.below(4);
            let tags = format!("blk:offsets defect:{} {} len:{} nt", defect, idx_tag(jj), l);
            if entry == 3 {
                return (format!("C09 obuf {} {}", w, hex(&offs)), format!("op:obuf {}", tags));
            }
            let nulls = if rng.chance(1, 4) { Some(rng.bytes((l + 7) / 8)) } else { None };
            let p = if which == 2 {
                let child = Phys { ty: Ty::Prim(1), len: limit, offset: 0, nulls: None, nc: None, bufs: vec![rng.bytes(limit)], kids: vec![] };
                Phys { ty: Ty::List(large, Box::new(Ty::Prim(1)), true), len: l, offset: 0, nulls, nc: None, bufs: vec![offs], kids: vec![child] }
            } else {
                let data: Vec<u8> = (0..limit).map(|_| b'a' + rng.usize(26) as u8).collect();
                Phys { ty: if which == 0 { Ty::Utf8(large) } else { Ty::Binary(large) }, len: l, offset: 0, nulls, nc: None, bufs: vec![offs, data], kids: vec![] }
            };
            let kind = if which == 2 { "list" } else { "bytes" };
            match entry {
                0 => (format!("C09 trynew {}", show_phys(&p)), format!("op:trynew type:{} {}", ty_tag(&p.ty), tags)),
                1 => (format!("C09 full {}", show_phys(&p)), format!("op:full type:{} {}", ty_tag(&p.ty), tags)),
                _ => (format!("C09 typed {} {}", kind, show_phys(&p)), format!("op:typed kind:{} {}", kind, tags)),
            }
        }
        5 | 6 => {
            // run ends
            let rw = *rng.pick(&[2usize, 4, 8]);
            let mut ends: Vec<i64> = vec![];
            let mut e = 0i64;
            for _ in 0..l { e += 1 + rng.usize(3) as i64; ends.push(e); }
            let j = 1 + pick_index(rng, l - 2);
            let defect = if rng.chance(1, 6) { "none" } else { "not-increasing" };
            if defect != "none" { ends[j] = ends[j - 1] - rng.usize(2) as i64; }
            let mut b = vec![];
            for v in &ends { put_int(*v, rw, &mut b); }
            let total = if defect == "none" { *ends.last().unwrap() as usize } else { (*ends.last().unwrap()).max(0) as usize };
            let tags = format!("blk:runends defect:{} {} len:{} nt", defect, idx_tag(j), l);
            let entry = rng.below(3);
            if entry == 2 {
                let (o, n) = (rng.usize(3), total.saturating_sub(3));
                return (format!("C09 rebuf {} {} {} {}", rw, hex(&b), o, n), format!("op:rebuf {}", tags));
            }
            let re = Phys { ty: Ty::Prim(rw), len: l, offset: 0, nulls: None, nc: None, bufs: vec![b], kids: vec![] };
            let vals = Phys { ty: Ty::Prim(1), len: l, offset: 0, nulls: None, nc: None, bufs: vec![rng.bytes(l)], kids: vec![] };
            let p = Phys { ty: Ty::Ree(rw, Box::new(Ty::Prim(1))), len: total, offset: 0, nulls: None, nc: None, bufs: vec![], kids: vec![re, vals] };
            if entry == 0 {
                (format!("C09 trynew {}", show_phys(&p)), format!("op:trynew type:ree {}", tags))
            } else {
                (format!("C09 typed run {}", show_phys(&p)), format!("op:typed kind:run {}", tags))
            }
        }
        7 | 8 => {
            // dictionary keys
            let kw = *rng.pick(&[1usize, 2, 4, 8]);
            let signed = rng.bool();
            let m = 1 + rng.usize(5);
            let mut keys = vec![];
            for _ in 0..l { put_int(rng.usize(m) as i64, kw, &mut keys); }
            let j = pick_index(rng, l - 1);
            let defect = if rng.chance(1, 6) { "none" } else { "key-out-of-range" };
            if defect != "none" { set_int(&mut keys, j, kw, if signed && rng.bool() { -1 } else { m as i64 }); }
            let vals = Phys { ty: Ty::Prim(1), len: m, offset: 0, nulls: None, nc: None, bufs: vec![rng.bytes(m)], kids: vec![] };
            let p = Phys { ty: Ty::Dict(kw, signed, Box::new(Ty::Prim(1))), len: l, offset: 0, nulls: None, nc: None, bufs: vec![keys], kids: vec![vals] };
            let tags = format!("blk:keys defect:{} {} len:{} nt", defect, idx_tag(j), l);
            if rng.bool() {
                (format!("C09 trynew {}", show_phys(&p)), format!("op:trynew type:dict {}", tags))
            } else {
                (format!("C09 typed dict {}", show_phys(&p)), format!("op:typed kind:dict {}", tags))
            }
        }
        _ => {
            // union type ids / dense offsets
            let dense = rng.bool();
            let fs = vec![(0i8, Ty::Prim(1)), (5i8, Ty::Prim(2))];
            let lens = if dense { vec![3usize, 2] } else { vec![l, l] };
            let mut ids = vec![];
            let mut offs = vec![];
            for _ in 0..l {
                let k = rng.usize(2);
                ids.push(fs[k].0 as u8);
                if dense { put_int(rng.usize(lens[k]) as i64, 4, &mut offs); }
            }
            let j = pick_index(rng, l - 1);
            let (defect, kf) = match rng.below(6) {
                0 => ("none", ""),
                1 | 2 if dense => {
                    let k = if ids[j] == 0 { 0 } else { 1 };
                    set_int(&mut offs, j, 4, if rng.bool() { -1 } else { lens[k] as i64 });
                    ("union-offset", " kf:union-offset-unvalidated")
                }
                _ => { ids[j] = 3; ("union-typeid", " kf:union-typeid-unvalidated") }
            };
            let kids: Vec<Phys> = fs.iter().zip(&lens).map(|((_, t), n)| {
                let w = if let Ty::Prim(w) = t { *w } else { 1 };
                Phys { ty: t.clone(), len: *n, offset: 0, nulls: None, nc: None, bufs: vec![rng.bytes(n * w)], kids: vec![] }
            }).collect();
            let mut bufs = vec![ids];
            if dense { bufs.push(offs); }
            let p = Phys { ty: Ty::Union(dense, fs), len: l, offset: 0, nulls: None, nc: None, bufs, kids };
            let typed_entry = rng.bool();
            let tags = format!("blk:union defect:{} {} len:{} nt{}", defect, idx_tag(j), l, if typed_entry { "" } else { kf });
            if typed_entry {
                (format!("C09 typed union {}", show_phys(&p)), format!("op:typed kind:union {}", tags))
            } else {
                (format!("C09 trynew {}", show_phys(&p)), format!("op:trynew type:union {}", tags))
            }
        }
    }
}

/// view arrays with long values in 1..3 data buffers and lengths on the inline boundary (11/12/13)
fn gen_view_case(rng: &mut Rng) -> (String, String) {
    let u = rng.bool();
    let n = 1 + rng.usize(6);
    let off = if rng.chance(1, 3) { 1 + rng.usize(2) } else { 0 };
    let total = n + off;
    let nbuf = 1 + rng.usize(3);
    let mut datas: Vec<Vec<u8>> = (0..nbuf).map(|_| vec![b'#'; rng.usize(2)]).collect();
    let mut views: Vec<u8> = vec![];
    for _ in 0..total {
        let target = *rng.pick(&[0usize, 4, 11, 12, 13, 13, 16, 30]);
        let mut val: Vec<u8> = vec![];
        while val.len() < target {
            if u { val.extend_from_slice(rng.pick(&CHARS).as_bytes()); } else { val.push(rng.next_u64() as u8); }
        }
        let mut v = [0u8; 16];
        v[..4].copy_from_slice(&(val.len() as u32).to_le_bytes());
        if val.len() <= 12 {
            v[4..4 + val.len()].copy_from_slice(&val);
        } else {
            let bi = rng.usize(nbuf);
            let at = datas[bi].len();
            datas[bi].extend_from_slice(&val);
            v[4..8].copy_from_slice(&val[..4]);
            v[8..12].copy_from_slice(&(bi as u32).to_le_bytes());
            v[12..16].copy_from_slice(&(at as u32).to_le_bytes());
        }
        views.extend_from_slice(&v);
    }
    let mut bufs = vec![views];
    bufs.extend(datas);
    let nulls = if rng.chance(1, 3) { Some(rng.bytes((total + 7) / 8)) } else { None };
    let mut p = Phys { ty: Ty::View(u), len: n, offset: off, nulls, nc: None, bufs, kids: vec![] };
    let mut tag = "mut:none valid".to_string();
    if rng.chance(4, 5) {
        for _ in 0..10 {
            let mut q = p.clone();
            if let Some(t) = mutate(rng, &mut q) {
                if t.starts_with("mut:view") { p = q; tag = t; break; }
            }
        }
    }
    let typed_ok = p.offset == 0;
    let op = match rng.below(3) { 0 if typed_ok => "typed view", 1 => "full", _ => "trynew" };
    if op == "typed view" { p.len = p.bufs[0].len() / 16; }
    (format!("C09 {} {}", op, show_phys(&p)), format!("type:view directed-view {} {} nt op:{}", tag, if off > 0 { "off>0" } else { "" }, op.split(' ').next().unwrap()))
}

/// Dictionary keys on the representation boundaries of the key type: dictionaries with 2^(w-1)±1
/// and 2^w±1 values (longer than a narrow key type can address), probe keys -1 / MIN / 0 / largest
/// valid / len-1 / len / MAX at a valid slot or hidden under a null slot, all 8 key types, through
/// ArrayData::try_new / validate_full AND DictionaryArray::try_new (`big`: also the 16-bit boundaries)
fn gen_dict_boundary_case(rng: &mut Rng, big: bool) -> (String, String) {
    let kw = *rng.pick(&[1usize, 1, 1, 2, 2, 4, 8]);
    let signed = rng.chance(2, 3);
    let mut lens: Vec<usize> = vec![1, 2, 126, 127, 128, 129, 130, 255, 256, 257];
    if big && kw >= 2 {
        lens.extend_from_slice(&[32767, 32768, 32769, 65535, 65536, 65537]);
    }
    let m = if kw == 1 && rng.chance(2, 3) { *rng.pick(&[128usize, 129, 130, 255, 256, 257]) } else { *rng.pick(&lens) };
    let bits = 8 * kw as u32;
    let (tmin, tmax): (i128, i128) = if signed { (-(1i128 << (bits - 1)), (1i128 << (bits - 1)) - 1) } else { (0, (1i128 << bits) - 1) };
    let max_valid = (m as i128 - 1).min(tmax);
    let n = 1 + rng.usize(6);
    let off = if rng.chance(1, 4) { 1 + rng.usize(2) } else { 0 };
    let total = n + off;
    let mut keys = vec![];
    for _ in 0..total {
        let k = if rng.bool() { max_valid } else { rng.usize((max_valid + 1).min(1 << 20) as usize) as i128 };
        put_int(k as i64, kw, &mut keys);
    }
    let (probe, pname): (i128, &str) = match rng.below(10) {
        0 | 8 => (-1, "minus1"),
        1 | 9 => (tmin, "min"),
        2 => (0, "zero"),
        3 => (max_valid, "max-valid"),
        4 => (m as i128 - 1, "len-1"),
        5 => (m as i128, "len"),
        6 => (tmax, "max"),
        _ => (m as i128 + 1, "len+1"),
    };
    // the probe must be representable in the key type (two's complement truncation otherwise changes it)
    let probe = if probe < tmin || probe > tmax { tmax } else { probe };
    let j = off + rng.usize(n);
    set_int(&mut keys, j, kw, probe as i64);
    let hidden = rng.chance(1, 4);
    let nulls = if hidden || rng.chance(1, 4) {
        let mut b = vec![0xffu8; (total + 7) / 8];
        if hidden { b[j / 8] &= !(1 << (j % 8)); }
        Some(b)
    } else {
        None
    };
    let in_range = probe >= 0 && probe < m as i128;
    let vals = Phys { ty: Ty::Prim(1), len: m, offset: 0, nulls: None, nc: None, bufs: vec![vec![0x5a; m]], kids: vec![] };
    let mut p = Phys { ty: Ty::Dict(kw, signed, Box::new(Ty::Prim(1))), len: n, offset: off, nulls, nc: None, bufs: vec![keys], kids: vec![vals] };
    let rel = if m as i128 - 1 > tmax { "dict-exceeds-key-range" } else if m as i128 - 1 == tmax { "dict-fills-key-range" } else { "dict-within-key-range" };
    let tags = format!(
        "dictb key:{}{} dictlen:{} probe:{} {} {} {} nt",
        if signed { "i" } else { "u" }, bits, m, pname, rel,
        if hidden { "probe-hidden valid" } else if in_range { "probe-valid valid" } else { "probe-out-of-range" },
        if off > 0 { "off>0" } else { "" }
    );
    match rng.below(3) {
        0 if off == 0 => {
            p.len = p.bufs[0].len() / kw;
            (format!("C09 typed dict {}", show_phys(&p)), format!("op:typed kind:dict {}", tags))
        }
        1 => (format!("C09 full {}", show_phys(&p)), format!("op:full type:dict {}", tags)),
        _ => (format!("C09 trynew {}", show_phys(&p)), format!("op:trynew type:dict {}", tags)),
    }
}

/// list-view offsets + sizes, one defect at a chosen index class
fn gen_lview_case(rng: &mut Rng) -> (String, String) {
    let w = if rng.chance(1, 3) { 8 } else { 4 };
    let l = *rng.pick(&[0usize, 1, 2, 7, 8, 9, 63, 64, 65, 100, 128, 129, 200]);
    let off = if rng.chance(1, 3) { 1 + rng.usize(3) } else { 0 };
    let total = l + off;
    let cl = 1 + rng.usize(9);
    let mut offs = vec![];
    let mut sizes = vec![];
    for _ in 0..total {
        let o = rng.usize(cl + 1);
        let sz = rng.usize(cl - o + 1);
        put_int(o as i64, w, &mut offs);
        put_int(sz as i64, w, &mut sizes);
    }
    let mut defect = "none";
    if total > 0 && rng.chance(3, 4) {
        let j = pick_index(rng, total - 1);
        let visible = j >= off;
        match rng.below(5) {
            0 => { set_int(&mut offs, j, w, -1); defect = if visible { "neg-offset" } else { "neg-offset-hidden" }; }
            1 => { set_int(&mut sizes, j, w, -1); defect = if visible { "neg-size" } else { "neg-size-hidden" }; }
            2 => { set_int(&mut offs, j, w, cl as i64); set_int(&mut sizes, j, w, 1); defect = if visible { "beyond" } else { "beyond-hidden" }; }
            3 => { set_int(&mut offs, j, w, cl as i64); set_int(&mut sizes, j, w, 0); defect = "offset-at-end-size0"; }
            _ => { sizes.truncate(sizes.len() - w); defect = "sizes-short"; }
        }
    }
    (
        format!("C09 lview {} {} {} {} {} {}", w, l, off, hex(&offs), hex(&sizes), cl),
        format!("op:lview type:list-view defect:{} len:{} {} nt", defect, l, if off > 0 { "off>0" } else { "" }),
    )
}

/// C data interface round trip of a valid (possibly sliced, nested) array
fn gen_ffi_case(rng: &mut Rng) -> (String, String) {
    loop {
        let ty = gen_ty(rng, 1);
        // unions / run-end arrays with child offsets hit known accessor limitations: keep them out of the round trip
        if show_ty(&ty).contains(['D', 'S', 'r']) { continue; }
        let (pl, po) = (pick_len(rng).min(70), pick_off(rng));
        let p = gen_valid(rng, &ty, pl, po, false, 0);
        // an (effectively) empty Utf8/Binary node whose first visible offset is not 0; a struct /
        // fixed-size-list parent of length 0 slices its children down to length 0 on import/export
        fn empty_bin_nonzero_first(p: &Phys, inherited: bool) -> bool {
            let here = match &p.ty {
                Ty::Utf8(l) | Ty::Binary(l) => {
                    let w = if *l { 8 } else { 4 };
                    inherited || (p.len == 0 && p.bufs[0].len() >= (p.offset + 1) * w && get_int(&p.bufs[0], p.offset, w) != 0)
                }
                _ => false,
            };
            let pass = ((inherited || p.len == 0) && matches!(p.ty, Ty::Struct(_) | Ty::Fsl(..))) || matches!(p.ty, Ty::Fsl(0, _, _));
            here || p.kids.iter().any(|k| empty_bin_nonzero_first(k, pass))
        }
        let kf = if empty_bin_nonzero_first(&p, false) { " kf:ffi-empty-binary-first-offset" } else { "" };
        return (format!("C09 ffi {}", show_phys(&p)), format!("op:ffi type:{} {} nt{}", ty_tag(&ty), if p.offset > 0 { "off>0" } else { "" }, kf));
    }
}

fn gen_fromlens_case(rng: &mut Rng) -> (String, String) {
    let n = rng.usize(80);
    let big = rng.chance(1, 6);
    let lens: Vec<usize> = (0..n).map(|_| if big && rng.chance(1, 8) { 1usize << 30 } else { rng.usize(9) }).collect();
    let w = if rng.bool() { 4 } else { 8 };
    (format!("C09 fromlens {} {}", w, show_list(&lens)), format!("op:fromlens {}", if n > 1 { "nt" } else { "" }))
}

fn gen_case(rng: &mut Rng) -> (String, String) {
    match rng.below(20) {
        0 => if rng.bool() { gen_align_case(rng) } else { gen_nonnull_offset_case(rng) },
        1 | 2 => gen_batch_case(rng),
        3..=6 => gen_typed_case(rng),
        7..=9 => gen_utf8_case(rng),
        10..=12 => match rng.below(12) { 0 => gen_fromlens_case(rng), 1 | 2 => gen_lview_case(rng), 3 | 4 => gen_ffi_case(rng), 5 | 6 => gen_dict_boundary_case(rng, false), _ => gen_block_case(rng) },
        _ => gen_layout_case(rng),
    }
}

/// the reproduced witnesses of Theorems.lean, replayed on the real code on every run
const WITNESSES: [&str; 5] = [
    "C09 trynew A(D<0:p4,1:p4>;3;0;-;000501|000000006400000007000000;A(p4;2;0;-;0000000000000000;)A(p4;2;0;-;0000000000000000;))",
    "C09 trynew A(s<?p4>;3;2;-;-;A(p4;3;0;-;000000000000000000000000;))",
    "C09 trynew A(f2?<p4>;2;1;-;-;A(p4;4;0;-;00000000000000000000000000000000;))",
    "C09 trynew A(r4<p4>;100;0;-;-;A(p4;2;0;-;0100000002000000;)A(p4;2;0;-;0000000000000000;))",
    "C09 trynew A(s<!p4>;2;1;fd;-;A(p4;3;0;03;000000000000000000000000;))",
];
const WITNESS_TAGS: [&str; 5] = [
    "witness kf:union-typeid-unvalidated kf:union-offset-unvalidated nt",
    "witness kf:struct-child-len-offset nt",
    "witness kf:fsl-child-len-offset nt",
    "witness kf:ree-len-beyond-run-ends nt",
    "witness kf:nonnull-child-parent-offset nt",
];

fn main() {
    if std::env::args().nth(1).as_deref() == Some("exercise-server") {
        exercise_server();
        return;
    }
    let args = parse_args();
    if std::env::var("VERIF_LOUD").is_err() {
        quiet_panics();
    }
    let mut sink = Sink::new(&args.out);
    let mut emit = |sink: &mut Sink, line: String, tags: &str| {
        ORACLE.with(|o| o.borrow_mut().clear());
        USE.with(|o| o.borrow_mut().clear());
        let a = run_case(&line);
        let mut fails: Vec<String> = ORACLE.with(|o| o.borrow_mut().drain(..).collect());
        fails.extend(CRASH.with(|o| o.borrow_mut().drain(..).collect::<Vec<String>>()));
        let used: Vec<String> = USE.with(|o| o.borrow_mut().drain(..).collect());
        let mut tags = tags.to_string();
        for u in used {
            tags.push(' ');
            tags.push_str(&u);
        }
        for f in fails {
            sink.oracle_failure(line.clone(), f, &tags);
        }
        sink.case(line, a, &tags);
    };
    if args.mode == "replay" {
        for line in read_cases(args.replay.as_ref().unwrap()) {
            emit(&mut sink, line, "replay");
        }
    } else {
        for (l, t) in WITNESSES.iter().zip(WITNESS_TAGS.iter()) {
            emit(&mut sink, l.to_string(), t);
        }
        // a fixed block of boundary cases, identical in every run (seed independent)
        let mut frng = Rng::new(0xC09_F1ED);
        let nfixed = n_cases(&args, 6000, 150000).min(6000) / 10;
        for i in 0..nfixed {
            let (line, tags) = match i % 7 {
                6 => gen_dict_boundary_case(&mut frng, args.tier == "thorough"),
                0 | 1 => gen_block_case(&mut frng),
                2 => gen_utf8_case(&mut frng),
                3 => gen_nonnull_offset_case(&mut frng),
                4 => gen_lview_case(&mut frng),
                _ => gen_view_case(&mut frng),
            };
            emit(&mut sink, line, &format!("{} fixed", tags));
        }
        let mut rng = Rng::new(args.seed ^ 0xC09);
        let n = n_cases(&args, 6000, 150000);
        for _ in 0..n {
            let (line, tags) = gen_case(&mut rng);
            emit(&mut sink, line, &tags);
        }
    }
    sink.finish();
}
