//! C17 correspondence harness, text formats: arrow-csv and arrow-json writer → bytes → reader.
//!
//!   C17 csv <delim> <records>        records `rec|rec`, rec = comma separated hex fields (`-` empty);
//!                                    answer = hex of the written file (no header, null sentinel never used)
//!   C17 csvsplit <delim> <k> <hex>   raw input → the records arrow-csv splits it into (k Utf8 columns)
//!   C17 jsonstr <hex>                one string → hex of the JSON string token the writer emits
//!   C17 jsonunesc <hex>              one JSON string token → hex of the string the reader decodes
//!   C17 jsonbin <hex>                one Binary value → hex of the JSON token (hex string); read back as every binary layout
//!   C17 jsonunbin <hex>              the characters of a hex string → hex of the decoded bytes
//!   C17 jsonrt <opts> <schema> <n> <cols>   whole batch through writer and reader (oracle only)
//!   C17 csvrt  <opts> <schema> <n> <cols>   whole batch through writer and reader (oracle only)
//!
//! Oracles (impl-vs-oracle): read-back equals input; `csv` crate reader and `serde_json` agree.
use arrow_array::builder::*;
use arrow_array::cast::AsArray;
use arrow_array::types::*;
use arrow_array::*;
use arrow_buffer::{NullBuffer, OffsetBuffer};
use arrow_json::StructMode;
use arrow_schema::{DataType, Field, Fields, Schema, TimeUnit};
use std::io::Cursor;
use std::sync::Arc;
use vcommon::*;

/// The CSV null sentinel.  The property's domain is "null sentinel distinct from every value": the
/// sentinel contains U+0002, which is not among the generator's PIECES, and `gen_text` additionally
/// re-draws any text equal to it, so no generated field can collide with it.
const NULL_SENTINEL: &str = "\u{2}NULL\u{2}";

fn never_null() -> regex::Regex {
    regex::Regex::new("^\u{2}NULL\u{2}$").unwrap()
}
fn parse_records(s: &str) -> Vec<Vec<Vec<u8>>> {
    s.split('|').map(|r| r.split(',').map(unhex).collect()).collect()
}
fn show_records(recs: &[Vec<Vec<u8>>]) -> String {
    if recs.is_empty() {
        return "-".into();
    }
    recs.iter().map(|r| r.iter().map(|f| hex(f)).collect::<Vec<_>>().join(",")).collect::<Vec<_>>().join("|")
}
fn utf8_schema(k: usize) -> Arc<Schema> {
    Arc::new(Schema::new((0..k).map(|i| Field::new(format!("c{i}"), DataType::Utf8, true)).collect::<Vec<_>>()))
}
fn csv_write(delim: u8, recs: &[Vec<Vec<u8>>]) -> Result<Vec<u8>, String> {
    let mut out = Vec::new();
    // all records of one width → one batch; otherwise one writer per record (records are independent)
    let groups: Vec<&[Vec<Vec<u8>>]> = if recs.iter().all(|r| r.len() == recs[0].len()) { vec![recs] } else { recs.chunks(1).collect() };
    for g in groups {
        let k = g[0].len();
        let cols: Vec<ArrayRef> = (0..k).map(|c| Arc::new(StringArray::from_iter_values(g.iter().map(|r| String::from_utf8(r[c].clone()).unwrap()))) as ArrayRef).collect();
        let batch = RecordBatch::try_new(utf8_schema(k), cols).map_err(|e| format!("{e:?}"))?;
        let mut w = arrow_csv::WriterBuilder::new().with_header(false).with_delimiter(delim).with_null(NULL_SENTINEL.to_string()).build(&mut out);
        w.write(&batch).map_err(|e| format!("{e:?}"))?;
    }
    Ok(out)
}
fn csv_read(delim: u8, k: usize, bytes: &[u8]) -> Result<Vec<Vec<Vec<u8>>>, String> {
    let r = arrow_csv::ReaderBuilder::new(utf8_schema(k)).with_header(false).with_delimiter(delim).with_null_regex(never_null()).with_batch_size(5).build(Cursor::new(bytes.to_vec())).map_err(|e| format!("{e:?}"))?;
    let mut out = vec![];
    for b in r {
        let b = b.map_err(|e| format!("{e:?}"))?;
        for i in 0..b.num_rows() {
            out.push((0..k).map(|c| b.column(c).as_string::<i32>().value(i).as_bytes().to_vec()).collect());
        }
    }
    Ok(out)
}
fn csv_crate_read(delim: u8, bytes: &[u8]) -> Result<Vec<Vec<Vec<u8>>>, String> {
    let mut r = csv::ReaderBuilder::new().has_headers(false).delimiter(delim).flexible(true).from_reader(bytes);
    let mut out = vec![];
    for rec in r.byte_records() {
        let rec = rec.map_err(|e| format!("{e:?}"))?;
        out.push(rec.iter().map(|f| f.to_vec()).collect());
    }
    Ok(out)
}

// ------------------------------------------------------------------ JSON single strings
fn json_schema_a() -> Arc<Schema> {
    Arc::new(Schema::new(vec![Field::new("a", DataType::Utf8, true)]))
}
fn json_write_str(s: &str) -> Vec<u8> {
    let batch = RecordBatch::try_new(json_schema_a(), vec![Arc::new(StringArray::from(vec![s])) as ArrayRef]).unwrap();
    let mut out = Vec::new();
    let mut w = arrow_json::LineDelimitedWriter::new(&mut out);
    w.write(&batch).unwrap();
    w.finish().unwrap();
    drop(w);
    out
}
fn json_read_a(doc: &[u8]) -> Result<Vec<Option<Vec<u8>>>, String> {
    let r = arrow_json::ReaderBuilder::new(json_schema_a()).build(Cursor::new(doc.to_vec())).map_err(|e| format!("{e:?}"))?;
    let mut out = vec![];
    for b in r {
        let b = b.map_err(|e| format!("{e:?}"))?;
        let c = b.column(0).as_string::<i32>();
        for i in 0..b.num_rows() {
            out.push(if c.is_null(i) { None } else { Some(c.value(i).as_bytes().to_vec()) });
        }
    }
    Ok(out)
}

// ------------------------------------------------------------------ whole-batch round trips
/// column spec `<type>:<v,v,…>`; `N` = null, strings hex (`~` = empty), floats as hex bit patterns
fn parse_col(name: &str, spec: &str, nullable: bool) -> (Field, ArrayRef) {
    let (ty, vals) = spec.split_once(':').unwrap();
    let vs: Vec<&str> = if vals.is_empty() { vec![] } else { vals.split(',').collect() };
    let arr = build_col(ty, &vs);
    (Field::new(name, arr.data_type().clone(), nullable), arr)
}
fn opt<T>(v: &str, f: impl Fn(&str) -> T) -> Option<T> {
    if v == "N" { None } else { Some(f(v)) }
}
fn hexstr(v: &str) -> String {
    if v == "~" { String::new() } else { String::from_utf8(unhex(v)).unwrap() }
}
fn build_col(ty: &str, vs: &[&str]) -> ArrayRef {
    macro_rules! prim {
        ($t:ty, $n:ty) => {
            Arc::new(vs.iter().map(|v| opt(v, |x| x.parse::<$n>().unwrap())).collect::<PrimitiveArray<$t>>()) as ArrayRef
        };
    }
    if let Some(inner) = ty.strip_prefix("list(").and_then(|x| x.strip_suffix(')')) {
        // value `L` + items joined by `.`
        let mut lens = vec![];
        let mut valid = vec![];
        let mut flat: Vec<String> = vec![];
        for v in vs {
            if *v == "N" {
                lens.push(0);
                valid.push(false);
            } else {
                let body = &v[1..];
                let items: Vec<&str> = if body.is_empty() { vec![] } else { body.split('.').collect() };
                lens.push(items.len());
                valid.push(true);
                flat.extend(items.iter().map(|x| x.to_string()));
            }
        }
        let child = build_col(inner, &flat.iter().map(|x| x.as_str()).collect::<Vec<_>>());
        let nulls = if valid.iter().all(|x| *x) { None } else { Some(NullBuffer::from(valid)) };
        return Arc::new(ListArray::new(Arc::new(Field::new("item", child.data_type().clone(), true)), OffsetBuffer::from_lengths(lens), child, nulls));
    }
    if let Some(inner) = ty.strip_prefix("map(").and_then(|x| x.strip_suffix(')')) {
        // value `M` + key.value.key.value…  (keys hex)
        let mut lens = vec![];
        let mut valid = vec![];
        let mut keys: Vec<String> = vec![];
        let mut flat: Vec<String> = vec![];
        for v in vs {
            if *v == "N" {
                lens.push(0);
                valid.push(false);
            } else {
                let body = &v[1..];
                let items: Vec<&str> = if body.is_empty() { vec![] } else { body.split('.').collect() };
                lens.push(items.len() / 2);
                valid.push(true);
                for kv in items.chunks(2) {
                    keys.push(hexstr(kv[0]));
                    flat.push(kv[1].to_string());
                }
            }
        }
        let child = build_col(inner, &flat.iter().map(|x| x.as_str()).collect::<Vec<_>>());
        let fields = Fields::from(vec![Field::new("keys", DataType::Utf8, false), Field::new("values", child.data_type().clone(), true)]);
        let entries = StructArray::new(fields.clone(), vec![Arc::new(StringArray::from(keys)) as ArrayRef, child], None);
        let nulls = if valid.iter().all(|x| *x) { None } else { Some(NullBuffer::from(valid)) };
        return Arc::new(MapArray::new(Arc::new(Field::new("entries", DataType::Struct(fields), false)), OffsetBuffer::from_lengths(lens), entries, nulls, false));
    }
    if let Some(inner) = ty.strip_prefix("st(").and_then(|x| x.strip_suffix(')')) {
        // value `S` + one item per child joined by `+`
        let tys: Vec<&str> = inner.split('/').collect();
        let mut per: Vec<Vec<String>> = vec![vec![]; tys.len()];
        let mut valid = vec![];
        for v in vs {
            if *v == "N" {
                valid.push(false);
                for p in per.iter_mut() {
                    p.push("N".into());
                }
            } else {
                valid.push(true);
                for (j, x) in v[1..].split('+').enumerate() {
                    per[j].push(x.to_string());
                }
            }
        }
        let children: Vec<ArrayRef> = tys.iter().zip(per.iter()).map(|(t, p)| build_col(t, &p.iter().map(|x| x.as_str()).collect::<Vec<_>>())).collect();
        let fields = Fields::from(children.iter().enumerate().map(|(j, c)| Field::new(format!("k{j}"), c.data_type().clone(), true)).collect::<Vec<_>>());
        let nulls = if valid.iter().all(|x| *x) { None } else { Some(NullBuffer::from(valid)) };
        return Arc::new(StructArray::new(fields, children, nulls));
    }
    for (pre, large, view, fixed) in [("llist(", true, false, 0usize), ("lview(", false, true, 0), ("fsl2(", false, false, 2)] {
        if let Some(inner) = ty.strip_prefix(pre).and_then(|x| x.strip_suffix(')')) {
            // same value grammar as list(): `L` + items joined by `.`
            let base = build_col(&format!("list({inner})"), vs);
            let l = base.as_list::<i32>();
            let f = Arc::new(Field::new("item", l.values().data_type().clone(), true));
            let lens: Vec<usize> = (0..l.len()).map(|i| l.value_length(i) as usize).collect();
            return if large {
                Arc::new(LargeListArray::new(f, OffsetBuffer::<i64>::from_lengths(lens), l.values().clone(), l.nulls().cloned()))
            } else if view {
                let offs: Vec<i32> = l.offsets()[..l.len()].to_vec();
                Arc::new(ListViewArray::new(f, offs.into(), lens.iter().map(|x| *x as i32).collect::<Vec<_>>().into(), l.values().clone(), l.nulls().cloned()))
            } else {
                // a null FixedSizeList slot still owns `fixed` child slots
                let mut child_vals: Vec<String> = vec![];
                for v in vs {
                    if *v == "N" {
                        child_vals.extend(std::iter::repeat_n("N".to_string(), fixed));
                    } else {
                        let items: Vec<&str> = v[1..].split('.').collect();
                        assert_eq!(items.len(), fixed);
                        child_vals.extend(items.iter().map(|x| x.to_string()));
                    }
                }
                let child = build_col(inner, &child_vals.iter().map(|x| x.as_str()).collect::<Vec<_>>());
                Arc::new(FixedSizeListArray::new(Arc::new(Field::new("item", child.data_type().clone(), true)), fixed as i32, child, l.nulls().cloned()))
            };
        }
    }
    if let Some(rest) = ty.strip_prefix("dict") {
        // dict<key>: Dictionary(key, Utf8) built value by value (duplicates share an entry)
        macro_rules! dict {
            ($k:ty) => {
{
                    let owned: Vec<Option<String>> = vs.iter().map(|v| opt(v, hexstr)).collect();
                    Arc::new(owned.iter().map(|o| o.as_deref()).collect::<DictionaryArray<$k>>()) as ArrayRef
                }
            };
        }
        return match rest {
            "i8" => dict!(Int8Type),
            "i16" => dict!(Int16Type),
            "i32" => dict!(Int32Type),
            "i64" => dict!(Int64Type),
            "u8" => dict!(UInt8Type),
            "u16" => dict!(UInt16Type),
            "u32" => dict!(UInt32Type),
            _ => dict!(UInt64Type),
        };
    }
    for (pre, w) in [("dec32(", 32), ("dec64(", 64), ("dec256(", 256)] {
        if let Some(ps) = ty.strip_prefix(pre).and_then(|x| x.strip_suffix(')')) {
            let (p, sc) = ps.split_once('.').unwrap();
            let (p, sc): (u8, i8) = (p.parse().unwrap(), sc.parse().unwrap());
            return match w {
                32 => Arc::new(vs.iter().map(|v| opt(v, |x| x.parse::<i32>().unwrap())).collect::<Decimal32Array>().with_precision_and_scale(p, sc).unwrap()),
                64 => Arc::new(vs.iter().map(|v| opt(v, |x| x.parse::<i64>().unwrap())).collect::<Decimal64Array>().with_precision_and_scale(p, sc).unwrap()),
                _ => Arc::new(vs.iter().map(|v| opt(v, |x| arrow_buffer::i256::from_string(x).unwrap())).collect::<Decimal256Array>().with_precision_and_scale(p, sc).unwrap()),
            };
        }
    }
    if let Some(ps) = ty.strip_prefix("dec(").and_then(|x| x.strip_suffix(')')) {
        let (p, s) = ps.split_once('.').unwrap();
        let a: Decimal128Array = vs.iter().map(|v| opt(v, |x| x.parse::<i128>().unwrap())).collect();
        return Arc::new(a.with_precision_and_scale(p.parse().unwrap(), s.parse().unwrap()).unwrap());
    }
    match ty {
        "bool" => Arc::new(vs.iter().map(|v| opt(v, |x| x == "1")).collect::<BooleanArray>()),
        "i8" => prim!(Int8Type, i8),
        "i16" => prim!(Int16Type, i16),
        "i32" => prim!(Int32Type, i32),
        "i64" => prim!(Int64Type, i64),
        "u8" => prim!(UInt8Type, u8),
        "u16" => prim!(UInt16Type, u16),
        "u32" => prim!(UInt32Type, u32),
        "u64" => prim!(UInt64Type, u64),
        "null" => Arc::new(NullArray::new(vs.len())),
        "f16" => Arc::new(vs.iter().map(|v| opt(v, |x| half::f16::from_bits(u16::from_str_radix(x, 16).unwrap()))).collect::<Float16Array>()),
        "durs" => prim!(DurationSecondType, i64),
        "durm" => prim!(DurationMillisecondType, i64),
        "duru" => prim!(DurationMicrosecondType, i64),
        "durn" => prim!(DurationNanosecondType, i64),
        "f32" => Arc::new(vs.iter().map(|v| opt(v, |x| f32::from_bits(u32::from_str_radix(x, 16).unwrap()))).collect::<Float32Array>()),
        "f64" => Arc::new(vs.iter().map(|v| opt(v, |x| f64::from_bits(u64::from_str_radix(x, 16).unwrap()))).collect::<Float64Array>()),
        "utf8" => Arc::new(vs.iter().map(|v| opt(v, hexstr)).collect::<StringArray>()),
        "lutf8" => Arc::new(vs.iter().map(|v| opt(v, hexstr)).collect::<LargeStringArray>()),
        "utf8v" => Arc::new(vs.iter().map(|v| opt(v, hexstr)).collect::<StringViewArray>()),
        "bin" => Arc::new(vs.iter().map(|v| opt(v, |x| if x == "~" { vec![] } else { unhex(x) })).collect::<BinaryArray>()),
        "lbin" => Arc::new(vs.iter().map(|v| opt(v, |x| if x == "~" { vec![] } else { unhex(x) })).collect::<LargeBinaryArray>()),
        "binv" => Arc::new(vs.iter().map(|v| opt(v, |x| if x == "~" { vec![] } else { unhex(x) })).collect::<BinaryViewArray>()),
        t if t.starts_with("fsb") => {
            let n: i32 = t[3..].parse().unwrap();
            let mut b = FixedSizeBinaryBuilder::with_capacity(vs.len(), n);
            for v in vs {
                if *v == "N" { b.append_null() } else { b.append_value(unhex(v)).unwrap() }
            }
            Arc::new(b.finish())
        }
        "d32" => prim!(Date32Type, i32),
        "d64" => prim!(Date64Type, i64),
        "t32s" => prim!(Time32SecondType, i32),
        "t32m" => prim!(Time32MillisecondType, i32),
        "t64u" => prim!(Time64MicrosecondType, i64),
        "t64n" => prim!(Time64NanosecondType, i64),
        "tss" => prim!(TimestampSecondType, i64),
        "tsm" => prim!(TimestampMillisecondType, i64),
        "tsu" => prim!(TimestampMicrosecondType, i64),
        "tsn" => prim!(TimestampNanosecondType, i64),
        "tzs" => Arc::new(vs.iter().map(|v| opt(v, |x| x.parse::<i64>().unwrap())).collect::<TimestampSecondArray>().with_timezone("+00:00")),
        "tzm" => Arc::new(vs.iter().map(|v| opt(v, |x| x.parse::<i64>().unwrap())).collect::<TimestampMillisecondArray>().with_timezone("+05:30")),
        "tzu" => Arc::new(vs.iter().map(|v| opt(v, |x| x.parse::<i64>().unwrap())).collect::<TimestampMicrosecondArray>().with_timezone("-08:00")),
        "tzn" => Arc::new(vs.iter().map(|v| opt(v, |x| x.parse::<i64>().unwrap())).collect::<TimestampNanosecondArray>().with_timezone("+00:00")),
        _ => panic!("type {ty}"),
    }
}
fn make_batch(schema: &str, cols: &str, n: usize) -> RecordBatch {
    let _ = schema;
    let mut fields = vec![];
    let mut arrays = vec![];
    for (i, spec) in cols.split(';').enumerate() {
        let (f, a) = parse_col(&format!("c{i}"), spec, true);
        assert_eq!(a.len(), n);
        fields.push(f);
        arrays.push(a);
    }
    RecordBatch::try_new(Arc::new(Schema::new(fields)), arrays).unwrap()
}
/// logical comparison: equal types (up to field metadata), equal validity and values
fn batches_equal(a: &RecordBatch, b: &[RecordBatch]) -> Result<(), String> {
    let total: usize = b.iter().map(|x| x.num_rows()).sum();
    if total != a.num_rows() {
        return Err(format!("row count {} vs {}", total, a.num_rows()));
    }
    if b.is_empty() {
        return Ok(());
    }
    let cat = arrow_select::concat::concat_batches(&b[0].schema(), b).map_err(|e| format!("{e:?}"))?;
    for (i, (x, y)) in a.columns().iter().zip(cat.columns()).enumerate() {
        if x.data_type() != y.data_type() {
            return Err(format!("column {i} type {:?} vs {:?}", x.data_type(), y.data_type()));
        }
        let logical = |a: &ArrayRef| -> Result<Vec<String>, String> {
            let f = arrow_cast::display::ArrayFormatter::try_new(a.as_ref(), &arrow_cast::display::FormatOptions::default().with_null("<NULL>")).map_err(|e| format!("{e:?}"))?;
            (0..a.len()).map(|r| f.value(r).try_to_string().map_err(|e| format!("{e:?}"))).collect()
        };
        // dictionaries and list views have no canonical physical form: compare the rendered rows
        let by_rows = matches!(x.data_type(), DataType::Dictionary(..) | DataType::ListView(_) | DataType::LargeListView(_));
        if by_rows {
            if logical(x)? != logical(y)? || x.logical_null_count() != y.logical_null_count() {
                return Err(format!("column {i} ({:?}) rows differ: wrote {:?} read {:?}", x.data_type(), logical(x)?, logical(y)?).chars().take(300).collect());
            }
        } else if x.to_data() != y.to_data() {
            // floats: compare bit patterns via the debug rendering of the bits
            return Err(format!("column {i} differs: wrote {:?} read {:?}", x, y).chars().take(300).collect());
        }
    }
    Ok(())
}

fn run_case(line: &str, sink: &mut Sink, tags: &str) -> String {
    let t: Vec<&str> = line.split(' ').collect();
    assert_eq!(t[0], "C17");
    let mut oracle: Vec<String> = vec![];
    let mut finding = String::new();
    let mut rejected = false;
    let ans = guarded(|| match t[1] {
        "csv" => {
            let d: u8 = t[2].parse().unwrap();
            let recs = parse_records(t[3]);
            let out = match csv_write(d, &recs) {
                Ok(o) => o,
                Err(_) => return "ERR:write".into(),
            };
            if recs.iter().all(|r| r.len() == recs[0].len()) {
                match csv_read(d, recs[0].len(), &out) {
                    Ok(back) if back == recs => {}
                    Ok(back) => oracle.push(format!("csv round trip: read {}", show_records(&back))),
                    Err(e) => oracle.push(format!("csv round trip: reader error {}", e.chars().take(120).collect::<String>())),
                }
            }
            match csv_crate_read(d, &out) {
                Ok(back) if back == recs => {}
                Ok(back) => oracle.push(format!("csv crate reads {}", show_records(&back))),
                Err(e) => oracle.push(format!("csv crate error {}", e.chars().take(120).collect::<String>())),
            }
            hex(&out)
        }
        "csvq" => {
            // like `csv`, with an explicit quote byte on both sides
            let d: u8 = t[2].parse().unwrap();
            let q: u8 = t[3].parse().unwrap();
            let recs = parse_records(t[4]);
            let k = recs[0].len();
            let cols: Vec<ArrayRef> = (0..k).map(|c| Arc::new(StringArray::from_iter_values(recs.iter().map(|r| String::from_utf8(r[c].clone()).unwrap()))) as ArrayRef).collect();
            let batch = RecordBatch::try_new(utf8_schema(k), cols).unwrap();
            let mut out = Vec::new();
            {
                let mut w = arrow_csv::WriterBuilder::new().with_header(false).with_delimiter(d).with_quote(q).with_null(NULL_SENTINEL.to_string()).build(&mut out);
                if w.write(&batch).is_err() {
                    return "ERR:write".into();
                }
            }
            let r = arrow_csv::ReaderBuilder::new(utf8_schema(k)).with_header(false).with_delimiter(d).with_quote(q).with_null_regex(never_null()).build(Cursor::new(out.clone()));
            let back: Result<Vec<Vec<Vec<u8>>>, String> = r.map_err(|e| format!("{e:?}")).and_then(|r| {
                let mut o = vec![];
                for b in r {
                    let b = b.map_err(|e| format!("{e:?}"))?;
                    for i in 0..b.num_rows() {
                        o.push((0..k).map(|c| b.column(c).as_string::<i32>().value(i).as_bytes().to_vec()).collect());
                    }
                }
                Ok(o)
            });
            match back {
                Ok(b) if b == recs => {}
                other => oracle.push(format!("csvq round trip: {}", format!("{other:?}").chars().take(160).collect::<String>())),
            }
            hex(&out)
        }
        "csvsplit" => {
            let d: u8 = t[2].parse().unwrap();
            let k: usize = t[3].parse().unwrap();
            let bytes = unhex(t[4]);
            match csv_read(d, k, &bytes) {
                Ok(recs) => show_records(&recs),
                Err(e) => {
                    if e.contains("incorrect number of fields") { "ERR:fields".into() } else { format!("ERR:{}", e.chars().take_while(|c| c.is_ascii_alphanumeric()).collect::<String>()) }
                }
            }
        }
        "jsonstr" => {
            let s = String::from_utf8(unhex(t[2])).unwrap();
            let out = json_write_str(&s);
            let tok = match out.strip_prefix(b"{\"a\":").and_then(|x| x.strip_suffix(b"}\n")) {
                Some(x) => x.to_vec(),
                None => return "ERR:layout".into(),
            };
            match serde_json::from_slice::<String>(&tok) {
                Ok(v) if v == s => {}
                other => oracle.push(format!("serde_json reads the written token as {:?}", other.map(|x| hex(x.as_bytes())))),
            }
            match json_read_a(&out) {
                Ok(v) if v == vec![Some(s.as_bytes().to_vec())] => {}
                other => oracle.push(format!("json string round trip: {:?}", other).chars().take(200).collect()),
            }
            hex(&tok)
        }
        "jsonbin" => {
            let bytes = unhex(t[2]);
            let schema = Arc::new(Schema::new(vec![Field::new("a", DataType::Binary, true)]));
            let batch = RecordBatch::try_new(schema.clone(), vec![Arc::new(BinaryArray::from(vec![Some(bytes.as_slice())])) as ArrayRef]).unwrap();
            let mut out = Vec::new();
            {
                let mut w = arrow_json::LineDelimitedWriter::new(&mut out);
                w.write(&batch).unwrap();
                w.finish().unwrap();
            }
            let tok = match out.strip_prefix(b"{\"a\":").and_then(|x| x.strip_suffix(b"}\n")) {
                Some(x) => x.to_vec(),
                None => return "ERR:layout".into(),
            };
            // read back with every binary layout
            for dt in [DataType::Binary, DataType::LargeBinary, DataType::BinaryView, DataType::FixedSizeBinary(bytes.len() as i32)] {
                let sch = Arc::new(Schema::new(vec![Field::new("a", dt.clone(), true)]));
                let got: Result<Vec<RecordBatch>, _> = arrow_json::ReaderBuilder::new(sch).build(Cursor::new(out.clone())).and_then(|r| r.collect());
                match got {
                    Ok(bs) if bs.len() == 1 && bs[0].num_rows() == 1 => {
                        let c = bs[0].column(0);
                        let v: Vec<u8> = match &dt {
                            DataType::Binary => c.as_binary::<i32>().value(0).to_vec(),
                            DataType::LargeBinary => c.as_binary::<i64>().value(0).to_vec(),
                            DataType::BinaryView => c.as_binary_view().value(0).to_vec(),
                            _ => c.as_fixed_size_binary().value(0).to_vec(),
                        };
                        if v != bytes {
                            oracle.push(format!("binary round trip as {dt:?}: read {} bytes, wrote {}; first difference at byte {}", v.len(), bytes.len(), v.iter().zip(bytes.iter()).position(|(a, b)| a != b).unwrap_or(v.len().min(bytes.len()))));
                        }
                    }
                    other => oracle.push(format!("binary round trip as {dt:?}: {}", format!("{other:?}").chars().take(120).collect::<String>())),
                }
            }
            hex(&tok)
        }
        "jsonunbin" => {
            let chars = unhex(t[2]);
            let mut doc = b"{\"a\":\"".to_vec();
            doc.extend_from_slice(&chars);
            doc.extend_from_slice(b"\"}\n");
            let sch = Arc::new(Schema::new(vec![Field::new("a", DataType::Binary, true)]));
            let got: Result<Vec<RecordBatch>, _> = arrow_json::ReaderBuilder::new(sch).build(Cursor::new(doc)).and_then(|r| r.collect());
            match got {
                Ok(bs) if bs.len() == 1 && bs[0].num_rows() == 1 => hex(bs[0].column(0).as_binary::<i32>().value(0)),
                Ok(_) => "ERR:rows".into(),
                Err(_) => "ERR:parse".into(),
            }
        }
        "jsonunesc" => {
            let tok = unhex(t[2]);
            let mut doc = b"{\"a\":".to_vec();
            doc.extend_from_slice(&tok);
            doc.extend_from_slice(b"}\n");
            let got = json_read_a(&doc);
            let ans = match &got {
                Ok(v) if v.len() == 1 && v[0].is_some() => hex(v[0].as_ref().unwrap()),
                Ok(_) => "ERR:rows".to_string(),
                Err(_) => "ERR:parse".to_string(),
            };
            // independent parser: whatever serde_json accepts must be accepted with the same value
            if let Ok(v) = serde_json::from_slice::<String>(&tok) {
                if ans != hex(v.as_bytes()) {
                    if tok.windows(2).any(|w| w == b"\\u") {
                        finding = " finding:json-surrogate-pair".into();
                    }
                    oracle.push(format!("serde_json decodes the token to {} but arrow-json gives {}", hex(v.as_bytes()), ans));
                }
            }
            ans
        }
        "jsonrt" => {
            let n: usize = t[4].parse().unwrap();
            let batch = make_batch(t[3], t[5], n);
            let explicit = t[2].contains('e'); // `E` = explicit nulls off (schemas without maps only)
            let list_mode = t[2].contains('l');
            let array_fmt = t[2].contains('a');
            let mode = if list_mode { StructMode::ListOnly } else { StructMode::ObjectOnly };
            let mut out = Vec::new();
            let b = arrow_json::WriterBuilder::new().with_explicit_nulls(explicit).with_struct_mode(mode);
            // option `m`: the rows go through the SAME writer as two batches (second `write` call)
            let parts: Vec<RecordBatch> = if t[2].contains('m') && n >= 2 { vec![batch.slice(0, n / 2), batch.slice(n / 2, n - n / 2)] } else { vec![batch.clone()] };
            let res = if array_fmt {
                let mut w = b.build::<_, arrow_json::writer::JsonArray>(&mut out);
                parts.iter().try_for_each(|p| w.write(p)).and_then(|_| w.finish())
            } else {
                let mut w = b.build::<_, arrow_json::writer::LineDelimited>(&mut out);
                parts.iter().try_for_each(|p| w.write(p)).and_then(|_| w.finish())
            };
            if res.is_err() {
                // not a batch the writer accepts: outside the property's domain
                rejected = true;
                return format!("rows={n}");
            }
            // independent parser accepts the text
            let ok_serde = if array_fmt { serde_json::from_slice::<serde_json::Value>(&out).is_ok() || n == 0 } else { out.split(|b| *b == b'\n').filter(|l| !l.is_empty()).all(|l| serde_json::from_slice::<serde_json::Value>(l).is_ok()) };
            if !ok_serde {
                oracle.push("serde_json rejects the written text".into());
            }
            // reader options: `s` strict mode, `p` coerce_primitive, `b` default batch size (1024) instead of 3
            let mut rb = arrow_json::ReaderBuilder::new(batch.schema()).with_struct_mode(mode).with_flatten(array_fmt).with_strict_mode(t[2].contains('s')).with_coerce_primitive(t[2].contains('p'));
            if !t[2].contains('b') {
                rb = rb.with_batch_size(3);
            }
            match rb.build(Cursor::new(out.clone())) {
                Ok(r) => match r.collect::<Result<Vec<_>, _>>() {
                    Ok(bs) => {
                        if let Err(e) = batches_equal(&batch, &bs) {
                            oracle.push(format!("json round trip: {e}"));
                        }
                    }
                    Err(e) => {
                        let m = format!("{e:?}");
                        if m.contains("as Duration(") && t[5].split(';').any(|c| c.contains("dur")) {
                            finding = " kf:json-duration-text-not-readable finding:duration-parse".into();
                        }
                        oracle.push(format!("json round trip: reader error {}", m.chars().take(160).collect::<String>()))
                    }
                },
                Err(e) => oracle.push(format!("json round trip: open {e:?}")),
            }
            format!("rows={n}")
        }
        "csvrt" => {
            let n: usize = t[4].parse().unwrap();
            let batch = make_batch(t[3], t[5], n);
            let d: u8 = if t[2].contains('t') { b'\t' } else if t[2].contains('s') { b';' } else { b',' };
            let header = t[2].contains('h');
            // options: `q` quote character `'`; `x` quotes escaped with a backslash instead of doubling; `r` CRLF line
            // terminator; `f` explicit date/time/timestamp formats; `n` the DEFAULT null handling (empty field, no
            // regex: only generated for schemas without string columns); `m` two batches through one writer;
            // `b` default reader batch size
            let opts = t[2];
            let quote = if opts.contains('q') { b'\'' } else { b'"' };
            let mut out = Vec::new();
            {
                let mut wb = arrow_csv::WriterBuilder::new().with_header(header).with_delimiter(d).with_quote(quote);
                if !opts.contains('n') {
                    wb = wb.with_null(NULL_SENTINEL.to_string());
                }
                if opts.contains('x') {
                    wb = wb.with_double_quote(false).with_escape(b'\\');
                }
                if opts.contains('r') {
                    wb = wb.with_line_terminator(arrow_csv::writer::Terminator::CRLF);
                }
                if opts.contains('f') {
                    wb = wb.with_date_format("%Y-%m-%d".into()).with_datetime_format("%Y-%m-%dT%H:%M:%S%.3f".into()).with_timestamp_format("%Y-%m-%d %H:%M:%S%.9f".into()).with_timestamp_tz_format("%Y-%m-%dT%H:%M:%S%.9f%:z".into()).with_time_format("%H:%M:%S%.9f".into());
                }
                let mut w = wb.build(&mut out);
                let parts: Vec<RecordBatch> = if opts.contains('m') && n >= 2 { vec![batch.slice(0, n / 2), batch.slice(n / 2, n - n / 2)] } else { vec![batch.clone()] };
                for p in &parts {
                    if w.write(p).is_err() {
                        rejected = true;
                        return format!("rows={n}");
                    }
                }
            }
            let mut rb = arrow_csv::ReaderBuilder::new(batch.schema()).with_header(header).with_delimiter(d).with_quote(quote);
            if !opts.contains('n') {
                rb = rb.with_null_regex(never_null());
            }
            if opts.contains('x') {
                rb = rb.with_escape(b'\\');
            }
            if !opts.contains('b') {
                rb = rb.with_batch_size(4);
            }
            let r = rb.build(Cursor::new(out.clone()));
            match r {
                Ok(r) => match r.collect::<Result<Vec<_>, _>>() {
                    Ok(bs) => {
                        if let Err(e) = batches_equal(&batch, &bs) {
                            oracle.push(format!("csv round trip: {e}"));
                        }
                    }
                    Err(e) => oracle.push(format!("csv round trip: reader error {}", format!("{e:?}").chars().take(160).collect::<String>())),
                },
                Err(e) => oracle.push(format!("csv round trip: open {e:?}")),
            }
            format!("rows={n}")
        }
        _ => "bad-op".into(),
    });
    if rejected {
        sink.count(&format!("writer-rejects:{}", t[1]));
    }
    for o in oracle {
        // one oracle failure = one line: array Debug output is multi-line
        sink.oracle_failure(line.to_string(), o.replace(['\n', '\r', '\t'], " "), &format!("{}{}", tags, finding));
    }
    ans
}

// ------------------------------------------------------------------ generators
const PIECES: [&str; 22] = ["a", "b", ",", "\"", "\"\"", "\n", "\r", "\r\n", " ", "\t", ";", "\\", "é", "😀", "\u{0}", "\u{1}", "\u{7f}", "\u{ffff}", "\u{20000}", "'", "#", "NULL"];
thread_local! {
    /// largest variable-length value (bytes) / element count drawn for the current case (for the `sz:` tag)
    static MAX_SIZE: std::cell::Cell<usize> = const { std::cell::Cell::new(0) };
    /// the ~64 KiB class is only drawn for ops whose Lean model runs in linear time (the CSV automaton and the
    /// JSON string decoder append to lists: quadratic in one value's length)
    static HUGE_OK: std::cell::Cell<bool> = const { std::cell::Cell::new(true) };
}
fn note_size(n: usize) {
    MAX_SIZE.with(|m| m.set(m.get().max(n)));
}
fn size_tag() -> &'static str {
    match MAX_SIZE.with(|m| m.replace(0)) {
        0..=30 => "sz:small",
        31..=66 => "sz:31-66",
        67..=130 => "sz:127-130",
        131..=258 => "sz:255-258",
        259..=514 => "sz:511-514",
        515..=1026 => "sz:1023-1026",
        1027..=5000 => "sz:4k",
        _ => "sz:64k",
    }
}
/// byte length of a variable-length value: mostly short, often on a size class that crosses an internal
/// buffer / block boundary (31..33, 63..66, 127..130, 255..258, 511..514, 1023..1026), rarely ~4 KiB / ~64 KiB
fn size_class(rng: &mut Rng) -> usize {
    let n = match rng.below(1000) {
        0..=549 => rng.usize(7),
        550..=699 => 63 + rng.usize(4),
        700..=779 => 31 + rng.usize(3),
        780..=859 => 127 + rng.usize(4),
        860..=919 => 255 + rng.usize(4),
        920..=959 => 511 + rng.usize(4),
        960..=989 => 1023 + rng.usize(4),
        990..=996 => 4094 + rng.usize(5),
        _ => if HUGE_OK.with(|h| h.get()) { 65534 + rng.usize(4) } else { 4094 + rng.usize(5) },
    };
    note_size(n);
    n
}
/// element count of a list / map: mostly tiny, sometimes around 64 / 128 / 256
fn count_class(rng: &mut Rng) -> usize {
    let n = match rng.below(100) {
        0..=89 => *rng.pick(&[0usize, 0, 1, 2, 4]),
        90..=95 => 63 + rng.usize(3),
        96..=98 => 127 + rng.usize(3),
        _ => 255 + rng.usize(3),
    };
    note_size(n);
    n
}
/// text of exactly `size_class` bytes: ASCII only, or mixed with multi-byte characters (so that byte and
/// character counts differ), made of the adversarial pieces and padded with `a`
fn gen_text_sized(rng: &mut Rng) -> String {
    let target = size_class(rng);
    let ascii = rng.bool();
    loop {
        let mut s = String::new();
        while s.len() < target {
            let p = *rng.pick(&PIECES);
            if (ascii && !p.is_ascii()) || s.len() + p.len() > target {
                if s.len() + 1 <= target {
                    s.push(if target > 200 && !ascii && s.len() + 2 <= target { 'é' } else { 'a' });
                }
                continue;
            }
            s.push_str(p);
        }
        if s != NULL_SENTINEL {
            return s;
        }
    }
}
fn gen_bytes_sized(rng: &mut Rng) -> Vec<u8> {
    let n = size_class(rng);
    rng.bytes(n)
}
fn gen_text(rng: &mut Rng, max: usize) -> String {
    if rng.chance(1, 3) {
        return gen_text_sized(rng);
    }
    loop {
        let n = rng.usize(max + 1);
        let s: String = (0..n).map(|_| *rng.pick(&PIECES)).collect();
        // stay inside the property's domain: never a value equal to the null sentinel in use
        if s != NULL_SENTINEL {
            return s;
        }
    }
}
fn hex_or_empty(b: &[u8], empty: &str) -> String {
    if b.is_empty() { empty.to_string() } else { hex(b) }
}
/// doubles on formatting boundaries: 2^52..2^53 (last exactly representable integers), the switch to exponent
/// notation, powers of ten that are / are not exact, shortest-digit cases
const F64_BOUNDARY: [f64; 26] = [4503599627370496.0, 4503599627370497.0, 9007199254740991.0, 9007199254740992.0, 9007199254740994.0, 1e15, 1e16, 1e17, 1e21, 1e22, 1e23, 1e-5, 1e-6, 1e-7, 0.1, 0.2, 0.30000000000000004, 123456789012345680.0, 5e-324, 2.2250738585072014e-308, 1.7976931348623157e308, 0.000001, 100000.0, 1e7, 16777216.0, 16777217.0];
fn gen_flat_value(rng: &mut Rng, ty: &str, json: bool) -> String {
    let i = |rng: &mut Rng, lo: i64, hi: i64| rng.pick_or(&[lo, hi, 0, -1, 1, lo + 1, hi - 1], lo, hi).clamp(lo, hi).to_string();
    match ty {
        "bool" => rng.below(2).to_string(),
        "i8" => i(rng, i8::MIN as i64, i8::MAX as i64),
        "i16" => i(rng, i16::MIN as i64, i16::MAX as i64),
        "i32" => i(rng, i32::MIN as i64, i32::MAX as i64),
        // dates / timestamps inside 0001-01-02 ..= 9999-12-30 (what both the formatter and the parser cover)
        "d32" => i(rng, -719161, 2932895),
        "i64" => i(rng, i64::MIN, i64::MAX),
        "u8" => i(rng, 0, u8::MAX as i64),
        "u16" => i(rng, 0, u16::MAX as i64),
        "u32" => i(rng, 0, u32::MAX as i64),
        "u64" => if rng.chance(1, 3) { u64::MAX.to_string() } else { rng.next_u64().to_string() },
        "f32" => {
            let b = if rng.chance(1, 3) { *rng.pick(&[0u32, 0x8000_0000, 1, 0x7f7f_ffff, 0xff7f_ffff, 0x0080_0000, 0x3f80_0000, 0x3dcc_cccd, 0x7f80_0000, 0xff80_0000, 0x7fc0_0000]) } else { rng.next_u64() as u32 };
            let f = f32::from_bits(b);
            if !f.is_finite() && json { "3f800000".into() } else { format!("{:08x}", if f.is_nan() { 0x7fc0_0000 } else { b }) }
        }
        "f64" => {
            let b = if rng.chance(1, 4) { F64_BOUNDARY[rng.usize(F64_BOUNDARY.len())].to_bits() } else if rng.chance(1, 3) { *rng.pick(&[0u64, 1 << 63, 1, 0x7fef_ffff_ffff_ffff, 0xffef_ffff_ffff_ffff, 0x0010_0000_0000_0000, 0x3ff0_0000_0000_0000, 0x3fb9_9999_9999_999a, 0x4340_0000_0000_0000, 0x7ff0_0000_0000_0000, 0xfff0_0000_0000_0000, 0x7ff8_0000_0000_0000]) } else { rng.next_u64() };
            let f = f64::from_bits(b);
            if !f.is_finite() && json { "3ff0000000000000".into() } else { format!("{:016x}", if f.is_nan() { 0x7ff8_0000_0000_0000 } else { b }) }
        }
        "null" => "N".to_string(),
        "f16" => {
            let b = if rng.chance(1, 3) { *rng.pick(&[0u16, 0x8000, 1, 0x7bff, 0xfbff, 0x0400, 0x3c00, 0x3555, 0x6400, 0x6800]) } else { rng.next_u64() as u16 };
            let f = half::f16::from_bits(b);
            if !f.is_finite() { "3c00".into() } else { format!("{:04x}", b) }
        }
        "durs" | "durm" | "duru" | "durn" => i(rng, i64::MIN, i64::MAX),
        t if t.starts_with("dict") => hex_or_empty(gen_text(rng, 3).as_bytes(), "~"),
        t if t.starts_with("dec32(") || t.starts_with("dec64(") || t.starts_with("dec256(") => {
            let p: u32 = t[t.find('(').unwrap() + 1..].split('.').next().unwrap().parse().unwrap();
            // digit-count boundaries 10^k - 1, 10^k up to the precision, and the two's-complement byte boundaries
            let k = 1 + rng.below(p as u64) as u32;
            let pow = |b: u32, e: u32| -> arrow_buffer::i256 { (0..e).fold(arrow_buffer::i256::ONE, |a, _| a.checked_mul(arrow_buffer::i256::from_i128(b as i128)).unwrap()) };
            let max = pow(10, p).checked_sub(arrow_buffer::i256::ONE).unwrap();
            let v = match rng.below(8) {
                0 => max,
                1 => pow(10, k).checked_sub(arrow_buffer::i256::ONE).unwrap(),
                2 => pow(10, k - 1),
                3 => arrow_buffer::i256::ZERO,
                4 => pow(2, 8 * (1 + rng.below(31) as u32) - 1),
                5 => arrow_buffer::i256::ONE,
                _ => pow(10, k - 1).checked_mul(arrow_buffer::i256::from_i128(1 + rng.below(9) as i128)).unwrap().checked_add(arrow_buffer::i256::from_i128(rng.below(7) as i128)).unwrap(),
            };
            let v = if v > max { max } else { v };
            if rng.bool() { v.wrapping_neg().to_string() } else { v.to_string() }
        }
        "utf8" | "lutf8" | "utf8v" => hex_or_empty(gen_text(rng, 6).as_bytes(), "~"),
        "bin" | "lbin" | "binv" => hex_or_empty(&gen_bytes_sized(rng), "~"),
        t if t.starts_with("fsb") => {
            let n: usize = t[3..].parse().unwrap();
            note_size(n);
            hex(&rng.bytes(n))
        }
        "d64" => (rng.pick_or(&[-719161, 2932895, 0, -1, 1], -719161, 2932895) * 86_400_000).to_string(),
        "t32s" => rng.range(0, 86399).to_string(),
        "t32m" => rng.range(0, 86_399_999).to_string(),
        "t64u" => rng.range(0, 86_399_999_999).to_string(),
        "t64n" => rng.range(0, 86_399_999_999_999).to_string(),
        "tss" | "tzs" => rng.pick_or(&[0, -1, 1, 253402128000, -62135510400], -62135510400, 253402128000).to_string(),
        "tsm" | "tzm" => rng.pick_or(&[0, -1, 1, 999, -999, 253402128000999, -62135510400000], -62135510400000, 253402128000999).to_string(),
        "tsu" | "tzu" => rng.pick_or(&[0, -1, 1, 999999, -999999, 253402128000999999, -62135510400000000], -62135510400000000, 253402128000999999).to_string(),
        "tsn" | "tzn" => rng.pick_or(&[0, -1, 1, 999999999, -999999999, i64::MAX, i64::MIN + 1], -9_000_000_000_000_000_000, 9_000_000_000_000_000_000).to_string(),
        t if t.starts_with("dec(") => {
            let p: u32 = t[4..].split('.').next().unwrap().parse().unwrap();
            let max = 10i128.pow(p) - 1;
            let v = match rng.below(5) { 0 => max, 1 => -max, 2 => 0, 3 => 1, _ => (rng.next_u64() as i128 * rng.next_u64() as i128) % (max + 1) * if rng.bool() { 1 } else { -1 } };
            v.to_string()
        }
        _ => panic!("gen {ty}"),
    }
}
fn gen_value(rng: &mut Rng, ty: &str, json: bool, nullable: bool) -> String {
    if nullable && rng.chance(1, 5) {
        return "N".into();
    }
    if let Some(inner) = ty.strip_prefix("fsl2(").and_then(|x| x.strip_suffix(')')) {
        return format!("L{}", (0..2).map(|_| gen_value(rng, inner, json, true)).collect::<Vec<_>>().join("."));
    }
    for pre in ["llist(", "lview("] {
        if let Some(inner) = ty.strip_prefix(pre).and_then(|x| x.strip_suffix(')')) {
            return gen_value(rng, &format!("list({inner})"), json, false);
        }
    }
    if let Some(inner) = ty.strip_prefix("list(").and_then(|x| x.strip_suffix(')')) {
        let n = count_class(rng);
        return format!("L{}", (0..n).map(|_| gen_value(rng, inner, json, true)).collect::<Vec<_>>().join("."));
    }
    if let Some(inner) = ty.strip_prefix("map(").and_then(|x| x.strip_suffix(')')) {
        let n = if rng.chance(1, 10) { count_class(rng) } else { *rng.pick(&[0usize, 1, 2, 3]) };
        return format!("M{}", (0..n).map(|j| format!("{}.{}", hex(format!("k{j}{}", gen_text(rng, 2)).as_bytes()), gen_value(rng, inner, json, true))).collect::<Vec<_>>().join("."));
    }
    if let Some(inner) = ty.strip_prefix("st(").and_then(|x| x.strip_suffix(')')) {
        return format!("S{}", inner.split('/').map(|t| gen_value(rng, t, json, true)).collect::<Vec<_>>().join("+"));
    }
    gen_flat_value(rng, ty, json)
}
/// JSON-only column types (hex-encoded binary in every layout)
const JSON_ONLY: [&str; 13] = ["bin", "lbin", "binv", "fsb1", "fsb33", "fsb64", "fsb65", "fsb130", "utf8v", "durs", "durm", "duru", "durn"];
/// types of both text formats added by the coverage audit
const MORE: [&str; 8] = ["f16", "dec32(9.2)", "dec32(4.0)", "dec64(18.3)", "dec64(10.0)", "dec256(76.10)", "dec256(40.0)", "null"];
/// CSV only: Dictionary(key, Utf8) for every key type the reader has an arm for
const CSV_DICT: [&str; 8] = ["dicti8", "dicti16", "dicti32", "dicti64", "dictu8", "dictu16", "dictu32", "dictu64"];
const FLAT: [&str; 30] = ["bool", "i8", "i16", "i32", "i64", "u8", "u16", "u32", "u64", "f32", "f64", "utf8", "lutf8", "d32", "d64", "t32s", "t32m", "t64u", "t64n", "tss", "tsm", "tsu", "tsn", "tzs", "tzm", "tzu", "tzn", "dec(5.2)", "dec(38.10)", "dec(18.0)"];
fn gen_rt(rng: &mut Rng, json: bool) -> (String, String) {
    let ncols = 1 + rng.usize(4);
    // row counts: small, or around 64 and around the readers' default batch size 1024 (narrow schemas only)
    let big_n = rng.chance(1, 40);
    let n = if big_n { *rng.pick(&[63usize, 64, 65, 1023, 1024, 1025]) } else { *rng.pick(&[0usize, 1, 2, 3, 7]) };
    let ncols = if big_n { 1 + rng.usize(2) } else { ncols };
    if big_n {
        note_size(n);
    }
    let mut tys: Vec<String> = vec![];
    for _ in 0..ncols {
        let mut base = if rng.chance(1, 6) { rng.pick(&MORE).to_string() } else if !json && rng.chance(1, 8) { rng.pick(&CSV_DICT).to_string() } else if json && rng.chance(1, 4) { rng.pick(&JSON_ONLY).to_string() } else if rng.chance(1, 5) { (*rng.pick(&["utf8", "utf8", "lutf8", "utf8v"])).to_string() } else { rng.pick(&FLAT).to_string() };
        if !json && base == "lutf8" {
            base = "utf8".into(); // the CSV reader has no LargeUtf8 decoder
        }
        if big_n {
            base = (*rng.pick(&["i32", "i64", "bool", "f64", "d32", "dec(5.2)", "tsm", "u8"])).to_string();
        }
        let t = if big_n {
            base
        } else if json {
            match rng.below(11) {
                8 => format!("llist({base})"),
                9 => format!("lview({base})"),
                10 => format!("fsl2({base})"),
                0 => format!("list({base})"),
                1 => format!("st({}/{})", base, rng.pick(&FLAT)),
                2 => format!("map({base})"),
                3 => format!("list(st({}/utf8))", base),
                _ => base,
            }
        } else {
            base
        };
        tys.push(t);
    }
    let cols: Vec<String> = tys.iter().map(|t| format!("{}:{}", t, (0..n).map(|_| gen_value(rng, t, json, true)).collect::<Vec<_>>().join(","))).collect();
    let kinds: String = tys.iter().map(|t| format!(" ty:{}", t.split('(').next().unwrap())).collect::<Vec<_>>().join("");
    if json {
        // explicit nulls are required whenever a null inside a struct/map/list-of-struct would otherwise be dropped
        // explicit nulls may be switched off only when no map entry could be dropped (property text)
        let has_map = tys.iter().any(|t| t.contains("map("));
        let opts = format!("{}{}{}{}{}{}{}", if has_map || rng.chance(2, 3) { "e" } else { "E" }, if rng.chance(1, 4) { "l" } else { "" }, if rng.chance(1, 3) { "a" } else { "" }, if rng.chance(1, 3) { "m" } else { "" }, if rng.chance(1, 3) { "s" } else { "" }, if rng.chance(1, 4) { "p" } else { "" }, if big_n || rng.chance(1, 5) { "b" } else { "" });
        (format!("C17 jsonrt {} - {} {}", opts, n, cols.join(";")), format!("op:jsonrt opt:{}{} {}", opts, kinds, if n > 0 { "nt" } else { "" }))
    } else {
        let stringy = tys.iter().any(|t| t.contains("utf8") || t.starts_with("dict") || t == "null");
        let opts = format!("c{}{}{}{}{}{}{}{}{}", if rng.bool() { "h" } else { "" }, *rng.pick(&["", "", "t", "s"]), if rng.chance(1, 4) { "q" } else { "" }, if rng.chance(1, 5) { "x" } else { "" }, if rng.chance(1, 5) { "r" } else { "" }, if rng.chance(1, 4) { "f" } else { "" }, if !stringy && rng.chance(1, 3) { "n" } else { "" }, if rng.chance(1, 3) { "m" } else { "" }, if big_n || rng.chance(1, 5) { "b" } else { "" });
        // with backslash-escaped quotes (`x`) the csv writer does not escape a literal backslash, so the text is
        // ambiguous whenever a value contains one: outside the property's domain
        let has_backslash = cols.iter().any(|c| {
            let (ty, vals) = c.split_once(':').unwrap();
            (ty.contains("utf8") || ty.starts_with("dict")) && vals.split(',').any(|v| v != "N" && v != "~" && unhex(v).contains(&b'\\'))
        });
        let opts = if has_backslash { opts.replace('x', "") } else { opts };
        (format!("C17 csvrt {} - {} {}", opts, n, cols.join(";")), format!("op:csvrt opt:{}{} {}", opts, kinds, if n > 0 { "nt" } else { "" }))
    }
}
fn gen_case(rng: &mut Rng) -> (String, String) {
    MAX_SIZE.with(|m| m.set(0));
    let (line, tags) = gen_case_inner(rng);
    (line, format!("{} {}", tags, size_tag()))
}
fn gen_case_inner(rng: &mut Rng) -> (String, String) {
    let op = rng.below(11);
    HUGE_OK.with(|h| h.set(op >= 6));
    match op {
        0 | 1 => {
            let d = *rng.pick(&[b',', b',', b';', b'\t', b'|']);
            let k = 1 + rng.usize(4);
            let nrec = 1 + rng.usize(4);
            let recs: Vec<Vec<Vec<u8>>> = (0..nrec).map(|_| (0..k).map(|_| gen_text(rng, 5).into_bytes()).collect()).collect();
            if rng.chance(1, 4) {
                let q = *rng.pick(&[b'\'', b'"', b'|', b'#', b' ']);
                if q != d {
                    let special = recs.iter().flatten().any(|f| f.iter().any(|b| *b == d || *b == q || *b == b'\n' || *b == b'\r'));
                    return (format!("C17 csvq {} {} {}", d, q, show_records(&recs)), format!("op:csvq quote:{} {}", q, if special { "quoted nt" } else { "plain" }));
                }
            }
            let special = recs.iter().flatten().any(|f| f.iter().any(|b| *b == d || *b == b'"' || *b == b'\n' || *b == b'\r'));
            (format!("C17 csv {} {}", d, show_records(&recs)), format!("op:csv {} {}", if special { "quoted" } else { "plain" }, if special { "nt" } else { "" }))
        }
        2 => {
            // adversarial reader input: fields rendered by hand in any legal (or sloppy) way
            let d = *rng.pick(&[b',', b';']);
            let k = 1 + rng.usize(3);
            let nrec = 1 + rng.usize(3);
            let mut bytes = vec![];
            for r in 0..nrec {
                for c in 0..k {
                    if c > 0 {
                        bytes.push(d);
                    }
                    let f = gen_text(rng, 4).replace('\u{20000}', "x");
                    match rng.below(3) {
                        0 => {
                            bytes.push(b'"');
                            bytes.extend(f.replace('"', "\"\"").as_bytes());
                            bytes.push(b'"');
                        }
                        1 => bytes.extend(f.replace(['\n', '\r', '"'], "").replace(d as char, "").as_bytes()),
                        _ => {
                            // quote appearing inside an unquoted field / text after a closing quote
                            bytes.extend(b"x\"y");
                            bytes.extend(f.replace(['\n', '\r'], "").replace(d as char, "").as_bytes());
                        }
                    }
                }
                if r + 1 < nrec || rng.bool() {
                    bytes.extend(*rng.pick(&[&b"\n"[..], b"\r\n", b"\r", b"\n\n"]));
                }
            }
            (format!("C17 csvsplit {} {} {}", d, k, hex(&bytes)), "op:csvsplit nt".to_string())
        }
        3 | 4 => {
            let s = gen_text(rng, 8);
            let esc = s.chars().any(|c| (c as u32) < 0x20 || c == '"' || c == '\\');
            (format!("C17 jsonstr {}", hex(s.as_bytes())), format!("op:jsonstr {} {}", if esc { "escaped nt" } else { "plain" }, if s.chars().any(|c| c as u32 > 0xffff) { "non-bmp" } else { "" }))
        }
        5 => {
            // any RFC 8259 spelling: raw, short escapes, \uXXXX (upper/lower hex), surrogate pairs
            let n = 1 + rng.usize(5);
            let mut tok = vec![b'"'];
            let mut tags = String::new();
            for _ in 0..n {
                let c: char = *rng.pick(&['a', '"', '\\', '/', '\u{8}', '\u{c}', '\n', '\r', '\t', '\u{0}', '\u{1f}', 'é', '\u{7ff}', '\u{800}', '\u{d7ff}', '\u{e000}', '\u{ffff}', '\u{10000}', '😀', '\u{1ffff}', '\u{20000}', '\u{2f800}', '\u{3ffff}', '\u{40000}', '\u{10ffff}']);
                let cp = c as u32;
                match rng.below(3) {
                    0 if cp >= 0x20 && c != '"' && c != '\\' => tok.extend(c.to_string().as_bytes()),
                    1 if "\"\\/\u{8}\u{c}\n\r\t".contains(c) => {
                        tok.push(b'\\');
                        tok.push(match c { '\u{8}' => b'b', '\u{c}' => b'f', '\n' => b'n', '\r' => b'r', '\t' => b't', x => x as u8 });
                    }
                    _ => {
                        let upper = rng.bool();
                        let mut units = [0u16; 2];
                        for u in c.encode_utf16(&mut units) {
                            let h = if upper { format!("\\u{:04X}", u) } else { format!("\\u{:04x}", u) };
                            tok.extend(h.as_bytes());
                        }
                        if cp > 0xffff {
                            tags.push_str(if (cp - 0x10000) & 0x10000 != 0 { " pair-even-plane" } else { " pair-odd-plane" });
                        } else {
                            tags.push_str(" u-escape");
                        }
                    }
                }
            }
            if rng.chance(1, 12) {
                tok.extend(*rng.pick(&[&b"\\ud800"[..], b"\\udc00\\ud800", b"\\x", b"\\u12"]));
                tags.push_str(" malformed");
            }
            tok.push(b'"');
            (format!("C17 jsonunesc {}", hex(&tok)), format!("op:jsonunesc nt{}", tags))
        }
        6 | 7 => gen_rt(rng, true),
        10 => {
            if rng.chance(2, 3) {
                // writer side + round trip of one Binary value of a boundary-crossing length
                let b = gen_bytes_sized(rng);
                (format!("C17 jsonbin {}", hex(&b)), format!("op:jsonbin {}", if b.len() > 64 { "nt multi-chunk" } else if !b.is_empty() { "nt" } else { "" }))
            } else {
                // reader side: any hex spelling (upper / lower case), odd length, stray characters
                let n = size_class(rng);
                let mut chars: Vec<u8> = (0..2 * n).map(|_| *rng.pick(b"0123456789abcdefABCDEF")).collect();
                let mut tag = "";
                match rng.below(10) {
                    0 => {
                        chars.push(*rng.pick(b"0123456789abcdefABCDEF"));
                        tag = " odd-length";
                    }
                    1 if !chars.is_empty() => {
                        let i = rng.usize(chars.len());
                        chars[i] = *rng.pick(b"gG xz-");
                        tag = " bad-digit";
                    }
                    _ => {}
                }
                (format!("C17 jsonunbin {}", hex(&chars)), format!("op:jsonunbin nt{}{}", tag, if n > 64 { " multi-chunk" } else { "" }))
            }
        }
        _ => gen_rt(rng, false),
    }
}

/// a deterministic block of boundary cases emitted at the start of every run
fn fixed_block() -> Vec<String> {
    let mut out = vec![];
    // binary values around every multiple of the 64-byte scratch buffer, and the reader on upper/lower/odd input
    for n in [0usize, 1, 2, 63, 64, 65, 66, 127, 128, 129, 130, 191, 192, 193, 255, 256, 257, 4095, 4096, 4097] {
        let b: Vec<u8> = (0..n).map(|i| (i * 7 + 3) as u8).collect();
        out.push(format!("C17 jsonbin {}", hex(&b)));
        out.push(format!("C17 jsonunbin {}", hex(hex(&b).to_uppercase().replace('-', "").as_bytes())));
    }
    out.push(format!("C17 jsonunbin {}", hex("0".repeat(129).as_bytes())));
    out.push(format!("C17 jsonunbin {}", hex(format!("{}g0", "ab".repeat(64)).as_bytes())));
    // every byte that must be escaped in JSON, alone and embedded; DEL; 2/3/4-byte characters
    for c in (0u32..=0x20).chain([0x22, 0x2f, 0x5c, 0x7f, 0x80, 0x7ff, 0x800, 0xffff, 0x10000, 0x1ffff, 0x20000, 0x10ffff]) {
        let ch = char::from_u32(c).unwrap();
        out.push(format!("C17 jsonstr {}", hex(format!("a{ch}{ch}b").as_bytes())));
        let mut u = [0u16; 2];
        let esc: String = ch.encode_utf16(&mut u).iter().map(|x| format!("\\u{:04X}", x)).collect();
        out.push(format!("C17 jsonunesc {}", hex(format!("\"{esc}x{}\"", esc.to_lowercase()).as_bytes())));
    }
    // CSV: each special byte at the start, in the middle, at the end and alone; empty / blank fields
    for sp in [",", "\"", "\n", "\r", "\r\n", " ", "\"\"", ";", "\t", "'"] {
        let f: Vec<String> = vec![format!("{sp}ab"), format!("a{sp}b"), format!("ab{sp}"), sp.to_string()];
        let rec = f.iter().map(|x| hex(x.as_bytes())).collect::<Vec<_>>().join(",");
        out.push(format!("C17 csv 44 {rec}|-,-,-,-|{rec}"));
        out.push(format!("C17 csvq 59 39 {rec}"));
    }
    out.push("C17 csv 44 -".into());
    out.push("C17 csv 44 -|-|61".into());
    out.push(format!("C17 csvsplit 44 2 {}", hex(b"a,b\r\n\r\n\"c\"\"d\",\"\"\n\n\ne,f")));
    out.push(format!("C17 csvsplit 44 2 {}", hex(b"a,\"b\"x\r\"\"y,z")));
    // numeric boundaries through both text formats: digit-count limits, float formatting switches
    let ints = "i64:0,-1,9,10,99,100,999999999,1000000000,9999999999,9223372036854775807,-9223372036854775808,N;u64:0,9,10,18446744073709551615,9999999999999999999,10000000000000000000,1,2,3,4,5,N;i8:-128,127,0,-1,1,99,100,-99,-100,9,10,N;u32:4294967295,0,1,9,10,99,100,999999999,1000000000,4294967294,12,N";
    let floats = format!("f64:{};f32:{}", F64_BOUNDARY.iter().map(|x| format!("{:016x}", x.to_bits())).collect::<Vec<_>>().join(","), F64_BOUNDARY.iter().map(|x| { let f = *x as f32; format!("{:08x}", if f.is_finite() { f.to_bits() } else { 0x7f7f_ffff }) }).collect::<Vec<_>>().join(","));
    let decs = "dec(5.2):99999,-99999,0,1,-1,9,10,99,100,999,1000,9999;dec32(9.2):999999999,-999999999,0,1,-1,9,10,99,100,128,-129,32768;dec64(18.3):999999999999999999,-999999999999999999,0,1,-1,999,1000,1001,-1000,128,-129,2147483648;dec256(76.10):9999999999999999999999999999999999999999999999999999999999999999999999999999,-9999999999999999999999999999999999999999999999999999999999999999999999999999,0,1,-1,9999999999,10000000000,10000000001,-10000000000,170141183460469231731687303715884105728,-170141183460469231731687303715884105729,5";
    for (op, o) in [("jsonrt", "e"), ("jsonrt", "eam"), ("jsonrt", "Els"), ("csvrt", "c"), ("csvrt", "chqm"), ("csvrt", "ctrf")] {
        out.push(format!("C17 {op} {o} - 12 {ints}"));
        out.push(format!("C17 {op} {o} - {} {floats}", F64_BOUNDARY.len()));
        out.push(format!("C17 {op} {o} - 12 {decs}"));
    }
    // default null handling of CSV (empty field <-> null) on a schema without strings
    out.push("C17 csvrt cn - 3 i32:1,N,3;f64:N,3ff0000000000000,N;bool:1,0,N".into());
    out.push("C17 csvrt chnm - 3 d32:1,N,3;tss:N,1,N;dec(5.2):N,N,N".into());
    out
}

fn main() {
    let args = parse_args();
    if std::env::var("VERIF_LOUD").is_err() {
        quiet_panics();
    }
    let mut sink = Sink::new(&args.out);
    if args.mode == "replay" {
        for line in read_cases(args.replay.as_ref().unwrap()) {
            let a = run_case(&line, &mut sink, "replay");
            sink.case(line, a, "replay");
        }
    } else {
        for line in fixed_block() {
            let a = run_case(&line, &mut sink, "fixed nt");
            sink.case(line, a, "fixed nt");
        }
        let mut rng = Rng::new(args.seed ^ 0xC17);
        let n = n_cases(&args, 6000, 150000);
        for _ in 0..n {
            let (line, tags) = gen_case(&mut rng);
            if std::env::var("VERIF_TRACE").is_ok() {
                eprintln!("{}", line);
            }
            let a = run_case(&line, &mut sink, &tags);
            sink.case(line, a, &tags);
        }
    }
    sink.finish();
}
