//! C04 correspondence + round-trip harness: Arrow IPC file / stream writers and readers.
//!
//! Case lines (model side: lean/ArrowModel/C04/Driver.lean):
//!   C04 bytes <w:4|8> <var> <offsets> <datahex> <off> <len>   normalised (offsets, values) the real writer put in the body
//!   C04 fixed <w> <var> <bufhex> <off> <len>                   values buffer written for a fixed-width slice
//!   C04 bits values|nulls <var> <bufhex> <off> <len>           bitmap written for a Boolean / validity slice
//!        var bit0: 0 = typed `.slice(off,len)`, 1 = child of a one-row List whose offsets are [off, off+len]
//!        var bit1 (fixed): use FixedSizeBinary(w) instead of a primitive type
//!   C04 frame <align> <legacy> <meta:body;…>                   `write_message` bytes + returned lengths
//!   C04 stream <legacy> <hex>                                   message sequence of a real stream
//!   C04 file <align> <legacy> <hex>                             footer blocks of a real file
//!   C04 dict stream|file resend|delta <reuse> <hist>            dictionary messages emitted + decoded columns
//!   C04 rt <writer> <reader> <align> <ver> <legacy> <codec> <dict> <evo> <proj> <seed>   round trip (oracle)
use arrow_array::cast::AsArray;
use arrow_array::types::*;
use arrow_array::*;
use arrow_buffer::{BooleanBuffer, Buffer, NullBuffer, OffsetBuffer, ScalarBuffer, i256};
use arrow_data::ArrayData;
use arrow_ipc::reader::{FileReader, StreamDecoder, StreamReader};
use arrow_ipc::writer::{
    DictionaryHandling, DictionaryTracker, EncodedData, FileWriter, IpcDataGenerator, IpcWriteOptions, StreamEncoder,
    StreamWriter, write_message,
};
use arrow_ipc::{CompressionType, MessageHeader, MetadataVersion};
use arrow_schema::*;
use std::collections::HashMap;
use std::io::Cursor;
use std::sync::Arc;
use vcommon::*;

// ------------------------------------------------------------------------------------ stream walking

struct WMsg {
    meta: (usize, usize),
    body: (usize, usize),
    prefix: usize,
}

/// hand-written mirror of `MessageReader::maybe_next` over a byte slice, using the real
/// flatbuffers accessors for the message header; returns (messages, bytes left after EOS, error)
fn walk(bytes: &[u8]) -> (Vec<WMsg>, usize, bool) {
    let mut out = vec![];
    let mut pos = 0usize;
    loop {
        if bytes.len() == pos {
            return (out, 0, false);
        }
        if bytes.len() - pos < 4 {
            // the stream ends inside a length prefix
            return (out, 0, true);
        }
        let mut prefix = 4;
        let mut l = [bytes[pos], bytes[pos + 1], bytes[pos + 2], bytes[pos + 3]];
        pos += 4;
        if l == [0xff; 4] {
            if bytes.len() - pos < 4 {
                return (out, 0, true);
            }
            l = [bytes[pos], bytes[pos + 1], bytes[pos + 2], bytes[pos + 3]];
            pos += 4;
            prefix = 8;
        }
        let n = i32::from_le_bytes(l);
        if n == 0 {
            return (out, bytes.len() - pos, false);
        }
        if n < 0 || bytes.len() - pos < n as usize {
            return (out, 0, true);
        }
        let n = n as usize;
        let meta = &bytes[pos..pos + n];
        let Ok(m) = arrow_ipc::root_as_message(meta) else { return (out, 0, true) };
        let bl = m.bodyLength();
        if bl < 0 || bytes.len() - pos - n < bl as usize {
            return (out, 0, true);
        }
        out.push(WMsg { meta: (pos, n), body: (pos + n, bl as usize), prefix });
        pos += n + bl as usize;
    }
}

fn describe(bytes: &[u8], w: &WMsg) -> String {
    let meta = &bytes[w.meta.0..w.meta.0 + w.meta.1];
    let m = arrow_ipc::root_as_message(meta).unwrap();
    let ty = m.header_type();
    let base = format!("{}:{}:{}", ty.0, w.prefix + w.meta.1, w.body.1);
    if ty == MessageHeader::RecordBatch {
        format!("{}:{}", base, m.header_as_record_batch().unwrap().length())
    } else if ty == MessageHeader::DictionaryBatch {
        let d = m.header_as_dictionary_batch().unwrap();
        format!("{}:{}:{}:{}", base, d.id(), if d.isDelta() { 1 } else { 0 }, d.data().unwrap().length())
    } else {
        base
    }
}

fn opts(align: usize, legacy: bool, ver: u8) -> IpcWriteOptions {
    IpcWriteOptions::try_new(align, legacy, if ver == 4 { MetadataVersion::V4 } else { MetadataVersion::V5 }).unwrap()
}

fn err_class(e: &ArrowError) -> &'static str {
    match e {
        ArrowError::InvalidArgumentError(_) => "ERR:invalid-arg",
        ArrowError::MemoryError(_) => "ERR:mem",
        ArrowError::ParseError(_) => "ERR:parse",
        ArrowError::IpcError(_) => "ERR:ipc",
        ArrowError::IoError(_, _) => "ERR:io",
        ArrowError::NotYetImplemented(_) => "ERR:not-impl",
        ArrowError::SchemaError(_) => "ERR:schema",
        _ => "ERR:other",
    }
}

/// body buffers of the last RecordBatch message of a one-batch stream written with alignment 8
fn body_buffers(col: ArrayRef) -> Vec<Vec<u8>> {
    let schema = Arc::new(Schema::new(vec![Field::new("c", col.data_type().clone(), true)]));
    let batch = RecordBatch::try_new(schema.clone(), vec![col]).unwrap();
    let mut w = StreamWriter::try_new_with_options(Vec::new(), &schema, opts(8, false, 5)).unwrap();
    w.write(&batch).unwrap();
    w.finish().unwrap();
    let bytes = w.into_inner().unwrap();
    let (msgs, _, err) = walk(&bytes);
    assert!(!err);
    let last = msgs
        .iter()
        .rev()
        .find(|m| {
            arrow_ipc::root_as_message(&bytes[m.meta.0..m.meta.0 + m.meta.1]).unwrap().header_type()
                == MessageHeader::RecordBatch
        })
        .unwrap();
    let m = arrow_ipc::root_as_message(&bytes[last.meta.0..last.meta.0 + last.meta.1]).unwrap();
    let rb = m.header_as_record_batch().unwrap();
    let body = &bytes[last.body.0..last.body.0 + last.body.1];
    rb.buffers()
        .unwrap()
        .iter()
        .map(|b| body[b.offset() as usize..(b.offset() + b.length()) as usize].to_vec())
        .collect()
}

/// wrap `child` as the values of a one-row List whose offsets are [off, off+len]
fn wrap_list(child: ArrayRef, off: usize, len: usize) -> ArrayRef {
    let field = Arc::new(Field::new("item", child.data_type().clone(), true));
    let offsets = OffsetBuffer::new(ScalarBuffer::from(vec![off as i32, (off + len) as i32]));
    Arc::new(ListArray::try_new(field, offsets, child, None).unwrap())
}

fn run_norm(t: &[&str]) -> String {
    let us = |s: &str| s.parse::<usize>().unwrap();
    match t[1] {
        "bytes" => {
            let (w, var, offsets, data, off, len) =
                (us(t[2]), us(t[3]), parse_list::<i64>(t[4]), unhex(t[5]), us(t[6]), us(t[7]));
            if off + len + 1 > offsets.len() {
                return "ERR:oob".into();
            }
            let n = offsets.len() - 1;
            let (dt, obuf) = if w == 4 {
                (DataType::Binary, Buffer::from_vec(offsets.iter().map(|x| *x as i32).collect::<Vec<i32>>()))
            } else {
                (DataType::LargeBinary, Buffer::from_vec(offsets.clone()))
            };
            let child = make_array(
                ArrayData::builder(dt).len(n).add_buffer(obuf).add_buffer(Buffer::from_vec(data)).build().unwrap(),
            );
            let bufs = if var & 1 == 0 { body_buffers(child.slice(off, len)) } else { body_buffers(wrap_list(child, off, len)) };
            let (o, v) = if var & 1 == 0 { (&bufs[1], &bufs[2]) } else { (&bufs[3], &bufs[4]) };
            let offs: Vec<i64> = if w == 4 {
                o.chunks(4).map(|c| i32::from_le_bytes(c.try_into().unwrap()) as i64).collect()
            } else {
                o.chunks(8).map(|c| i64::from_le_bytes(c.try_into().unwrap())).collect()
            };
            format!("{} {}", show_list(&offs), hex(v))
        }
        "fixed" => {
            let (w, var, buf, off, len) = (us(t[2]), us(t[3]), unhex(t[4]), us(t[5]), us(t[6]));
            if (off + len) * w > buf.len() {
                return "ERR:oob".into();
            }
            let dt = match (w, var & 2) {
                (1, 0) => DataType::Int8,
                (2, 0) => DataType::UInt16,
                (4, 0) => DataType::Float32,
                (8, 0) => DataType::Timestamp(TimeUnit::Nanosecond, None),
                (16, 0) => DataType::Interval(IntervalUnit::MonthDayNano),
                _ => DataType::FixedSizeBinary(w as i32),
            };
            let n = buf.len() / w;
            let child = make_array(ArrayData::builder(dt).len(n).add_buffer(Buffer::from(buf.as_slice())).build().unwrap());
            if var & 1 == 0 {
                hex(&body_buffers(child.slice(off, len))[1])
            } else {
                hex(&body_buffers(wrap_list(child, off, len))[3])
            }
        }
        "bits" => {
            let (kind, var, buf, off, len) = (t[2], us(t[3]), unhex(t[4]), us(t[5]), us(t[6]));
            if off + len > 8 * buf.len() {
                return "ERR:oob".into();
            }
            let nb = 8 * buf.len();
            let b = Buffer::from_vec(buf);
            if kind == "values" {
                if var & 1 == 0 {
                    let a = BooleanArray::new(BooleanBuffer::new(b, off, len), None);
                    hex(&body_buffers(Arc::new(a))[1])
                } else {
                    let a = BooleanArray::new(BooleanBuffer::new(b, 0, nb), None);
                    hex(&body_buffers(wrap_list(Arc::new(a), off, len))[3])
                }
            } else if var & 1 == 0 {
                let a = Int8Array::new(vec![0i8; len].into(), Some(NullBuffer::new(BooleanBuffer::new(b, off, len))));
                hex(&body_buffers(Arc::new(a))[0])
            } else {
                let a = Int8Array::new(vec![0i8; nb].into(), Some(NullBuffer::new(BooleanBuffer::new(b, 0, nb))));
                hex(&body_buffers(wrap_list(Arc::new(a), off, len))[2])
            }
        }
        _ => unreachable!(),
    }
}

// ------------------------------------------------------------------------------------ framing

fn run_frame(t: &[&str]) -> String {
    let align: usize = t[2].parse().unwrap();
    let legacy = t[3] == "1";
    let o = opts(align, legacy, if legacy { 4 } else { 5 });
    let mut out: Vec<u8> = vec![];
    let mut lens = vec![];
    if t[4] != "-" {
        for m in t[4].split(';') {
            let (a, b) = m.split_once(':').unwrap();
            let enc = EncodedData { ipc_message: unhex(a), arrow_data: unhex(b) };
            match write_message(&mut out, enc, &o) {
                Ok((h, b)) => lens.push(format!("{}:{}", h, b)),
                Err(e) => return err_class(&e).into(),
            }
        }
    }
    // the end-of-stream marker as the real writer emits it: (schema message + EOS) minus schema message
    let schema = Schema::empty();
    let mut sw = StreamWriter::try_new_with_options(Vec::new(), &schema, o.clone()).unwrap();
    sw.finish().unwrap();
    let all = sw.into_inner().unwrap();
    let mut tracker = DictionaryTracker::new(false);
    let enc = IpcDataGenerator::default().schema_to_bytes_with_dictionary_tracker(&schema, &mut tracker, &o);
    let mut tmp = vec![];
    let (h, b) = write_message(&mut tmp, enc, &o).unwrap();
    assert_eq!(&all[..h + b], &tmp[..]);
    out.extend_from_slice(&all[h + b..]);
    format!("{} {}", hex(&out), if lens.is_empty() { "-".to_string() } else { lens.join(",") })
}

fn run_stream(t: &[&str]) -> (String, Option<String>) {
    let bytes = unhex(t[3]);
    let (msgs, rest, err) = walk(&bytes);
    let d: Vec<String> = msgs.iter().map(|m| describe(&bytes, m)).collect();
    let ans = format!("{} {}", if d.is_empty() { "-".to_string() } else { d.join(",") }, if err { "ERR:parse".to_string() } else { format!("rest={}", rest) });
    // cross-check with the real reader: same record batches (row counts), error iff the walk errs
    let rows_walk: Vec<String> = d.iter().filter(|x| x.starts_with("3:")).map(|x| x.rsplit(':').next().unwrap().to_string()).collect();
    let real = guarded(|| match StreamReader::try_new(Cursor::new(bytes.clone()), None) {
        Err(e) => err_class(&e).to_string(),
        Ok(r) => {
            let mut rows = vec![];
            for b in r {
                match b {
                    Ok(b) => rows.push(b.num_rows().to_string()),
                    Err(e) => return format!("{} {}", rows.join(","), err_class(&e)),
                }
            }
            rows.join(",")
        }
    });
    // a stream without even a schema message cannot be opened (`StreamReader::try_new` errors)
    let expect = if err || msgs.is_empty() { None } else { Some(rows_walk.join(",")) };
    let bad = match expect {
        Some(e) => real != e,
        None => !real.contains("ERR"),
    };
    (ans, if bad { Some(format!("StreamReader saw [{}] but the message walk saw [{}] err={}", real, rows_walk.join(","), err)) } else { None })
}

fn run_file(t: &[&str]) -> (String, Option<String>) {
    let bytes = unhex(t[4]);
    if &bytes[..6] != b"ARROW1" {
        return ("ERR:magic".into(), None);
    }
    let n = bytes.len();
    let flen = i32::from_le_bytes(bytes[n - 10..n - 6].try_into().unwrap()) as usize;
    let tail = &bytes[n - 6..] == b"ARROW1";
    let footer = arrow_ipc::root_as_footer(&bytes[n - 10 - flen..n - 10]).unwrap();
    let blk = |b: &arrow_ipc::Block| format!("{}:{}:{}", b.offset(), b.metaDataLength(), b.bodyLength());
    let d: Vec<String> = footer.dictionaries().map(|v| v.iter().map(blk).collect()).unwrap_or_default();
    let r: Vec<String> = footer.recordBatches().map(|v| v.iter().map(blk).collect()).unwrap_or_default();
    let sl = |v: &Vec<String>| if v.is_empty() { "-".to_string() } else { v.join(",") };
    let ans = format!("dict={} rec={} tail={}", sl(&d), sl(&r), if tail { 1 } else { 0 });
    let real = guarded(|| match FileReader::try_new(Cursor::new(bytes.clone()), None) {
        Err(e) => err_class(&e).to_string(),
        Ok(rd) => {
            let nb = rd.num_batches();
            let mut k = 0;
            for b in rd {
                if b.is_err() {
                    return "ERR".into();
                }
                k += 1;
            }
            format!("{}/{}", k, nb)
        }
    });
    let bad = real != format!("{}/{}", r.len(), r.len());
    (ans, if bad { Some(format!("FileReader read {} but the footer lists {} record blocks", real, r.len())) } else { None })
}

// ------------------------------------------------------------------------------------ dictionary protocol

fn dots(xs: &[String]) -> String {
    if xs.is_empty() { "-".into() } else { xs.join(".") }
}

fn dict_col_values(col: &ArrayRef) -> String {
    let d = col.as_dictionary::<Int8Type>();
    let vals = d.values().as_primitive::<Int32Type>();
    let v: Vec<String> = (0..d.len())
        .map(|i| if d.is_null(i) { "n".to_string() } else { vals.value(d.keys().value(i) as usize).to_string() })
        .collect();
    dots(&v)
}

fn run_dict(t: &[&str]) -> String {
    let file = t[2] == "file";
    let delta = t[3] == "delta";
    let reuse = t[4] == "1";
    let hist: Vec<Vec<(Vec<i32>, Vec<Option<i8>>)>> = if t[5] == "-" {
        vec![]
    } else {
        t[5].split(';')
            .map(|b| {
                b.split('+')
                    .map(|c| {
                        let (v, k) = c.split_once('/').unwrap();
                        let vals = if v == "-" { vec![] } else { v.split('.').map(|x| x.parse().unwrap()).collect() };
                        let keys = if k == "-" { vec![] } else { k.split('.').map(|x| if x == "n" { None } else { Some(x.parse().unwrap()) }).collect() };
                        (vals, keys)
                    })
                    .collect()
            })
            .collect()
    };
    let ncols = hist.first().map(|b| b.len()).unwrap_or(1);
    let dt = DataType::Dictionary(Box::new(DataType::Int8), Box::new(DataType::Int32));
    let schema = Arc::new(Schema::new((0..ncols).map(|i| Field::new(format!("c{i}"), dt.clone(), true)).collect::<Vec<_>>()));
    let o = opts(8, false, 5).with_dictionary_handling(if delta { DictionaryHandling::Delta } else { DictionaryHandling::Resend });
    let mut prev: Vec<Option<(Vec<i32>, ArrayRef)>> = vec![None; ncols];
    let mut batches = vec![];
    for b in &hist {
        let mut cols: Vec<ArrayRef> = vec![];
        for (i, (vals, keys)) in b.iter().enumerate() {
            let values: ArrayRef = match &prev[i] {
                Some((pv, pa)) if reuse && pv == vals => pa.clone(),
                _ => Arc::new(Int32Array::from(vals.clone())),
            };
            prev[i] = Some((vals.clone(), values.clone()));
            cols.push(Arc::new(DictionaryArray::<Int8Type>::try_new(Int8Array::from(keys.clone()), values).unwrap()));
        }
        batches.push(RecordBatch::try_new(schema.clone(), cols).unwrap());
    }
    // write
    let mut status = "ok".to_string();
    let bytes = if file {
        let mut w = FileWriter::try_new_with_options(Vec::new(), &schema, o).unwrap();
        for (i, b) in batches.iter().enumerate() {
            if let Err(e) = w.write(b) {
                status = format!("{}@{}", err_class(&e), i);
                break;
            }
        }
        w.finish().unwrap();
        w.into_inner().unwrap()
    } else {
        let mut w = StreamWriter::try_new_with_options(Vec::new(), &schema, o).unwrap();
        for (i, b) in batches.iter().enumerate() {
            if let Err(e) = w.write(b) {
                status = format!("{}@{}", err_class(&e), i);
                break;
            }
        }
        w.finish().unwrap();
        w.into_inner().unwrap()
    };
    // observe the messages in file order
    let start = if file { 8 } else { 0 };
    let (msgs, _, err) = walk(&bytes[start..]);
    assert!(!err);
    let mut wire = vec![];
    let wire_schema = {
        let m0 = &msgs[0];
        let msg = arrow_ipc::root_as_message(&bytes[start + m0.meta.0..start + m0.meta.0 + m0.meta.1]).unwrap();
        arrow_ipc::convert::try_fb_to_schema(msg.header_as_schema().unwrap()).unwrap()
    };
    for m in &msgs {
        let meta = &bytes[start + m.meta.0..start + m.meta.0 + m.meta.1];
        let msg = arrow_ipc::root_as_message(meta).unwrap();
        if msg.header_type() == MessageHeader::RecordBatch {
            wire.push("b".to_string());
        } else if msg.header_type() == MessageHeader::DictionaryBatch {
            let d = msg.header_as_dictionary_batch().unwrap();
            let body = Buffer::from_vec(bytes[start + m.body.0..start + m.body.0 + m.body.1].to_vec());
            // decode exactly this message's values with the real reader (delta: onto an empty dictionary)
            let mut scratch: HashMap<i64, ArrayRef> = HashMap::new();
            if d.isDelta() {
                scratch.insert(d.id(), Arc::new(Int32Array::from(Vec::<i32>::new())));
            }
            arrow_ipc::reader::read_dictionary(&body, d, &wire_schema, &mut scratch, &msg.version()).unwrap();
            let vals = scratch[&d.id()].as_primitive::<Int32Type>();
            let v: Vec<String> = vals.iter().map(|x| x.map(|x| x.to_string()).unwrap_or("n".into())).collect();
            wire.push(format!("d{}:{}:{}", d.id(), if d.isDelta() { 1 } else { 0 }, dots(&v)));
        }
    }
    // decode with the real reader
    let mut decoded = vec![];
    let rd: Box<dyn Iterator<Item = Result<RecordBatch, ArrowError>>> = if file {
        Box::new(FileReader::try_new(Cursor::new(bytes.clone()), None).unwrap())
    } else {
        Box::new(StreamReader::try_new(Cursor::new(bytes.clone()), None).unwrap())
    };
    for b in rd {
        match b {
            Ok(b) => decoded.push(b.columns().iter().map(dict_col_values).collect::<Vec<_>>().join("+")),
            Err(e) => return format!("{} READ-{}", wire.join(","), err_class(&e)),
        }
    }
    format!(
        "{} {} {}",
        if wire.is_empty() { "-".to_string() } else { wire.join(",") },
        if decoded.is_empty() { "-".to_string() } else { decoded.join(";") },
        status
    )
}

// ------------------------------------------------------------------------------------ round trip: generators

struct Ctx {
    pool: HashMap<String, ArrayRef>,
    evo: u8, // 0 same (shared Arc), 1 same values new arrays, 2 extend, 3 replace, 4 mixed
    batch: usize,
}

fn gen_nulls(rng: &mut Rng, n: usize) -> Option<NullBuffer> {
    if rng.chance(1, 3) {
        return None;
    }
    let off = rng.usize(11);
    let b = Buffer::from_vec(rng.bytes((off + n + 7) / 8 + 1));
    Some(NullBuffer::new(BooleanBuffer::new(b, off, n)))
}

fn prim_width(dt: &DataType) -> Option<usize> {
    Some(match dt {
        DataType::Int8 | DataType::UInt8 => 1,
        DataType::Int16 | DataType::UInt16 | DataType::Float16 => 2,
        DataType::Int32 | DataType::UInt32 | DataType::Float32 | DataType::Date32 | DataType::Time32(_) => 4,
        DataType::Int64 | DataType::UInt64 | DataType::Float64 | DataType::Date64 | DataType::Time64(_) | DataType::Timestamp(_, _) | DataType::Duration(_) => 8,
        DataType::Interval(IntervalUnit::YearMonth) => 4,
        DataType::Interval(IntervalUnit::DayTime) => 8,
        DataType::Interval(IntervalUnit::MonthDayNano) => 16,
        DataType::FixedSizeBinary(w) => *w as usize,
        _ => return None,
    })
}

fn leaf_types() -> Vec<DataType> {
    vec![
        DataType::Null,
        DataType::Boolean,
        DataType::Int8,
        DataType::Int16,
        DataType::Int32,
        DataType::Int64,
        DataType::UInt8,
        DataType::UInt16,
        DataType::UInt32,
        DataType::UInt64,
        DataType::Float16,
        DataType::Float32,
        DataType::Float64,
        DataType::Date32,
        DataType::Date64,
        DataType::Time32(TimeUnit::Second),
        DataType::Time32(TimeUnit::Millisecond),
        DataType::Time64(TimeUnit::Microsecond),
        DataType::Time64(TimeUnit::Nanosecond),
        DataType::Timestamp(TimeUnit::Second, None),
        DataType::Timestamp(TimeUnit::Millisecond, Some("UTC".into())),
        DataType::Timestamp(TimeUnit::Microsecond, Some("+05:30".into())),
        DataType::Timestamp(TimeUnit::Nanosecond, None),
        DataType::Duration(TimeUnit::Second),
        DataType::Duration(TimeUnit::Nanosecond),
        DataType::Interval(IntervalUnit::YearMonth),
        DataType::Interval(IntervalUnit::DayTime),
        DataType::Interval(IntervalUnit::MonthDayNano),
        DataType::Decimal32(9, 2),
        DataType::Decimal64(18, 3),
        DataType::Decimal128(38, 10),
        DataType::Decimal128(5, -2),
        DataType::Decimal256(76, 5),
        DataType::Utf8,
        DataType::LargeUtf8,
        DataType::Binary,
        DataType::LargeBinary,
        DataType::FixedSizeBinary(3),
        DataType::FixedSizeBinary(0),
        DataType::Utf8View,
        DataType::BinaryView,
    ]
}

fn gen_meta(rng: &mut Rng) -> HashMap<String, String> {
    let mut m = HashMap::new();
    if rng.chance(1, 3) {
        for i in 0..1 + rng.usize(2) {
            m.insert(format!("k{}", i), format!("v{}", rng.usize(100)));
        }
    }
    m
}

fn field(rng: &mut Rng, name: &str, dt: DataType) -> Field {
    Field::new(name, dt, true).with_metadata(gen_meta(rng))
}

/// which part of the type space a round-trip case may use (`std` excludes the three
/// configurations with confirmed defects, which have their own domains)
#[derive(Clone, Copy)]
struct Dom {
    ree: bool,              // RunEndEncoded allowed at all (not with metadata V4 in `std`)
    sliced_children: bool,  // below a List/LargeList/Map/FixedSizeList/Dictionary parent (children written from a sliced ArrayData)
    ree_sliced: bool,       // RunEndEncoded allowed below such a parent
    union_sliced: bool,     // Union allowed below such a parent
}

fn tfield(rng: &mut Rng, name: &str, depth: usize, dom: Dom) -> Field {
    let t = gen_type(rng, depth, dom);
    field(rng, name, t)
}

fn gen_type(rng: &mut Rng, depth: usize, dom: Dom) -> DataType {
    let leaves = leaf_types();
    if depth == 0 || rng.chance(2, 5) {
        return rng.pick(&leaves).clone();
    }
    let below = Dom { sliced_children: true, ..dom };
    let mut k = rng.below(12);
    if (k == 7 && (!dom.ree || (dom.sliced_children && !dom.ree_sliced))) || ((k == 8 || k == 9) && dom.sliced_children && !dom.union_sliced) {
        k = 3;
    }
    match k {
        0 => DataType::List(Arc::new(tfield(rng, "item", depth - 1, below))),
        1 => DataType::LargeList(Arc::new(tfield(rng, "element", depth - 1, below))),
        2 => DataType::FixedSizeList(Arc::new(tfield(rng, "item", depth - 1, below)), rng.usize(4) as i32),
        3 => {
            let n = rng.usize(4);
            DataType::Struct((0..n).map(|i| tfield(rng, &format!("f{i}"), depth - 1, dom)).collect())
        }
        4 => {
            let kt = rng.pick(&[DataType::Utf8, DataType::Int32, DataType::LargeBinary]).clone();
            let entries = Field::new(
                "entries",
                DataType::Struct(vec![Field::new("key", kt, false), tfield(rng, "value", depth - 1, below)].into()),
                false,
            );
            DataType::Map(Arc::new(entries), false)
        }
        5 | 6 => {
            let kt = rng.pick(&[DataType::Int8, DataType::Int16, DataType::Int32, DataType::Int64, DataType::UInt8, DataType::UInt16, DataType::UInt32, DataType::UInt64]).clone();
            let mut vt = gen_type(rng, depth - 1, below);
            while matches!(vt, DataType::Dictionary(_, _) | DataType::Null | DataType::RunEndEncoded(_, _) | DataType::Union(_, _)) {
                vt = rng.pick(&leaves).clone();
            }
            DataType::Dictionary(Box::new(kt), Box::new(vt))
        }
        7 => {
            let rt = rng.pick(&[DataType::Int16, DataType::Int32, DataType::Int64]).clone();
            let mut vt = gen_type(rng, depth - 1, dom);
            while matches!(vt, DataType::RunEndEncoded(_, _)) {
                vt = rng.pick(&leaves).clone();
            }
            DataType::RunEndEncoded(Arc::new(Field::new("run_ends", rt, false)), Arc::new(Field::new("values", vt, true)))
        }
        8 | 9 => {
            let n = 1 + rng.usize(3);
            let ids: Vec<i8> = (0..n).map(|i| (i * 3 + 1) as i8).collect();
            let fields: Vec<Field> = (0..n).map(|i| tfield(rng, &format!("u{i}"), depth - 1, dom)).collect();
            DataType::Union(UnionFields::try_new(ids, fields).unwrap(), if rng.bool() { UnionMode::Sparse } else { UnionMode::Dense })
        }
        10 => DataType::ListView(Arc::new(tfield(rng, "item", depth - 1, below))),
        _ => DataType::LargeListView(Arc::new(tfield(rng, "item", depth - 1, below))),
    }
}

fn gen_offsets(rng: &mut Rng, n: usize) -> Vec<usize> {
    let mut v = vec![if rng.chance(1, 2) { 0 } else { rng.usize(5) }];
    for _ in 0..n {
        let last = *v.last().unwrap();
        v.push(last + if rng.chance(1, 3) { 0 } else { rng.usize(4) });
    }
    v
}

fn gen_strings(rng: &mut Rng, n: usize, long: bool) -> Vec<Vec<u8>> {
    (0..n)
        .map(|_| {
            // inline-view boundary: 12 bytes inline, 13 in a data buffer
            let big = 13 + rng.usize(20);
            let l = if long && rng.chance(1, 3) { *rng.pick(&[12usize, 13, big]) } else { rng.usize(6) };
            (0..l).map(|_| b'a' + rng.usize(26) as u8).collect()
        })
        .collect()
}

fn gen_array(rng: &mut Rng, dt: &DataType, n: usize, ctx: &mut Ctx, path: &str) -> ArrayRef {
    if let Some(w) = prim_width(dt) {
        let data = ArrayData::builder(dt.clone()).len(n).add_buffer(Buffer::from(rng.bytes(n * w).as_slice())).nulls(gen_nulls(rng, n)).build().unwrap();
        return make_array(data);
    }
    match dt {
        DataType::Null => Arc::new(NullArray::new(n)),
        DataType::Boolean => {
            let off = rng.usize(9);
            let b = Buffer::from_vec(rng.bytes((off + n + 7) / 8));
            Arc::new(BooleanArray::new(BooleanBuffer::new(b, off, n), gen_nulls(rng, n)))
        }
        DataType::Decimal32(p, s) => {
            let m = 10i64.pow(*p as u32);
            let v: Vec<i32> = (0..n).map(|_| (rng.range(-(m - 1), m - 1)) as i32).collect();
            Arc::new(Decimal32Array::new(v.into(), gen_nulls(rng, n)).with_precision_and_scale(*p, *s).unwrap())
        }
        DataType::Decimal64(p, s) => {
            let m = 10i64.pow(*p as u32);
            let v: Vec<i64> = (0..n).map(|_| rng.range(-(m - 1), m - 1)).collect();
            Arc::new(Decimal64Array::new(v.into(), gen_nulls(rng, n)).with_precision_and_scale(*p, *s).unwrap())
        }
        DataType::Decimal128(p, s) => {
            let v: Vec<i128> = (0..n).map(|_| rng.range(-99999, 99999) as i128).collect();
            Arc::new(Decimal128Array::new(v.into(), gen_nulls(rng, n)).with_precision_and_scale(*p, *s).unwrap())
        }
        DataType::Decimal256(p, s) => {
            let v: Vec<i256> = (0..n).map(|_| i256::from_i128(rng.next_u64() as i128 * rng.range(-1000, 1000) as i128)).collect();
            Arc::new(Decimal256Array::new(v.into(), gen_nulls(rng, n)).with_precision_and_scale(*p, *s).unwrap())
        }
        DataType::Utf8 | DataType::Binary | DataType::LargeUtf8 | DataType::LargeBinary => {
            // offsets that need not start at 0, with unreferenced bytes before and after
            let vals = gen_strings(rng, n, false);
            let pre = if rng.bool() { 0 } else { rng.usize(4) };
            let mut data = vec![b'#'; pre];
            let mut offs = vec![pre];
            for v in &vals {
                data.extend_from_slice(v);
                offs.push(data.len());
            }
            data.extend(vec![b'#'; rng.usize(3)]);
            let large = matches!(dt, DataType::LargeUtf8 | DataType::LargeBinary);
            let ob = if large {
                Buffer::from_vec(offs.iter().map(|x| *x as i64).collect::<Vec<_>>())
            } else {
                Buffer::from_vec(offs.iter().map(|x| *x as i32).collect::<Vec<_>>())
            };
            let d = ArrayData::builder(dt.clone()).len(n).add_buffer(ob).add_buffer(Buffer::from_vec(data)).nulls(gen_nulls(rng, n)).build().unwrap();
            make_array(d)
        }
        DataType::Utf8View => {
            let vals = gen_strings(rng, n, true);
            let nulls = gen_nulls(rng, n);
            let a = StringViewArray::from_iter_values(vals.iter().map(|v| std::str::from_utf8(v).unwrap()));
            let (views, bufs, _) = a.into_parts();
            Arc::new(StringViewArray::new(views, bufs, nulls))
        }
        DataType::BinaryView => {
            let vals = gen_strings(rng, n, true);
            let nulls = gen_nulls(rng, n);
            let a = BinaryViewArray::from_iter_values(vals.iter());
            let (views, bufs, _) = a.into_parts();
            Arc::new(BinaryViewArray::new(views, bufs, nulls))
        }
        DataType::List(f) | DataType::LargeList(f) | DataType::Map(f, _) => {
            let offs = gen_offsets(rng, n);
            let total = *offs.last().unwrap() + rng.usize(3);
            let child = if let DataType::Map(_, _) = dt {
                // entries: non-null struct with non-null keys
                let DataType::Struct(fs) = f.data_type() else { unreachable!() };
                let keys = gen_array_nonnull(rng, fs[0].data_type(), total);
                let vals = gen_array(rng, fs[1].data_type(), total, ctx, &format!("{path}/v"));
                Arc::new(StructArray::try_new_with_length(fs.clone(), vec![keys, vals], None, total).unwrap()) as ArrayRef
            } else {
                gen_array(rng, f.data_type(), total, ctx, &format!("{path}/i"))
            };
            let nulls = gen_nulls(rng, n);
            match dt {
                DataType::List(_) => Arc::new(ListArray::try_new(f.clone(), OffsetBuffer::new(offs.iter().map(|x| *x as i32).collect::<Vec<_>>().into()), child, nulls).unwrap()),
                DataType::LargeList(_) => Arc::new(LargeListArray::try_new(f.clone(), OffsetBuffer::new(offs.iter().map(|x| *x as i64).collect::<Vec<_>>().into()), child, nulls).unwrap()),
                _ => Arc::new(MapArray::try_new(f.clone(), OffsetBuffer::new(offs.iter().map(|x| *x as i32).collect::<Vec<_>>().into()), child.as_struct().clone(), nulls, false).unwrap()),
            }
        }
        DataType::ListView(f) | DataType::LargeListView(f) => {
            let total = rng.usize(2 * n + 3);
            let child = gen_array(rng, f.data_type(), total, ctx, &format!("{path}/i"));
            let mut offs = vec![];
            let mut sizes = vec![];
            for _ in 0..n {
                let o = rng.usize(total + 1);
                let s = rng.usize((total - o).min(3) + 1);
                offs.push(o);
                sizes.push(s);
            }
            let nulls = gen_nulls(rng, n);
            if let DataType::ListView(_) = dt {
                Arc::new(ListViewArray::try_new(f.clone(), offs.iter().map(|x| *x as i32).collect::<Vec<_>>().into(), sizes.iter().map(|x| *x as i32).collect::<Vec<_>>().into(), child, nulls).unwrap())
            } else {
                Arc::new(LargeListViewArray::try_new(f.clone(), offs.iter().map(|x| *x as i64).collect::<Vec<_>>().into(), sizes.iter().map(|x| *x as i64).collect::<Vec<_>>().into(), child, nulls).unwrap())
            }
        }
        DataType::FixedSizeList(f, k) => {
            let child = gen_array(rng, f.data_type(), n * *k as usize, ctx, &format!("{path}/i"));
            Arc::new(FixedSizeListArray::try_new_with_length(f.clone(), *k, child, gen_nulls(rng, n), n).unwrap())
        }
        DataType::Struct(fs) => {
            let cols: Vec<ArrayRef> = fs.iter().enumerate().map(|(i, f)| gen_array(rng, f.data_type(), n, ctx, &format!("{path}/{i}"))).collect();
            Arc::new(StructArray::try_new_with_length(fs.clone(), cols, gen_nulls(rng, n), n).unwrap())
        }
        DataType::Dictionary(kt, vt) => {
            // usually small; sometimes exactly the capacity of the key type (key = 127 / 255 used)
            let cap = match kt.as_ref() { DataType::Int8 => 128, DataType::UInt8 => 256, _ => 300 };
            let fresh_len = if rng.chance(1, 8) { cap } else { 1 + rng.usize(5) };
            let action = if ctx.batch == 0 || !ctx.pool.contains_key(path) {
                3
            } else if ctx.evo == 4 {
                rng.usize(4) as u8
            } else {
                ctx.evo
            };
            let values: ArrayRef = match action {
                0 => ctx.pool[path].clone(),
                1 => arrow_select::concat::concat(&[ctx.pool[path].as_ref()]).unwrap(),
                2 => {
                    let k = 1 + rng.usize(3);
                    let extra = gen_array(rng, vt, k, &mut Ctx { pool: HashMap::new(), evo: 3, batch: 0 }, "x");
                    arrow_select::concat::concat(&[ctx.pool[path].as_ref(), extra.as_ref()]).unwrap()
                }
                _ => gen_array(rng, vt, fresh_len, &mut Ctx { pool: HashMap::new(), evo: 3, batch: 0 }, "x"),
            };
            ctx.pool.insert(path.to_string(), values.clone());
            let dl = values.len();
            let nulls = gen_nulls(rng, n);
            macro_rules! mk {
                ($t:ty, $nat:ty) => {{
                    let kmax = dl.min(cap);
                    let keys: Vec<$nat> = (0..n).map(|i| if i == 0 { kmax.saturating_sub(1) } else { rng.usize(kmax.max(1)) } as $nat).collect();
                    Arc::new(DictionaryArray::<$t>::try_new(PrimitiveArray::<$t>::new(keys.into(), nulls), values).unwrap()) as ArrayRef
                }};
            }
            match kt.as_ref() {
                DataType::Int8 => mk!(Int8Type, i8),
                DataType::Int16 => mk!(Int16Type, i16),
                DataType::Int32 => mk!(Int32Type, i32),
                DataType::Int64 => mk!(Int64Type, i64),
                DataType::UInt8 => mk!(UInt8Type, u8),
                DataType::UInt16 => mk!(UInt16Type, u16),
                DataType::UInt32 => mk!(UInt32Type, u32),
                _ => mk!(UInt64Type, u64),
            }
        }
        DataType::RunEndEncoded(rf, vf) => {
            let mut ends = vec![];
            let mut cur = 0usize;
            while cur < n {
                cur += 1 + rng.usize(4);
                ends.push(cur.min(n));
                cur = cur.min(n);
            }
            let vals = gen_array(rng, vf.data_type(), ends.len(), ctx, &format!("{path}/r"));
            match rf.data_type() {
                DataType::Int16 => Arc::new(RunArray::<Int16Type>::try_new(&Int16Array::from(ends.iter().map(|x| *x as i16).collect::<Vec<_>>()), vals.as_ref()).unwrap()),
                DataType::Int32 => Arc::new(RunArray::<Int32Type>::try_new(&Int32Array::from(ends.iter().map(|x| *x as i32).collect::<Vec<_>>()), vals.as_ref()).unwrap()),
                _ => Arc::new(RunArray::<Int64Type>::try_new(&Int64Array::from(ends.iter().map(|x| *x as i64).collect::<Vec<_>>()), vals.as_ref()).unwrap()),
            }
        }
        DataType::Union(fields, mode) => {
            let ids: Vec<i8> = fields.iter().map(|(i, _)| i).collect();
            let type_ids: Vec<i8> = (0..n).map(|_| *rng.pick(&ids)).collect();
            match mode {
                UnionMode::Sparse => {
                    let children = fields.iter().map(|(i, f)| gen_array(rng, f.data_type(), n, ctx, &format!("{path}/u{i}"))).collect();
                    Arc::new(UnionArray::try_new(fields.clone(), type_ids.into(), None, children).unwrap())
                }
                UnionMode::Dense => {
                    let mut counts: HashMap<i8, i32> = HashMap::new();
                    let offsets: Vec<i32> = type_ids
                        .iter()
                        .map(|t| {
                            let c = counts.entry(*t).or_insert(0);
                            *c += 1;
                            *c - 1
                        })
                        .collect();
                    let children = fields
                        .iter()
                        .map(|(i, f)| {
                            let extra = rng.usize(2);
                            gen_array(rng, f.data_type(), *counts.get(&i).unwrap_or(&0) as usize + extra, ctx, &format!("{path}/u{i}"))
                        })
                        .collect();
                    Arc::new(UnionArray::try_new(fields.clone(), type_ids.into(), Some(offsets.into()), children).unwrap())
                }
            }
        }
        other => panic!("unsupported type in generator: {other}"),
    }
}

fn gen_array_nonnull(rng: &mut Rng, dt: &DataType, n: usize) -> ArrayRef {
    match dt {
        DataType::Int32 => Arc::new(Int32Array::from((0..n).map(|_| rng.range(-50, 50) as i32).collect::<Vec<_>>())),
        DataType::Utf8 => Arc::new(StringArray::from_iter_values(gen_strings(rng, n, false).iter().map(|v| String::from_utf8(v.clone()).unwrap()))),
        _ => Arc::new(LargeBinaryArray::from_iter_values(gen_strings(rng, n, false).iter())),
    }
}

// ------------------------------------------------------------------------------------ round trip: oracle

fn fmt_rows(a: &dyn Array) -> Result<Vec<String>, String> {
    use arrow_cast::display::{ArrayFormatter, FormatOptions};
    let o = FormatOptions::default().with_null("<NULL>");
    let f = ArrayFormatter::try_new(a, &o).map_err(|e| e.to_string())?;
    (0..a.len()).map(|i| f.value(i).try_to_string().map_err(|e| e.to_string())).collect()
}

/// logical equality of two arrays: `ArrayData ==` where it is implemented; the cell-by-cell text
/// rendering otherwise (sliced run-end arrays)
fn logically_equal(a: &ArrayRef, b: &ArrayRef) -> bool {
    if a.data_type() != b.data_type() || a.len() != b.len() {
        return false;
    }
    let eq = std::panic::catch_unwind(std::panic::AssertUnwindSafe(|| a.to_data() == b.to_data()));
    match eq {
        Ok(true) => true,
        _ => match (fmt_rows(a.as_ref()), fmt_rows(b.as_ref())) {
            (Ok(x), Ok(y)) => x == y,
            _ => false,
        },
    }
}

fn compare_batches(exp: &[RecordBatch], got: &[RecordBatch]) -> Option<String> {
    if exp.len() != got.len() {
        return Some(format!("batch count {} != {}", got.len(), exp.len()));
    }
    for (i, (e, g)) in exp.iter().zip(got).enumerate() {
        if e.schema() != g.schema() {
            return Some(format!("batch {i}: schema differs"));
        }
        if e.num_rows() != g.num_rows() {
            return Some(format!("batch {i}: rows {} != {}", g.num_rows(), e.num_rows()));
        }
        for (j, (a, b)) in e.columns().iter().zip(g.columns()).enumerate() {
            if !logically_equal(a, b) {
                return Some(format!("batch {i} column {j} ({}) differs", a.data_type()));
            }
        }
    }
    None
}

struct RtCase {
    writer: String,
    reader: String,
    align: usize,
    ver: u8,
    legacy: bool,
    codec: String,
    delta: bool,
    evo: u8,
    proj: Option<Vec<usize>>,
    seed: u64,
    dom: String,
    /// forced row count of every batch (dense size-class block), or None
    rows: Option<usize>,
}

fn has_type(dt: &DataType, pred: &dyn Fn(&DataType) -> bool) -> bool {
    if pred(dt) {
        return true;
    }
    match dt {
        DataType::List(f) | DataType::LargeList(f) | DataType::FixedSizeList(f, _) | DataType::Map(f, _) | DataType::ListView(f) | DataType::LargeListView(f) => has_type(f.data_type(), pred),
        DataType::Struct(fs) => fs.iter().any(|f| has_type(f.data_type(), pred)),
        DataType::Union(fs, _) => fs.iter().any(|(_, f)| has_type(f.data_type(), pred)),
        DataType::Dictionary(_, v) => has_type(v, pred),
        DataType::RunEndEncoded(_, v) => has_type(v.data_type(), pred),
        _ => false,
    }
}

fn build_batches(c: &RtCase) -> (SchemaRef, Vec<RecordBatch>, String) {
    let mut rng = Rng::new(c.seed ^ 0xC04_0BA7);
    let ncols = if rng.chance(1, 10) { 0 } else { 1 + rng.usize(4) };
    let depth = rng.usize(3);
    let mut tags = String::new();
    // (run ends under V4, run ends / unions below sliced parents used to be separate known-defect
    // domains; they are repaired and part of the standard domain now)
    let dom = Dom { ree: true, sliced_children: false, ree_sliced: true, union_sliced: true };
    let mut fields: Vec<Field> = (0..ncols).map(|i| tfield(&mut rng, &format!("c{i}"), depth, dom)).collect();
    // the special domains force the feature they are about into column 0
    if c.dom != "std" {
        let i32f = |n: &str| Arc::new(Field::new(n, DataType::Int32, true));
        let ree = DataType::RunEndEncoded(Arc::new(Field::new("run_ends", DataType::Int32, false)), i32f("values"));
        let un = DataType::Union(UnionFields::try_new(vec![0, 1], vec![Field::new("a", DataType::Int32, true), Field::new("b", DataType::Utf8, true)]).unwrap(), if rng.bool() { UnionMode::Sparse } else { UnionMode::Dense });
        let t = match c.dom.as_str() {
            "ree-v4" | "ree-empty" => ree,
            "decoder-unaligned" => DataType::Union(UnionFields::try_new(vec![0, 1], vec![Field::new("a", DataType::Int32, true), Field::new("b", DataType::Utf8, true)]).unwrap(), UnionMode::Dense),
            _ => if rng.bool() { DataType::List(Arc::new(Field::new("item", un, true))) } else { DataType::FixedSizeList(Arc::new(Field::new("item", un, true)), 2) },
        };
        if fields.is_empty() {
            fields.push(Field::new("c0", t, true));
        } else {
            fields[0] = Field::new("c0", t, true);
        }
    }
    let ncols = fields.len();
    for f in &fields {
        let s = f.data_type().to_string();
        let head: String = s.chars().take_while(|c| c.is_alphanumeric()).collect();
        tags.push_str(&format!("ty:{} ", head));
        if s.matches("Dictionary").count() > 1 || (s.contains("Dictionary") && !s.starts_with("Dictionary")) {
            tags.push_str("nested-dict ");
        }
    }
    let schema = Arc::new(Schema::new_with_metadata(fields, gen_meta(&mut rng)));
    let nb = if c.rows.is_some() { 2 } else { rng.usize(5) };
    let mut ctx = Ctx { pool: HashMap::new(), evo: c.evo, batch: 0 };
    let mut batches = vec![];
    for bi in 0..nb {
        ctx.batch = bi;
        let rows = match c.rows {
            Some(r) => r,
            None => if rng.chance(1, 4) { 0 } else { 1 + rng.usize(40) },
        };
        if rows == 0 {
            tags.push_str("empty-batch ");
        }
        let mut cols = vec![];
        for (i, f) in schema.fields().iter().enumerate() {
            let (mut pre, post) = if rng.chance(1, 2) { (rng.usize(10), rng.usize(4)) } else { (0, 0) };
            // a zero-length slice at a non-zero offset of a run-end array is the `ree-empty` domain
            if c.dom == "ree-empty" && i == 0 && rows == 0 {
                pre = 1 + rng.usize(5);
            }
            let a = gen_array(&mut rng, f.data_type(), pre + rows + post, &mut ctx, &format!("c{i}"));
            cols.push(if pre + post > 0 {
                if pre % 8 != 0 {
                    tags.push_str("sliced-unaligned ");
                }
                a.slice(pre, rows)
            } else {
                a
            });
        }
        let o = RecordBatchOptions::new().with_row_count(Some(rows));
        batches.push(RecordBatch::try_new_with_options(schema.clone(), cols, &o).unwrap());
    }
    if ncols == 0 {
        tags.push_str("zero-columns ");
    }
    (schema, batches, tags)
}

fn rt_options(c: &RtCase) -> Result<IpcWriteOptions, ArrowError> {
    let ver = if c.ver == 4 { MetadataVersion::V4 } else { MetadataVersion::V5 };
    let o = IpcWriteOptions::try_new(c.align, c.legacy, ver)?;
    let o = match c.codec.as_str() {
        "lz4" => o.try_with_compression(Some(CompressionType::LZ4_FRAME))?,
        "zstd" => o.try_with_compression(Some(CompressionType::ZSTD))?,
        "zstdL" => o.try_with_compression(Some(CompressionType::ZSTD))?.try_with_compression_level(Some(7))?,
        _ => o,
    };
    Ok(o.with_dictionary_handling(if c.delta { DictionaryHandling::Delta } else { DictionaryHandling::Resend }))
}

/// returns (answer, oracle failure, extra tags)
fn run_rt(t: &[&str]) -> (String, Option<String>, String) {
    let c = RtCase {
        writer: t[2].into(),
        reader: t[3].into(),
        align: t[4].parse().unwrap(),
        ver: t[5].parse().unwrap(),
        legacy: t[6] == "1",
        codec: t[7].into(),
        delta: t[8] == "delta",
        evo: t[9].parse().unwrap(),
        proj: if t[10] == "-" { None } else { Some(parse_list::<usize>(t[10])) },
        seed: t[11].parse().unwrap(),
        dom: t[12].into(),
        rows: t.get(13).map(|x| x.parse().unwrap()),
    };
    let (schema, batches, mut tags) = build_batches(&c);
    if std::env::var("VERIF_DEBUG").is_ok() {
        eprintln!("{:#?}", schema);
        for b in &batches {
            for col in b.columns() {
                eprintln!("{:?}", col.to_data());
            }
        }
    }
    let o = match rt_options(&c) {
        Ok(o) => o,
        Err(e) => return (err_class(&e).into(), Some("options rejected".into()), tags),
    };
    // write
    let written: Result<Vec<u8>, (usize, ArrowError)> = (|| {
        match c.writer.as_str() {
            "file" => {
                let mut w = FileWriter::try_new_with_options(Vec::new(), &schema, o.clone()).map_err(|e| (usize::MAX, e))?;
                w.write_metadata("custom", "meta");
                for (i, b) in batches.iter().enumerate() {
                    w.write(b).map_err(|e| (i, e))?;
                }
                w.finish().map_err(|e| (usize::MAX, e))?;
                w.into_inner().map_err(|e| (usize::MAX, e))
            }
            "stream" => {
                let mut w = StreamWriter::try_new_with_options(Vec::new(), &schema, o.clone()).map_err(|e| (usize::MAX, e))?;
                for (i, b) in batches.iter().enumerate() {
                    w.write(b).map_err(|e| (i, e))?;
                }
                w.finish().map_err(|e| (usize::MAX, e))?;
                w.into_inner().map_err(|e| (usize::MAX, e))
            }
            "bfile" => {
                // `try_new_buffered` (BufWriter, default options)
                let mut out = Vec::new();
                {
                    let mut w = FileWriter::try_new_buffered(&mut out, &schema).map_err(|e| (usize::MAX, e))?;
                    w.write_metadata("custom", "meta");
                    for (i, b) in batches.iter().enumerate() {
                        w.write(b).map_err(|e| (i, e))?;
                        if i == 0 {
                            w.flush().map_err(|e| (usize::MAX, e))?;
                        }
                    }
                    let _ = w.schema();
                    w.finish().map_err(|e| (usize::MAX, e))?;
                    // a finished writer refuses further use
                    if w.finish().is_ok() || batches.first().map(|b| w.write(b).is_ok()).unwrap_or(false) {
                        return Err((usize::MAX, ArrowError::IpcError("finished FileWriter accepted write/finish".into())));
                    }
                }
                Ok(out)
            }
            "bstream" => {
                let mut out = Vec::new();
                {
                    let mut w = StreamWriter::try_new_buffered(&mut out, &schema).map_err(|e| (usize::MAX, e))?;
                    for (i, b) in batches.iter().enumerate() {
                        w.write(b).map_err(|e| (i, e))?;
                        if i == 0 {
                            w.flush().map_err(|e| (usize::MAX, e))?;
                        }
                    }
                    w.finish().map_err(|e| (usize::MAX, e))?;
                    if w.finish().is_ok() || batches.first().map(|b| w.write(b).is_ok()).unwrap_or(false) {
                        return Err((usize::MAX, ArrowError::IpcError("finished StreamWriter accepted write/finish".into())));
                    }
                }
                Ok(out)
            }
            "tfile" => {
                // through the `RecordBatchWriter` trait (write + close)
                let mut out = Vec::new();
                {
                    let mut w = FileWriter::try_new_with_options(&mut out, &schema, o.clone()).map_err(|e| (usize::MAX, e))?;
                    w.write_metadata("custom", "meta");
                    for (i, b) in batches.iter().enumerate() {
                        RecordBatchWriter::write(&mut w, b).map_err(|e| (i, e))?;
                    }
                    RecordBatchWriter::close(w).map_err(|e| (usize::MAX, e))?;
                }
                Ok(out)
            }
            "tstream" => {
                let mut out = Vec::new();
                {
                    let mut w = StreamWriter::try_new_with_options(&mut out, &schema, o.clone()).map_err(|e| (usize::MAX, e))?;
                    for (i, b) in batches.iter().enumerate() {
                        RecordBatchWriter::write(&mut w, b).map_err(|e| (i, e))?;
                    }
                    RecordBatchWriter::close(w).map_err(|e| (usize::MAX, e))?;
                }
                Ok(out)
            }
            "gen" => {
                // the low-level path Flight uses: IpcDataGenerator::encode (contiguous body) + write_message
                let data_gen = IpcDataGenerator::default();
                let mut tracker = DictionaryTracker::new(false);
                let mut wctx = arrow_ipc::writer::IpcWriteContext::default();
                let mut out = Vec::new();
                let enc = data_gen.schema_to_bytes_with_dictionary_tracker(&schema, &mut tracker, &o);
                write_message(&mut out, enc, &o).map_err(|e| (usize::MAX, e))?;
                for (i, b) in batches.iter().enumerate() {
                    wctx.set_reserve_scratch(i % 2 == 0);
                    let (dicts, batch) = data_gen.encode(b, &mut tracker, &o, &mut wctx).map_err(|e| (i, e))?;
                    for d in dicts {
                        write_message(&mut out, d, &o).map_err(|e| (i, e))?;
                    }
                    write_message(&mut out, batch, &o).map_err(|e| (i, e))?;
                }
                if c.seed % 2 == 0 || c.reader.starts_with("decoder") {
                    // explicit end-of-stream marker (otherwise: plain EOF, which `StreamReader` accepts;
                    // `StreamDecoder` needs the marker to flush a last message with an empty body)
                    if !c.legacy {
                        out.extend_from_slice(&[0xff; 4]);
                    }
                    out.extend_from_slice(&[0; 4]);
                }
                Ok(out)
            }
            _ => {
                let mut w = StreamEncoder::try_new_with_options(&schema, o.clone()).map_err(|e| (usize::MAX, e))?;
                let mut out = vec![];
                for (i, b) in batches.iter().enumerate() {
                    for buf in w.encode(b).map_err(|e| (i, e))? {
                        out.extend_from_slice(buf.as_slice());
                    }
                }
                for buf in w.finish().map_err(|e| (usize::MAX, e))? {
                    out.extend_from_slice(buf.as_slice());
                }
                Ok(out)
            }
        }
    })();
    let bytes = match written {
        Ok(b) => b,
        Err((i, e)) => {
            // the only acceptable write error: the file writer rejecting a changed dictionary
            let replacement = matches!(&e, ArrowError::InvalidArgumentError(m) if m.contains("Dictionary replacement detected"));
            let allowed = replacement && c.writer.ends_with("file") && i != usize::MAX && i > 0 && (c.evo >= 3 || (c.evo == 2 && !c.delta));
            tags.push_str("write-err ");
            if allowed {
                tags.push_str("exp:file-dict-replacement ");
                return ("ok".into(), None, tags);
            }
            return (err_class(&e).into(), Some(format!("write of batch {i} failed: {e}")), tags);
        }
    };
    // read
    let proj = c.proj.clone();
    let got: Result<(SchemaRef, Vec<RecordBatch>), ArrowError> = (|| match c.reader.as_str() {
        "file" => {
            let r = FileReader::try_new(Cursor::new(bytes.clone()), proj.clone())?;
            let s = r.schema();
            Ok((s, r.collect::<Result<Vec<_>, _>>()?))
        }
        "stream" => {
            let mut r = StreamReader::try_new(Cursor::new(bytes.clone()), proj.clone())?;
            let s = r.schema();
            let mut out = vec![];
            for b in r.by_ref() {
                out.push(b?);
            }
            if !r.is_finished() || r.next().is_some() {
                return Err(ArrowError::IpcError("exhausted StreamReader is not finished".into()));
            }
            Ok((s, out))
        }
        "bfile" => {
            let r = FileReader::try_new_buffered(Cursor::new(bytes.clone()), proj.clone())?;
            let s = r.schema();
            Ok((s, r.collect::<Result<Vec<_>, _>>()?))
        }
        "bstream" => {
            let r = StreamReader::try_new_buffered(Cursor::new(bytes.clone()), proj.clone())?;
            let s = r.schema();
            Ok((s, r.collect::<Result<Vec<_>, _>>()?))
        }
        "svfile" => {
            // skip_validation must not change what a well-formed file decodes to
            let r = unsafe { FileReader::try_new(Cursor::new(bytes.clone()), proj.clone())?.with_skip_validation(true) };
            let s = r.schema();
            Ok((s, r.collect::<Result<Vec<_>, _>>()?))
        }
        "svstream" => {
            let r = unsafe { StreamReader::try_new(Cursor::new(bytes.clone()), proj.clone())?.with_skip_validation(true) };
            let s = r.schema();
            Ok((s, r.collect::<Result<Vec<_>, _>>()?))
        }
        "fbuild" => {
            // FileReaderBuilder + random access with set_index (last batch first, then all in order)
            let mut b = arrow_ipc::reader::FileReaderBuilder::new().with_max_footer_fb_tables(1_000_000).with_max_footer_fb_depth(64);
            if let Some(p) = proj.clone() {
                b = b.with_projection(p);
            }
            let mut r = b.build(Cursor::new(bytes.clone()))?;
            let s = r.schema();
            let n = r.num_batches();
            let mut last = None;
            if n > 0 {
                r.set_index(n - 1)?;
                last = Some(r.next().unwrap()?);
                if r.next().is_some() {
                    return Err(ArrowError::IpcError("batch after the last index".into()));
                }
            }
            if r.set_index(n).is_ok() {
                return Err(ArrowError::IpcError("set_index(num_batches) accepted".into()));
            }
            let mut out = vec![];
            if n > 0 {
                r.set_index(0)?;
                for b in r.by_ref() {
                    out.push(b?);
                }
                if out.last().map(|b| b.num_rows()) != last.as_ref().map(|b| b.num_rows()) {
                    return Err(ArrowError::IpcError("set_index(last) read a different batch".into()));
                }
            }
            Ok((s, out))
        }
        "fdec" => {
            // FileDecoder driven by hand from the footer (the zero-copy / mmap entry point)
            let buffer = Buffer::from(bytes.as_slice());
            let trailer = buffer.len() - 10;
            let flen = arrow_ipc::reader::read_footer_length(buffer[trailer..].try_into().unwrap())?;
            let footer = arrow_ipc::root_as_footer(&buffer[trailer - flen..trailer]).map_err(|e| ArrowError::ParseError(format!("{e:?}")))?;
            let fschema = Arc::new(arrow_ipc::convert::try_fb_to_schema(footer.schema().unwrap())?);
            let mut d = arrow_ipc::reader::FileDecoder::new(fschema.clone(), footer.version()).with_require_alignment(c.seed % 3 == 0 && c.align >= 16 && c.codec == "none");
            if let Some(p) = proj.clone() {
                d = d.with_projection(p);
            }
            for block in footer.dictionaries().iter().flatten() {
                let len = block.bodyLength() as usize + block.metaDataLength() as usize;
                d.read_dictionary(block, &buffer.slice_with_length(block.offset() as _, len))?;
            }
            let mut out = vec![];
            for block in footer.recordBatches().iter().flatten() {
                let len = block.bodyLength() as usize + block.metaDataLength() as usize;
                if let Some(b) = d.read_record_batch(block, &buffer.slice_with_length(block.offset() as _, len))? {
                    out.push(b);
                }
            }
            let s = match &proj {
                Some(p) => Arc::new(fschema.project(p)?),
                None => fschema,
            };
            Ok((s, out))
        }
        _ => {
            // StreamDecoder fed in chunks of varying size
            let mut rng = Rng::new(c.seed ^ 0xDEC0DE);
            let mut out = vec![];
            let mut pos = 0;
            let dense = schema.fields().iter().any(|f| has_type(f.data_type(), &|t| matches!(t, DataType::Union(_, UnionMode::Dense))));
            let _ = dense;
            let whole = c.reader == "decoder-req";
            // `with_require_alignment(true)` is satisfiable when the whole stream sits in one aligned buffer
            let mut d = StreamDecoder::new().with_require_alignment(c.reader == "decoder-req" && c.align >= 16 && c.codec == "none");
            while pos < bytes.len() {
                let n = if whole { bytes.len() } else { (1 + rng.usize(200)).min(bytes.len() - pos) };
                // chunks start at an odd address unless `whole` (64-byte aligned copy)
                let mut buf = if whole { Buffer::from(&bytes[pos..pos + n]) } else {
                    let mut v = vec![0u8; 1];
                    v.extend_from_slice(&bytes[pos..pos + n]);
                    Buffer::from_vec(v).slice(1)
                };
                pos += n;
                while !buf.is_empty() {
                    match d.decode(&mut buf)? {
                        Some(b) => out.push(b),
                        None => break,
                    }
                }
            }
            d.finish()?;
            let s = d.schema().unwrap_or(schema.clone());
            Ok((s, out))
        }
    })();
    let (rschema, rbatches) = match got {
        Ok(x) => x,
        Err(e) => return (err_class(&e).into(), Some(format!("read failed: {e}")), tags),
    };
    // expected: projection = project after full read
    let (eschema, ebatches): (SchemaRef, Vec<RecordBatch>) = match &proj {
        Some(p) if !c.reader.starts_with("decoder") => (Arc::new(schema.project(p).unwrap()), batches.iter().map(|b| b.project(p).unwrap()).collect()),
        _ => (schema.clone(), batches.clone()),
    };
    if *rschema != *eschema {
        return ("MISMATCH".into(), Some("reader schema differs from the written schema".into()), tags);
    }
    if let Some(why) = compare_batches(&ebatches, &rbatches) {
        return ("MISMATCH".into(), Some(why), tags);
    }
    if c.writer.ends_with("file") {
        let r = FileReader::try_new(Cursor::new(bytes.clone()), None).unwrap();
        if r.custom_metadata().get("custom").map(|s| s.as_str()) != Some("meta") {
            return ("MISMATCH".into(), Some("file custom metadata lost".into()), tags);
        }
    }
    ("ok".into(), None, tags)
}

/// minimal hand-written round trips for the configurations with confirmed defects
fn run_probe(name: &str) -> String {
    let i32f = |n: &str| Arc::new(Field::new(n, DataType::Int32, true));
    let (col, ver): (ArrayRef, u8) = match name {
        "ree-v4" | "ree-v5" => {
            let a = RunArray::<Int32Type>::try_new(&Int32Array::from(vec![2, 3]), &Int32Array::from(vec![7, 8])).unwrap();
            (Arc::new(a), if name == "ree-v4" { 4 } else { 5 })
        }
        "ree-empty-slice" => {
            let a = RunArray::<Int32Type>::try_new(&Int32Array::from(vec![2, 4]), &Int32Array::from(vec![7, 8])).unwrap();
            (Arc::new(a.slice(2, 0)), 5)
        }
        "dense-union-unaligned" => {
            let fields = UnionFields::try_new(vec![0, 1], vec![Field::new("a", DataType::Int32, true), Field::new("b", DataType::Int32, true)]).unwrap();
            let u = UnionArray::try_new(fields, vec![0i8, 1, 0].into(), Some(vec![0, 0, 1].into()), vec![Arc::new(Int32Array::from(vec![10, 11])), Arc::new(Int32Array::from(vec![20]))]).unwrap();
            let schema = Arc::new(Schema::new(vec![Field::new("c", u.data_type().clone(), true)]));
            let batch = RecordBatch::try_new(schema.clone(), vec![Arc::new(u)]).unwrap();
            let mut w = StreamWriter::try_new_with_options(Vec::new(), &schema, opts(8, false, 5)).unwrap();
            w.write(&batch).unwrap();
            w.finish().unwrap();
            let bytes = w.into_inner().unwrap();
            // the whole stream in one buffer that starts at an odd address
            let mut v = vec![0u8; 1];
            v.extend_from_slice(&bytes);
            let mut buf = Buffer::from_vec(v).slice(1);
            let mut d = StreamDecoder::new();
            let mut got = vec![];
            while !buf.is_empty() {
                match d.decode(&mut buf) {
                    Ok(Some(b)) => got.push(b),
                    Ok(None) => break,
                    Err(e) => return format!("READ-{}", err_class(&e)),
                }
            }
            return match compare_batches(&[batch], &got) {
                None => "ok".into(),
                Some(why) => format!("MISMATCH({})", why.replace(' ', "_")),
            };
        }
        "dict-listview-resized" | "dict-list-resized" => {
            // two batches whose dictionaries differ only in the size of a list(-view) element, with a null slot
            let mk = |size0: i32| -> ArrayRef {
                let child: ArrayRef = Arc::new(Int32Array::from(vec![1, 2]));
                let f = Arc::new(Field::new("item", DataType::Int32, true));
                let nulls = Some(NullBuffer::from(vec![true, false]));
                let values: ArrayRef = if name == "dict-listview-resized" {
                    Arc::new(ListViewArray::try_new(f, vec![0, 0].into(), vec![size0, 0].into(), child, nulls).unwrap())
                } else {
                    Arc::new(ListArray::try_new(f, OffsetBuffer::new(vec![0, size0, size0].into()), child, nulls).unwrap())
                };
                Arc::new(DictionaryArray::<Int8Type>::try_new(Int8Array::from(vec![0, 0]), values).unwrap())
            };
            let (a, b) = (mk(2), mk(1));
            let schema = Arc::new(Schema::new(vec![Field::new("c", a.data_type().clone(), true)]));
            let batches = vec![RecordBatch::try_new(schema.clone(), vec![a]).unwrap(), RecordBatch::try_new(schema.clone(), vec![b]).unwrap()];
            let mut w = StreamWriter::try_new_with_options(Vec::new(), &schema, opts(8, false, 5)).unwrap();
            for bt in &batches {
                if let Err(e) = w.write(bt) {
                    return format!("WRITE-{}", err_class(&e));
                }
            }
            w.finish().unwrap();
            let bytes = w.into_inner().unwrap();
            let got: Result<Vec<RecordBatch>, ArrowError> = StreamReader::try_new(Cursor::new(bytes), None).and_then(|r| r.collect());
            return match got {
                Err(e) => format!("READ-{}", err_class(&e)),
                Ok(g) => {
                    let rows = |bs: &[RecordBatch]| bs.iter().map(|b| fmt_rows(b.column(0).as_ref()).map(|v| v.join("|")).unwrap_or("?".into())).collect::<Vec<_>>().join(";").replace(' ', "");
                    if rows(&g) == rows(&batches) { "ok".into() } else { format!("MISMATCH:got={}:want={}", rows(&g), rows(&batches)) }
                }
            };
        }
        "union-in-sliced-list-sparse" | "union-in-sliced-list-dense" | "union-in-list-unsliced" => {
            let fields = UnionFields::try_new(vec![0, 1], vec![Field::new("a", DataType::Int32, true), Field::new("b", DataType::Int32, true)]).unwrap();
            let tids: Vec<i8> = vec![0, 1, 0, 1, 1, 0];
            let u = if name.ends_with("dense") {
                UnionArray::try_new(fields.clone(), tids.into(), Some(vec![0, 0, 1, 1, 2, 2].into()), vec![Arc::new(Int32Array::from(vec![10, 11, 12])), Arc::new(Int32Array::from(vec![20, 21, 22]))]).unwrap()
            } else {
                UnionArray::try_new(fields.clone(), tids.into(), None, vec![Arc::new(Int32Array::from(vec![10, 11, 12, 13, 14, 15])), Arc::new(Int32Array::from(vec![20, 21, 22, 23, 24, 25]))]).unwrap()
            };
            let f = Arc::new(Field::new("item", u.data_type().clone(), true));
            let l = ListArray::try_new(f, OffsetBuffer::new(vec![0, 2, 4, 6].into()), Arc::new(u), None).unwrap();
            (if name.ends_with("unsliced") { Arc::new(l) } else { Arc::new(l.slice(1, 2)) }, 5)
        }
        _ => return "bad-op".into(),
    };
    let _ = i32f;
    let schema = Arc::new(Schema::new(vec![Field::new("c", col.data_type().clone(), true)]));
    let batch = RecordBatch::try_new(schema.clone(), vec![col]).unwrap();
    let mut w = StreamWriter::try_new_with_options(Vec::new(), &schema, opts(8, false, ver)).unwrap();
    if let Err(e) = w.write(&batch) {
        return format!("WRITE-{}", err_class(&e));
    }
    w.finish().unwrap();
    let bytes = w.into_inner().unwrap();
    let r = match StreamReader::try_new(Cursor::new(bytes), None) {
        Ok(r) => r,
        Err(e) => return format!("READ-{}", err_class(&e)),
    };
    let got: Result<Vec<RecordBatch>, ArrowError> = r.collect();
    match got {
        Err(e) => format!("READ-{}", err_class(&e)),
        Ok(g) => match compare_batches(&[batch], &g) {
            None => "ok".into(),
            Some(why) => {
                let rows = g.first().map(|b| fmt_rows(b.column(0).as_ref()).map(|v| v.join("|")).unwrap_or("?".into())).unwrap_or_default();
                format!("MISMATCH({}):got={}", why.replace(' ', "_"), rows.replace(' ', ""))
            }
        },
    }
}


// ------------------------------------------------------------------------------------ whole arrays (C09 dump grammar)

fn ty_str(dt: &DataType) -> Option<String> {
    let nb = |f: &Field| if f.is_nullable() { '?' } else { '!' };
    Some(match dt {
        DataType::Boolean => "b".into(),
        DataType::Utf8 => "t".into(),
        DataType::LargeUtf8 => "T".into(),
        DataType::Binary => "y".into(),
        DataType::LargeBinary => "Y".into(),
        DataType::FixedSizeBinary(n) => format!("x{}", n),
        DataType::List(f) => format!("l{}<{}>", nb(f), ty_str(f.data_type())?),
        DataType::LargeList(f) => format!("L{}<{}>", nb(f), ty_str(f.data_type())?),
        DataType::FixedSizeList(f, k) => format!("f{}{}<{}>", k, nb(f), ty_str(f.data_type())?),
        DataType::Struct(fs) => {
            let mut v = vec![];
            for f in fs.iter() {
                v.push(format!("{}{}", nb(f), ty_str(f.data_type())?));
            }
            format!("s<{}>", v.join(","))
        }
        DataType::Dictionary(k, v) => {
            let (kw, sg) = match k.as_ref() {
                DataType::Int8 => (1, 's'),
                DataType::Int16 => (2, 's'),
                DataType::Int32 => (4, 's'),
                DataType::Int64 => (8, 's'),
                DataType::UInt8 => (1, 'u'),
                DataType::UInt16 => (2, 'u'),
                DataType::UInt32 => (4, 'u'),
                DataType::UInt64 => (8, 'u'),
                _ => return None,
            };
            format!("d{}{}<{}>", kw, sg, ty_str(v)?)
        }
        other => match prim_width(other) {
            Some(w) if !matches!(other, DataType::FixedSizeBinary(_)) => format!("p{}", w),
            _ => return None,
        },
    })
}

fn hex_e(b: &[u8]) -> String {
    if b.is_empty() { "e".into() } else { hex(b) }
}

/// dump of a real `ArrayData`: `A(type;len;offset;nulls;bufs;children)`, nulls = `-` | `hex@bitoffset:nullcount`
fn dump_data(d: &ArrayData) -> Option<String> {
    let ty = ty_str(d.data_type())?;
    let nulls = match d.nulls() {
        None => "-".to_string(),
        Some(n) => format!("{}@{}:{}", hex_e(n.buffer().as_slice()), n.offset(), n.null_count()),
    };
    let bufs = if d.buffers().is_empty() { "-".to_string() } else { d.buffers().iter().map(|b| hex_e(b.as_slice())).collect::<Vec<_>>().join("|") };
    let mut kids = String::new();
    for c in d.child_data() {
        kids.push_str(&dump_data(c)?);
    }
    Some(format!("A({};{};{};{};{};{})", ty, d.len(), d.offset(), nulls, bufs, kids))
}

struct Cur<'a> {
    s: &'a [u8],
    i: usize,
}
impl<'a> Cur<'a> {
    fn peek(&self) -> u8 {
        self.s[self.i]
    }
    fn expect(&mut self, c: u8) {
        assert_eq!(self.s[self.i], c);
        self.i += 1;
    }
    fn num(&mut self) -> usize {
        let st = self.i;
        while self.i < self.s.len() && self.s[self.i].is_ascii_digit() {
            self.i += 1;
        }
        std::str::from_utf8(&self.s[st..self.i]).unwrap().parse().unwrap()
    }
    fn until(&mut self, c: u8) -> &'a str {
        let st = self.i;
        while self.s[self.i] != c {
            self.i += 1;
        }
        std::str::from_utf8(&self.s[st..self.i]).unwrap()
    }
}

fn parse_dt(c: &mut Cur) -> DataType {
    let nbf = |c: &mut Cur| {
        let b = c.peek() == b'?';
        c.i += 1;
        b
    };
    let ch = c.peek();
    c.i += 1;
    match ch {
        b'b' => DataType::Boolean,
        b't' => DataType::Utf8,
        b'T' => DataType::LargeUtf8,
        b'y' => DataType::Binary,
        b'Y' => DataType::LargeBinary,
        b'x' => DataType::FixedSizeBinary(c.num() as i32),
        b'p' => match c.num() {
            1 => DataType::Int8,
            2 => DataType::Int16,
            4 => DataType::Int32,
            8 => DataType::Int64,
            16 => DataType::Interval(IntervalUnit::MonthDayNano),
            _ => DataType::Decimal256(76, 0),
        },
        b'l' | b'L' => {
            let n = nbf(c);
            c.expect(b'<');
            let t = parse_dt(c);
            c.expect(b'>');
            let f = Arc::new(Field::new("item", t, n));
            if ch == b'l' { DataType::List(f) } else { DataType::LargeList(f) }
        }
        b'f' => {
            let k = c.num();
            let n = nbf(c);
            c.expect(b'<');
            let t = parse_dt(c);
            c.expect(b'>');
            DataType::FixedSizeList(Arc::new(Field::new("item", t, n)), k as i32)
        }
        b's' => {
            c.expect(b'<');
            let mut fs = vec![];
            while c.peek() != b'>' {
                if c.peek() == b',' {
                    c.i += 1;
                }
                let n = nbf(c);
                let t = parse_dt(c);
                fs.push(Field::new(format!("f{}", fs.len()), t, n));
            }
            c.expect(b'>');
            DataType::Struct(fs.into())
        }
        b'd' => {
            let kw = c.num();
            let sg = c.peek() == b's';
            c.i += 1;
            c.expect(b'<');
            let t = parse_dt(c);
            c.expect(b'>');
            let k = match (kw, sg) {
                (1, true) => DataType::Int8,
                (2, true) => DataType::Int16,
                (4, true) => DataType::Int32,
                (8, true) => DataType::Int64,
                (1, false) => DataType::UInt8,
                (2, false) => DataType::UInt16,
                (4, false) => DataType::UInt32,
                _ => DataType::UInt64,
            };
            DataType::Dictionary(Box::new(k), Box::new(t))
        }
        _ => panic!("type"),
    }
}

fn unhex_e(s: &str) -> Vec<u8> {
    if s == "e" { vec![] } else { unhex(s) }
}

fn parse_data(c: &mut Cur) -> ArrayData {
    c.expect(b'A');
    c.expect(b'(');
    let dt = parse_dt(c);
    c.expect(b';');
    let len = c.num();
    c.expect(b';');
    let offset = c.num();
    c.expect(b';');
    let ns = c.until(b';');
    c.expect(b';');
    let bs = c.until(b';');
    c.expect(b';');
    let nulls = if ns == "-" {
        None
    } else {
        let (h, rest) = ns.split_once('@').unwrap();
        let (o, _) = rest.split_once(':').unwrap();
        Some(NullBuffer::new(BooleanBuffer::new(Buffer::from(unhex_e(h).as_slice()), o.parse().unwrap(), len)))
    };
    let bufs: Vec<Buffer> = if bs == "-" { vec![] } else { bs.split('|').map(|b| Buffer::from(unhex_e(b).as_slice())).collect() };
    let mut kids = vec![];
    while c.peek() == b'A' {
        kids.push(parse_data(c));
    }
    c.expect(b')');
    unsafe { ArrayData::builder(dt).len(len).offset(offset).nulls(nulls).buffers(bufs).child_data(kids).build_unchecked() }
}

/// schema <-> flatbuffer conversion through every public entry point of convert.rs
fn run_schema(seed: u64) -> String {
    let mut rng = Rng::new(seed ^ 0x5C4E);
    let dom = Dom { ree: true, sliced_children: false, ree_sliced: true, union_sliced: true };
    let n = rng.usize(5);
    let fields: Vec<Field> = (0..n)
        .map(|i| {
            let f = tfield(&mut rng, &format!("c{i}"), 2, dom);
            if rng.bool() { f.with_nullable(false) } else { f }
        })
        .collect();
    let schema = Schema::new_with_metadata(fields, gen_meta(&mut rng));
    // 1. IpcSchemaEncoder::schema_to_fb (a Schema root) -> try_fb_to_schema / fb_to_schema
    let mut tr = DictionaryTracker::new(false);
    let fbb = arrow_ipc::convert::IpcSchemaEncoder::new().with_dictionary_tracker(&mut tr).schema_to_fb(&schema);
    let bytes = fbb.finished_data().to_vec();
    let root = match arrow_ipc::root_as_schema(&bytes) {
        Ok(r) => r,
        Err(_) => return "ERR:parse:root_as_schema".into(),
    };
    match arrow_ipc::convert::try_fb_to_schema(root) {
        Ok(s) if s == schema => {}
        Ok(_) => return "MISMATCH:try_fb_to_schema".into(),
        Err(e) => return format!("{}:try_fb_to_schema", err_class(&e)),
    }
    #[allow(deprecated)]
    if arrow_ipc::convert::fb_to_schema(root) != schema {
        return "MISMATCH:fb_to_schema".into();
    }
    // 2. the schema message of a stream -> try_schema_from_ipc_buffer / MessageBuffer
    let legacy = seed % 2 == 1;
    let o = opts(8, legacy, if legacy { 4 } else { 5 });
    let mut tracker = DictionaryTracker::new(false);
    let enc = IpcDataGenerator::default().schema_to_bytes_with_dictionary_tracker(&schema, &mut tracker, &o);
    match arrow_ipc::convert::try_schema_from_flatbuffer_bytes(&enc.ipc_message) {
        Ok(s) if s == schema => {}
        Ok(_) => return "MISMATCH:try_schema_from_flatbuffer_bytes".into(),
        Err(e) => return format!("{}:try_schema_from_flatbuffer_bytes", err_class(&e)),
    }
    if arrow_ipc::convert::MessageBuffer::try_new(Buffer::from(enc.ipc_message.as_slice())).map(|m| m.as_ref().header_type() != MessageHeader::Schema).unwrap_or(true) {
        return "MISMATCH:MessageBuffer".into();
    }
    let mut framed = vec![];
    write_message(&mut framed, enc, &o).unwrap();
    match arrow_ipc::convert::try_schema_from_ipc_buffer(&framed) {
        Ok(s) if s == schema => {}
        Ok(_) => return "MISMATCH:try_schema_from_ipc_buffer".into(),
        Err(e) => return format!("{}:try_schema_from_ipc_buffer", err_class(&e)),
    }
    "ok".into()
}

/// field nodes and body buffers the real writer produces for one column
fn run_warr(t: &[&str]) -> String {
    let mut c = Cur { s: t[2].as_bytes(), i: 0 };
    let data = parse_data(&mut c);
    assert_eq!(c.i, t[2].len());
    let col = make_array(data);
    // the writer works on `array.to_data()`: it must be the array described by the case line
    if dump_data(&col.to_data()).as_deref() != Some(t[2]) {
        return "DUMP-UNSTABLE".into();
    }
    let schema = Arc::new(Schema::new(vec![Field::new("c", col.data_type().clone(), true)]));
    let batch = RecordBatch::try_new(schema.clone(), vec![col]).unwrap();
    let mut w = StreamWriter::try_new_with_options(Vec::new(), &schema, opts(8, false, 5)).unwrap();
    w.write(&batch).unwrap();
    w.finish().unwrap();
    let bytes = w.into_inner().unwrap();
    let (msgs, _, err) = walk(&bytes);
    assert!(!err);
    let last = msgs
        .iter()
        .rev()
        .find(|m| arrow_ipc::root_as_message(&bytes[m.meta.0..m.meta.0 + m.meta.1]).unwrap().header_type() == MessageHeader::RecordBatch)
        .unwrap();
    let m = arrow_ipc::root_as_message(&bytes[last.meta.0..last.meta.0 + last.meta.1]).unwrap();
    let rb = m.header_as_record_batch().unwrap();
    let body = &bytes[last.body.0..last.body.0 + last.body.1];
    let nodes: Vec<String> = rb.nodes().unwrap().iter().map(|n| format!("{}:{}", n.length(), n.null_count())).collect();
    let bufs: Vec<String> = rb.buffers().unwrap().iter().map(|b| hex_e(&body[b.offset() as usize..(b.offset() + b.length()) as usize])).collect();
    format!("nodes={} bufs={}", nodes.join(","), if bufs.is_empty() { "-".to_string() } else { bufs.join("|") })
}

/// FileWriter: a write that fails on the second dictionary column after the first column's
/// delta was already recorded in the tracker; then keep writing and read the file back
fn run_after_error(mode: &str) -> String {
    let dt = DataType::Dictionary(Box::new(DataType::Int8), Box::new(DataType::Int32));
    let schema = Arc::new(Schema::new(vec![Field::new("a", dt.clone(), true), Field::new("b", dt, true)]));
    let o = opts(8, false, 5).with_dictionary_handling(if mode == "delta" { DictionaryHandling::Delta } else { DictionaryHandling::Resend });
    let col = |vals: Vec<i32>, keys: Vec<i8>| -> ArrayRef { Arc::new(DictionaryArray::<Int8Type>::try_new(Int8Array::from(keys), Arc::new(Int32Array::from(vals))).unwrap()) };
    let b0 = RecordBatch::try_new(schema.clone(), vec![col(vec![1, 2], vec![0, 1]), col(vec![5], vec![0, 0])]).unwrap();
    // column a extended (delta), column b replaced (error)
    let b1 = RecordBatch::try_new(schema.clone(), vec![col(vec![1, 2, 3], vec![2, 2]), col(vec![6], vec![0, 0])]).unwrap();
    // both columns consistent with what the tracker now believes was written
    let b2 = RecordBatch::try_new(schema.clone(), vec![col(vec![1, 2, 3], vec![2, 0]), col(vec![5], vec![0, 0])]).unwrap();
    let mut w = FileWriter::try_new_with_options(Vec::new(), &schema, o).unwrap();
    let r0 = w.write(&b0).is_ok();
    let r1 = w.write(&b1).is_ok();
    let r2 = w.write(&b2).is_ok();
    let fin = w.finish().is_ok();
    let bytes = w.into_inner().unwrap();
    let mut out = format!("w0={} w1={} w2={} fin={}", r0, r1, r2, fin);
    let accepted: Vec<&RecordBatch> = [(r0, &b0), (r1, &b1), (r2, &b2)].iter().filter(|x| x.0).map(|x| x.1).collect();
    match FileReader::try_new(Cursor::new(bytes), None) {
        Err(e) => out.push_str(&format!(" open={}", err_class(&e))),
        Ok(rd) => {
            let mut i = 0;
            for b in rd {
                match b {
                    Err(e) => {
                        out.push_str(&format!(" read{}={}", i, err_class(&e)));
                        break;
                    }
                    Ok(b) => {
                        let exp: Vec<String> = accepted.get(i).map(|a| a.columns().iter().map(dict_col_values_any).collect()).unwrap_or_default();
                        let got: Vec<String> = b.columns().iter().map(dict_col_values_any).collect();
                        out.push_str(&format!(" read{}={}", i, if exp == got { "same".to_string() } else { format!("WRONG({})", got.join("+")) }));
                    }
                }
                i += 1;
            }
            out.push_str(&format!(" batches={}/{}", i, accepted.len()));
        }
    }
    out
}

fn dict_col_values_any(col: &ArrayRef) -> String {
    let d = col.as_dictionary::<Int8Type>();
    let vals = d.values().as_primitive::<Int32Type>();
    let v: Vec<String> = (0..d.len())
        .map(|i| {
            if d.is_null(i) {
                "n".to_string()
            } else {
                let k = d.keys().value(i) as usize;
                if k < vals.len() { vals.value(k).to_string() } else { format!("oob{}", k) }
            }
        })
        .collect();
    dots(&v)
}


// ------------------------------------------------------------------------------------ projection: skipped column family

/// every type of the grid as the column a projection skips (nested two deep included); unions
/// and run ends only where they are not below a sliced parent (those are separate known-defect domains)
fn skip_types() -> Vec<DataType> {
    let f = |n: &str, t: DataType| Field::new(n, t, true);
    let af = |n: &str, t: DataType| Arc::new(Field::new(n, t, true));
    let sparse = |ts: Vec<DataType>| {
        let ids: Vec<i8> = (0..ts.len()).map(|i| (i * 2 + 1) as i8).collect();
        DataType::Union(UnionFields::try_new(ids, ts.into_iter().enumerate().map(|(i, t)| Field::new(format!("u{i}"), t, true)).collect::<Vec<_>>()).unwrap(), UnionMode::Sparse)
    };
    let dense = |ts: Vec<DataType>| {
        let ids: Vec<i8> = (0..ts.len()).map(|i| (i * 3) as i8).collect();
        DataType::Union(UnionFields::try_new(ids, ts.into_iter().enumerate().map(|(i, t)| Field::new(format!("u{i}"), t, true)).collect::<Vec<_>>()).unwrap(), UnionMode::Dense)
    };
    let ree = |r: DataType, v: DataType| DataType::RunEndEncoded(Arc::new(Field::new("run_ends", r, false)), Arc::new(Field::new("values", v, true)));
    let map = |k: DataType, v: DataType| DataType::Map(Arc::new(Field::new("entries", DataType::Struct(vec![Field::new("key", k, false), Field::new("value", v, true)].into()), false)), false);
    let st = |ts: Vec<DataType>| DataType::Struct(ts.into_iter().enumerate().map(|(i, t)| f(&format!("f{i}"), t)).collect::<Vec<_>>().into());
    let dict = |k: DataType, v: DataType| DataType::Dictionary(Box::new(k), Box::new(v));
    let mut v = leaf_types();
    v.extend(vec![
        sparse(vec![DataType::Int32, DataType::Utf8]),
        sparse(vec![DataType::Boolean]),
        dense(vec![DataType::Int32, DataType::Boolean]),
        dense(vec![DataType::Utf8, DataType::Int64, DataType::Null]),
        DataType::List(af("item", DataType::Int32)),
        DataType::LargeList(af("item", DataType::Utf8)),
        DataType::FixedSizeList(af("item", DataType::Boolean), 3),
        DataType::ListView(af("item", DataType::Int16)),
        DataType::LargeListView(af("item", DataType::Utf8)),
        st(vec![DataType::Int32, DataType::Utf8]),
        st(vec![]),
        map(DataType::Utf8, DataType::Int32),
        dict(DataType::Int8, DataType::Utf8),
        dict(DataType::UInt32, DataType::Decimal128(38, 10)),
        ree(DataType::Int32, DataType::Utf8),
        ree(DataType::Int16, DataType::Boolean),
        // two deep
        st(vec![sparse(vec![DataType::Int32, DataType::Utf8]), DataType::Boolean]),
        st(vec![dense(vec![DataType::Int8, DataType::Utf8View]), DataType::Null]),
        sparse(vec![st(vec![DataType::Int32, DataType::Boolean]), DataType::List(af("item", DataType::Int32))]),
        sparse(vec![sparse(vec![DataType::Boolean, DataType::Int64]), DataType::Utf8]),
        dense(vec![sparse(vec![DataType::Int32]), dense(vec![DataType::Boolean, DataType::Utf8])]),
        dense(vec![map(DataType::Int32, DataType::Utf8), DataType::FixedSizeBinary(3)]),
        st(vec![DataType::List(af("item", st(vec![DataType::Int32]))), DataType::Decimal256(76, 5)]),
        DataType::List(af("item", DataType::List(af("item", DataType::Utf8)))),
        DataType::LargeList(af("item", st(vec![DataType::Boolean, DataType::Binary]))),
        DataType::FixedSizeList(af("item", st(vec![DataType::Boolean, DataType::Utf8View])), 2),
        map(DataType::Int32, DataType::List(af("item", DataType::Boolean))),
        dict(DataType::UInt16, DataType::List(af("item", DataType::Utf8))),
        dict(DataType::Int64, st(vec![DataType::Int32, DataType::Utf8])),
        ree(DataType::Int64, st(vec![DataType::Int32, DataType::Boolean])),
        st(vec![ree(DataType::Int32, DataType::Int8), DataType::Utf8]),
        sparse(vec![ree(DataType::Int16, DataType::Utf8), DataType::Boolean]),
        st(vec![dict(DataType::Int8, DataType::Utf8), DataType::BinaryView]),
        DataType::List(af("item", dict(DataType::Int16, DataType::LargeUtf8))),
    ]);
    v
}

fn later_column(rng: &mut Rng, dt: &DataType, nullable: bool, n: usize) -> ArrayRef {
    let nulls = if nullable { gen_nulls(rng, n) } else { None };
    match dt {
        DataType::Boolean => {
            let off = rng.usize(9);
            Arc::new(BooleanArray::new(BooleanBuffer::new(Buffer::from_vec(rng.bytes((off + n + 7) / 8)), off, n), nulls))
        }
        DataType::Int32 => Arc::new(Int32Array::new((0..n).map(|_| rng.next_u64() as i32).collect::<Vec<_>>().into(), nulls)),
        _ => {
            let a = StringArray::from_iter_values(gen_strings(rng, n, false).iter().map(|v| String::from_utf8(v.clone()).unwrap()));
            let (o, v, _) = a.into_parts();
            Arc::new(StringArray::new(o, v, nulls))
        }
    }
}

/// C04 proj <file|stream> <ver> <kind|r> <seed>: projected read == project(full read)
fn run_proj(t: &[&str]) -> (String, Option<String>, String) {
    let file = t[2] == "file";
    let ver: u8 = t[3].parse().unwrap();
    let seed: u64 = t[5].parse().unwrap();
    let mut rng = Rng::new(seed ^ 0x9A07);
    let skip_t = if t[4] == "r" {
        gen_type(&mut rng, 2, Dom { ree: true, sliced_children: false, ree_sliced: true, union_sliced: true })
    } else {
        skip_types()[t[4].parse::<usize>().unwrap()].clone()
    };
    let has_ree = has_type(&skip_t, &|x| matches!(x, DataType::RunEndEncoded(_, _)));
    let mut tags = format!("skip:{} ", skip_t.to_string().chars().take_while(|c| c.is_alphanumeric()).collect::<String>());
    if let DataType::Union(_, m) = &skip_t {
        tags.push_str(if *m == UnionMode::Sparse { "skip-union:sparse " } else { "skip-union:dense " });
    }
    if has_type(&skip_t, &|x| matches!(x, DataType::Union(_, UnionMode::Sparse))) {
        tags.push_str("has-sparse-union ");
    }
    if has_ree && ver == 4 {
        tags.push_str("kf:ree-v4 ");
    }
    let mut fields = vec![];
    if rng.chance(1, 3) {
        fields.push(Field::new("pre", DataType::Int32, true));
    }
    let skip_idx = fields.len();
    fields.push(Field::new("skip", skip_t.clone(), true));
    let nlater = 1 + rng.usize(3);
    for i in 0..nlater {
        let dt = rng.pick(&[DataType::Boolean, DataType::Int32, DataType::Utf8]).clone();
        fields.push(Field::new(format!("l{i}"), dt, rng.bool()));
    }
    let schema = Arc::new(Schema::new(fields));
    let nb = 1 + rng.usize(2);
    let mut batches = vec![];
    let mut ctx = Ctx { pool: HashMap::new(), evo: 0, batch: 0 };
    for bi in 0..nb {
        ctx.batch = bi;
        let rows = 1 + rng.usize(24);
        let cols: Vec<ArrayRef> = schema
            .fields()
            .iter()
            .enumerate()
            .map(|(i, f)| if i == skip_idx { gen_array(&mut rng, f.data_type(), rows, &mut ctx, "skip") } else { later_column(&mut rng, f.data_type(), f.is_nullable(), rows) })
            .collect();
        batches.push(RecordBatch::try_new(schema.clone(), cols).unwrap());
    }
    let o = opts(8, false, ver);
    let bytes = if file {
        let mut w = FileWriter::try_new_with_options(Vec::new(), &schema, o).unwrap();
        for b in &batches {
            if let Err(e) = w.write(b) {
                return (err_class(&e).into(), Some(format!("write failed: {e}")), tags);
            }
        }
        w.finish().unwrap();
        w.into_inner().unwrap()
    } else {
        let mut w = StreamWriter::try_new_with_options(Vec::new(), &schema, o).unwrap();
        for b in &batches {
            if let Err(e) = w.write(b) {
                return (err_class(&e).into(), Some(format!("write failed: {e}")), tags);
            }
        }
        w.finish().unwrap();
        w.into_inner().unwrap()
    };
    let read = |p: Option<Vec<usize>>| -> Result<Vec<RecordBatch>, ArrowError> {
        if file {
            FileReader::try_new(Cursor::new(bytes.clone()), p)?.collect()
        } else {
            StreamReader::try_new(Cursor::new(bytes.clone()), p)?.collect()
        }
    };
    let full = match read(None) {
        Ok(f) => f,
        Err(e) => return (err_class(&e).into(), Some(format!("full read failed: {e}")), tags),
    };
    if let Some(why) = compare_batches(&batches, &full) {
        return ("MISMATCH".into(), Some(format!("full read: {why}")), tags);
    }
    // every projection that excludes the skipped column and keeps at least one later column
    let n = schema.fields().len();
    let mut projs: Vec<Vec<usize>> = vec![(0..n).filter(|i| *i != skip_idx).collect()];
    projs.push((skip_idx + 1..n).collect());
    projs.push(vec![n - 1]);
    for p in projs {
        let got = match read(Some(p.clone())) {
            Ok(g) => g,
            Err(e) => return (err_class(&e).into(), Some(format!("projected read {:?} failed: {e}", p)), tags),
        };
        let exp: Vec<RecordBatch> = full.iter().map(|b| b.project(&p).unwrap()).collect();
        if let Some(why) = compare_batches(&exp, &got) {
            return ("MISMATCH".into(), Some(format!("projection {:?} != project(full read): {why}", p)), tags);
        }
    }
    ("ok".into(), None, tags)
}

// ------------------------------------------------------------------------------------ dispatch

fn run_case(line: &str) -> (String, Option<String>, String) {
    let t: Vec<&str> = line.split(' ').collect();
    assert_eq!(t[0], "C04");
    match t[1] {
        "bytes" | "fixed" | "bits" => (guarded(|| run_norm(&t)), None, String::new()),
        "allvalid" => {
            let n: usize = t[2].parse().unwrap();
            (guarded(|| hex(&body_buffers(Arc::new(Int16Array::from(vec![7i16; n])))[0])), None, String::new())
        }
        "frame" => (guarded(|| run_frame(&t)), None, String::new()),
        "stream" => {
            let mut o = None;
            let a = guarded(|| {
                let (a, f) = run_stream(&t);
                o = f;
                a
            });
            (a, o, String::new())
        }
        "file" => {
            let mut o = None;
            let a = guarded(|| {
                let (a, f) = run_file(&t);
                o = f;
                a
            });
            (a, o, String::new())
        }
        "dict" => (guarded(|| run_dict(&t)), None, String::new()),
        "warr" => (guarded(|| run_warr(&t)), None, String::new()),
        "schema" => {
            let a = guarded(|| run_schema(t[2].parse().unwrap()));
            let o = if a == "ok" { None } else { Some(format!("schema conversion: {}", a)) };
            (a, o, String::new())
        }
        "probe" if t[2].starts_with("file-continue-after-error") => {
            let a = guarded(|| run_after_error(if t[2].ends_with("delta") { "delta" } else { "resend" }));
            let good = a.contains("w1=false") && !a.contains("WRONG") && !a.contains("ERR") && (a.ends_with("batches=2/2") || a.ends_with("batches=1/1"));
            let o = if good { None } else { Some(format!("probe {}: {}", t[2], a)) };
            (if good { "ok".into() } else { a.replace(' ', ",") }, o, format!("kf:{}", t[2]))
        }
        "probe" => {
            let a = guarded(|| run_probe(t[2]));
            let o = if a == "ok" { None } else { Some(format!("probe {}: {}", t[2], a)) };
            (a, o, format!("kf:{}", t[2]))
        }
        "proj" => {
            let mut o = None;
            let mut tags = String::new();
            let a = guarded(|| {
                let (a, f, tg) = run_proj(&t);
                o = f;
                tags = tg;
                a
            });
            if a == "PANIC" {
                o = Some("panic during projected round trip".into());
            }
            (a, o, tags)
        }
        "rt" => {
            let mut o = None;
            let mut tags = String::new();
            let a = guarded(|| {
                let (a, f, tg) = run_rt(&t);
                o = f;
                tags = tg;
                a
            });
            if a == "PANIC" {
                o = Some("panic during round trip".into());
            }
            (a, o, tags)
        }
        _ => ("bad-op".into(), None, String::new()),
    }
}

// ------------------------------------------------------------------------------------ case generation

fn real_stream(rng: &mut Rng, file: bool, align: usize, legacy: bool) -> Vec<u8> {
    // a small real stream/file with dictionaries, several batches (some empty)
    let dt = DataType::Dictionary(Box::new(DataType::Int8), Box::new(DataType::Utf8));
    let with_dict = rng.bool();
    let mut fields = vec![Field::new("a", DataType::Int32, true)];
    if with_dict {
        fields.push(Field::new("d", dt, true));
    }
    if rng.bool() {
        fields.push(Field::new("s", DataType::Utf8, true));
    }
    let schema = Arc::new(Schema::new(fields));
    let o = opts(align, legacy, if legacy { 4 } else { 5 })
        .with_dictionary_handling(if rng.bool() { DictionaryHandling::Delta } else { DictionaryHandling::Resend });
    let nb = rng.usize(4);
    let mut dict_vals: Vec<String> = vec!["x".into(), "yy".into()];
    let mut batches = vec![];
    for _ in 0..nb {
        let rows = if rng.chance(1, 4) { 0 } else { 1 + rng.usize(9) };
        let mut cols: Vec<ArrayRef> = vec![];
        for f in schema.fields() {
            match f.name().as_str() {
                "a" => cols.push(Arc::new(Int32Array::from((0..rows).map(|_| rng.range(-9, 9) as i32).collect::<Vec<_>>()))),
                "d" => {
                    if !file && rng.chance(1, 3) {
                        dict_vals = vec![format!("r{}", rng.usize(9))];
                    } else if rng.chance(1, 2) {
                        dict_vals.push(format!("e{}", dict_vals.len()));
                    }
                    let keys: Vec<i8> = (0..rows).map(|_| rng.usize(dict_vals.len()) as i8).collect();
                    cols.push(Arc::new(DictionaryArray::<Int8Type>::try_new(Int8Array::from(keys), Arc::new(StringArray::from(dict_vals.clone()))).unwrap()));
                }
                _ => cols.push(Arc::new(StringArray::from((0..rows).map(|i| "s".repeat(i % 4)).collect::<Vec<_>>()))),
            }
        }
        batches.push(RecordBatch::try_new(schema.clone(), cols).unwrap());
    }
    if file {
        let mut w = FileWriter::try_new_with_options(Vec::new(), &schema, o).unwrap();
        for b in &batches {
            if w.write(b).is_err() {
                break;
            }
        }
        w.finish().unwrap();
        w.into_inner().unwrap()
    } else {
        let mut w = StreamWriter::try_new_with_options(Vec::new(), &schema, o).unwrap();
        for b in &batches {
            w.write(b).unwrap();
        }
        w.finish().unwrap();
        w.into_inner().unwrap()
    }
}

fn gen_hist(rng: &mut Rng, file: bool) -> String {
    let ncols = 1 + rng.usize(2);
    let nb = rng.usize(6);
    let mut cur: Vec<Vec<i32>> = (0..ncols).map(|_| (0..rng.usize(4)).map(|_| rng.range(0, 9) as i32).collect()).collect();
    let mut bs = vec![];
    for _ in 0..nb {
        let mut cs = vec![];
        for c in 0..ncols {
            // evolve: same / extended / replaced / truncated / same-length-different
            match rng.below(if file { 12 } else { 8 }) {
                0 | 1 => {
                    for _ in 0..1 + rng.usize(2) {
                        cur[c].push(rng.range(0, 9) as i32)
                    }
                }
                2 => cur[c] = (0..rng.usize(4)).map(|_| rng.range(0, 9) as i32).collect(),
                3 => {
                    let n = rng.usize(cur[c].len() + 1);
                    cur[c].truncate(n)
                }
                4 => {
                    if !cur[c].is_empty() {
                        let i = rng.usize(cur[c].len());
                        cur[c][i] = rng.range(0, 9) as i32
                    }
                }
                _ => {}
            }
            let rows = rng.usize(5);
            let keys: Vec<String> = (0..rows)
                .map(|_| if cur[c].is_empty() || rng.chance(1, 5) { "n".to_string() } else { rng.usize(cur[c].len()).to_string() })
                .collect();
            let vals: Vec<String> = cur[c].iter().map(|x| x.to_string()).collect();
            cs.push(format!("{}/{}", dots(&vals), dots(&keys)));
        }
        // all columns of a batch must have the same number of rows
        let rows = cs[0].split('/').nth(1).map(|k| if k == "-" { 0 } else { k.split('.').count() }).unwrap();
        for c in 1..ncols {
            let keys: Vec<String> = (0..rows)
                .map(|_| if cur[c].is_empty() || rng.chance(1, 5) { "n".to_string() } else { rng.usize(cur[c].len()).to_string() })
                .collect();
            let vals: Vec<String> = cur[c].iter().map(|x| x.to_string()).collect();
            cs[c] = format!("{}/{}", dots(&vals), dots(&keys));
        }
        bs.push(cs.join("+"));
    }
    if bs.is_empty() { "-".into() } else { bs.join(";") }
}

fn gen_supported_type(rng: &mut Rng, depth: usize) -> DataType {
    let leaves = [
        DataType::Boolean, DataType::Int8, DataType::Int16, DataType::Int32, DataType::Int64,
        DataType::Interval(IntervalUnit::MonthDayNano), DataType::Utf8, DataType::LargeUtf8, DataType::Binary,
        DataType::LargeBinary, DataType::FixedSizeBinary(3), DataType::FixedSizeBinary(0),
    ];
    if depth == 0 || rng.chance(1, 3) {
        return rng.pick(&leaves).clone();
    }
    match rng.below(6) {
        0 => DataType::List(Arc::new(Field::new("item", gen_supported_type(rng, depth - 1), true))),
        1 => DataType::LargeList(Arc::new(Field::new("item", gen_supported_type(rng, depth - 1), true))),
        2 => {
            let k = rng.usize(4) as i32;
            DataType::FixedSizeList(Arc::new(Field::new("item", gen_supported_type(rng, depth - 1), true)), k)
        }
        3 | 4 => {
            let n = rng.usize(4);
            DataType::Struct((0..n).map(|i| Field::new(format!("f{i}"), gen_supported_type(rng, depth - 1), true)).collect())
        }
        _ => {
            let kt = rng.pick(&[DataType::Int8, DataType::Int16, DataType::Int32, DataType::Int64, DataType::UInt8, DataType::UInt16, DataType::UInt32, DataType::UInt64]).clone();
            let mut vt = gen_supported_type(rng, depth - 1);
            while matches!(vt, DataType::Dictionary(_, _)) {
                vt = rng.pick(&leaves).clone();
            }
            DataType::Dictionary(Box::new(kt), Box::new(vt))
        }
    }
}

fn gen_case(rng: &mut Rng) -> (String, String) {
    let aligns = [8usize, 16, 32, 64];
    if rng.chance(1, 8) {
        // projection family: every grid type as the skipped column x V4/V5 x file/stream
        let n = skip_types().len();
        let kind = if rng.chance(1, 5) { "r".to_string() } else { rng.usize(n).to_string() };
        let ver = if rng.bool() { 4 } else { 5 };

        let rd = if rng.bool() { "file" } else { "stream" };
        return (format!("C04 proj {} {} {} {}", rd, ver, kind, rng.next_u64() >> 16), format!("op:proj pr:{} pv{} nt", rd, ver));
    }
    if rng.chance(1, 6) {
        let depth = rng.usize(3);
        let dt = gen_supported_type(rng, depth);
        let rows = if rng.chance(1, 6) { 0 } else { 1 + rng.usize(20) };
        let (pre, post) = if rng.chance(2, 3) { (rng.usize(11), rng.usize(4)) } else { (0, 0) };
        let a = gen_array(rng, &dt, pre + rows + post, &mut Ctx { pool: HashMap::new(), evo: 3, batch: 0 }, "w");
        let a = if pre + post > 0 { a.slice(pre, rows) } else { a };
        let head: String = dt.to_string().chars().take_while(|c| c.is_alphanumeric()).collect();
        return (
            format!("C04 warr {}", dump_data(&a.to_data()).unwrap()),
            format!("op:warr wty:{} depth:{} {}", head, depth, if rows > 0 && pre > 0 { "nt" } else { "" }),
        );
    }
    match rng.below(20) {
        0 | 1 => {
            // byte arrays: monotone offsets not necessarily starting at 0
            let w = if rng.bool() { 4 } else { 8 };
            let n = rng.usize(12);
            let offs = gen_offsets(rng, n);
            let extra = rng.usize(3);
            let data = rng.bytes(*offs.last().unwrap() + extra);
            let off = rng.usize(n + 1);
            let len = rng.usize(n - off + 1);
            let var = rng.usize(2);
            let nt = if len > 0 && (offs[off] != 0 || off > 0) { "nt" } else { "" };
            (
                format!("C04 bytes {} {} {} {} {} {}", w, var, show_list(&offs), hex(&data), off, len),
                format!("op:bytes wrap:{} start0:{} {}", var, offs[off] == 0, nt),
            )
        }
        2 | 3 => {
            let w = *rng.pick(&[1usize, 2, 3, 4, 5, 8, 16, 32]);
            let n = rng.usize(14);
            let extra = if rng.chance(1, 3) { rng.usize(w + 1) } else { 0 };
            let buf = rng.bytes(n * w + extra);
            let off = rng.usize(n + 1);
            let len = rng.usize(n - off + 1);
            let var = rng.usize(4);
            (
                format!("C04 fixed {} {} {} {} {}", w, var, hex(&buf), off, len),
                format!("op:fixed wrap:{} w:{} {}", var & 1, w, if len > 0 && off > 0 { "nt" } else { "" }),
            )
        }
        4 | 5 => {
            let kind = if rng.bool() { "values" } else { "nulls" };
            let nb = rng.usize(24);
            let mut buf = rng.bytes(nb);
            let off = if nb == 0 { 0 } else { rng.usize(8 * nb + 1) };
            let len = if rng.chance(1, 8) { 0 } else { rng.usize(8 * nb - off + 1) };
            if kind == "nulls" && len > 0 && rng.chance(7, 8) {
                let i = off + rng.usize(len);
                buf[i / 8] &= !(1 << (i % 8));
            }
            let var = rng.usize(2);
            (
                format!("C04 bits {} {} {} {} {}", kind, var, hex(&buf), off, len),
                format!("op:bits:{} wrap:{} aligned:{} {}", kind, var, off % 8 == 0, if len > 0 && off % 8 != 0 { "nt" } else { "" }),
            )
        }
        6 => {
            if rng.chance(1, 4) {
                let name = *rng.pick(&["ree-v4", "ree-v5", "ree-empty-slice", "union-in-sliced-list-sparse", "union-in-sliced-list-dense", "union-in-list-unsliced", "file-continue-after-error-delta", "file-continue-after-error-resend", "dict-listview-resized", "dict-list-resized", "dense-union-unaligned"]);
                (format!("C04 probe {}", name), "op:probe".into())
            } else {
                (format!("C04 allvalid {}", rng.usize(70)), "op:allvalid".into())
            }
        }
        7 | 8 => {
            let align = *rng.pick(&aligns);
            let legacy = rng.chance(1, 3);
            let n = rng.usize(4);
            let msgs: Vec<String> = (0..n)
                .map(|_| {
                    let ml = 1 + rng.usize(40);
                    let bl = if rng.chance(1, 12) { rng.usize(100) } else { align * rng.usize(4) };
                    format!("{}:{}", hex(&rng.bytes(ml)), hex(&rng.bytes(bl)))
                })
                .collect();
            (
                format!("C04 frame {} {} {}", align, if legacy { 1 } else { 0 }, if msgs.is_empty() { "-".into() } else { msgs.join(";") }),
                format!("op:frame align:{} legacy:{} {}", align, legacy, if n > 0 { "nt" } else { "" }),
            )
        }
        9 => {
            let align = *rng.pick(&aligns);
            let legacy = rng.chance(1, 3);
            let mut bytes = real_stream(rng, false, align, legacy);
            let mut tag = "full";
            match rng.below(6) {
                0 => {
                    // drop the end-of-stream marker (EOF instead)
                    let k = if legacy { 4 } else { 8 };
                    bytes.truncate(bytes.len() - k);
                    tag = "no-eos";
                }
                1 => {
                    let k = 1 + rng.usize(9);
                    bytes.extend(rng.bytes(k));
                    tag = "trailing";
                }
                2 => {
                    let k = 1 + rng.usize(bytes.len() - 1);
                    bytes.truncate(k);
                    tag = "truncated";
                }
                _ => {}
            }
            (format!("C04 stream {} {}", if legacy { 1 } else { 0 }, hex(&bytes)), format!("op:stream align:{} legacy:{} var:{} nt", align, legacy, tag))
        }
        10 => {
            let align = *rng.pick(&aligns);
            let legacy = rng.chance(1, 3);
            let bytes = real_stream(rng, true, align, legacy);
            (format!("C04 file {} {} {}", align, if legacy { 1 } else { 0 }, hex(&bytes)), format!("op:file align:{} legacy:{} nt", align, legacy))
        }
        11 | 12 | 13 => {
            let file = rng.bool();
            let delta = rng.bool();
            let h = gen_hist(rng, file);
            let nb = if h == "-" { 0 } else { h.split(';').count() };
            (
                format!("C04 dict {} {} {} {}", if file { "file" } else { "stream" }, if delta { "delta" } else { "resend" }, rng.usize(2), h),
                format!("op:dict:{}:{} {}", if file { "file" } else { "stream" }, if delta { "delta" } else { "resend" }, if nb >= 2 { "nt" } else { "" }),
            )
        }
        _ => {
            let dom_pre = 0;
            let _ = dom_pre;
            let mut writer = *rng.pick(&["file", "file", "bfile", "tfile", "stream", "stream", "enc", "enc", "gen", "gen", "bstream", "tstream"]);
            let mut reader = if writer.ends_with("file") {
                *rng.pick(&["file", "file", "fdec", "fbuild", "bfile", "svfile"])
            } else {
                *rng.pick(&["stream", "stream", "decoder", "decoder", "decoder-req", "bstream", "svstream"])
            };
            let dom = if rng.chance(1, 10) { *rng.pick(&["ree-v4", "ree-empty", "nested-union", "decoder-unaligned"]) } else { "std" };
            if dom == "decoder-unaligned" {
                writer = "stream";
                reader = "decoder";
            }
            let ver = if dom == "ree-v4" || (dom == "std" && rng.chance(1, 4)) { 4 } else { 5 };
            let legacy = ver == 4 && rng.bool();
            let codec = if ver == 5 { *rng.pick(&["none", "none", "lz4", "zstd", "zstdL"]) } else { "none" };
            let buffered = writer == "bfile" || writer == "bstream"; // `try_new_buffered` takes no options
            let (ver, legacy, codec) = if buffered { (5, false, "none") } else { (ver, legacy, codec) };
            let delta = !buffered && rng.bool();
            let evo = if writer.ends_with("file") { *rng.pick(&[0u8, 0, 1, 2, 2, 3, 4]) } else { rng.usize(5) as u8 };
            let seed = rng.next_u64() >> 16;
            // projection indices are chosen against the schema the seed generates
            let ncols = {
                let mut r = Rng::new(seed ^ 0xC04_0BA7);
                if r.chance(1, 10) { 0 } else { 1 + r.usize(4) }
            };
            let proj = if !reader.starts_with("decoder") && ncols > 0 && rng.chance(1, 3) {
                let mut p: Vec<usize> = (0..ncols).filter(|_| rng.bool()).collect();
                if rng.chance(1, 4) {
                    p.reverse();
                }
                show_list(&p)
            } else {
                "-".to_string()
            };
            let align = if buffered { 64 } else if reader == "decoder-req" { *rng.pick(&[16usize, 32, 64]) } else { *rng.pick(&aligns) };
            let codec = if reader == "decoder-req" { "none" } else { codec };
            (
                format!("C04 rt {} {} {} {} {} {} {} {} {} {} {}", writer, reader, align, ver, if legacy { 1 } else { 0 }, codec, if delta { "delta" } else { "resend" }, evo, proj, seed, dom),
                format!("op:rt dom:{dom} w:{} r:{} align:{} v{} legacy:{} codec:{} dict:{} evo:{} proj:{} nt", writer, reader, align, ver, legacy, codec, if delta { "delta" } else { "resend" }, evo, proj != "-"),
            )
        }
    }
}

/// fixed deterministic block of boundary cases emitted in every run (independent of the seed)
fn dense_cases() -> Vec<(String, String)> {
    let mut v = vec![];
    // (b) row counts around 8 / 64 / 128 / 256 / 1024 / 2048 through rotating writer/reader/codec combinations
    let combos = [
        ("file", "file", 64, 5, 0, "none"), ("stream", "stream", 8, 5, 0, "lz4"), ("enc", "decoder", 16, 5, 0, "zstd"),
        ("gen", "stream", 32, 4, 1, "none"), ("bfile", "fdec", 64, 5, 0, "none"), ("bstream", "bstream", 64, 5, 0, "none"),
        ("tfile", "fbuild", 8, 4, 0, "none"), ("tstream", "decoder-req", 64, 5, 0, "none"), ("file", "svfile", 16, 5, 0, "zstdL"),
    ];
    for (k, rows) in [0usize, 1, 7, 8, 9, 63, 64, 65, 127, 128, 129, 255, 256, 257, 1023, 1024, 1025, 2049].iter().enumerate() {
        for j in 0..3 {
            let (w, r, a, ver, lg, codec) = combos[(k * 3 + j) % combos.len()];
            let delta = if w.starts_with('b') { "resend" } else if (k + j) % 2 == 0 { "delta" } else { "resend" };
            v.push((
                format!("C04 rt {} {} {} {} {} {} {} 0 - {} std {}", w, r, a, ver, lg, codec, delta, 900_000 + k * 10 + j, rows),
                format!("op:rt dense size:{} w:{} r:{} codec:{} nt", rows, w, r, codec),
            ));
        }
    }
    // (e) dictionary histories: shrink-then-grow, grow-shrink-grow, equal-after-replace, null-only, duplicate values
    let hists = [
        "1.2.3/0;1.2/1;1.2.3/2", "1.2.3/0;1.2/1;1.2.4/2", "1.2/0;1.2.3/2;1.2/1;1.2.3.4/3", "1/0;-/n;1/0", "5.5/1;5.5.5/2;5.5/0",
        "1.2/0;3.4/1;1.2/0;1.2.9/2", "-/n;-/n;7/0", "1.2/0+9/0;1.2.3/2+9/0;1.2.3/1+9.8/1", "1.2/0+9/0;1.2/1+8/0;1.2/0+9/0",
        "1.2.3.4/3;1.2.3/2;1.2/1;1/0", "1/0;1.2/1;1.2.3/2;1.2.3.4/3;1.2.3.4.5/4",
    ];
    for h in hists {
        for fmt in ["stream", "file"] {
            for mode in ["resend", "delta"] {
                for reuse in [0, 1] {
                    v.push((format!("C04 dict {} {} {} {}", fmt, mode, reuse, h), format!("op:dict:{}:{} dense nt", fmt, mode)));
                }
            }
        }
    }
    // (b)(d) bit slices: every bit offset 0..8 x lengths around the byte / 64-bit word boundaries
    let pat: Vec<u8> = (0..40u32).map(|i| (i * 37 + 11) as u8).collect();
    for off in 0..9usize {
        for len in [0usize, 1, 7, 8, 9, 63, 64, 65, 127, 128, 129, 191, 192, 193] {
            for (kind, var) in [("values", 0), ("values", 1), ("nulls", 0), ("nulls", 1)] {
                v.push((format!("C04 bits {} {} {} {} {}", kind, var, hex(&pat), off, len), format!("op:bits:{} dense wrap:{} {}", kind, var, if len > 0 { "nt" } else { "" })));
            }
        }
    }
    // (b) framing: metadata lengths on both sides of every alignment boundary, both prefixes
    for align in [8usize, 16, 32, 64] {
        for legacy in [0, 1] {
            let pre = if legacy == 1 { 4 } else { 8 };
            for d in [-1i64, 0, 1] {
                for k in [1i64, 2] {
                    let ml = k * align as i64 - pre + d;
                    if ml >= 1 {
                        let meta: Vec<u8> = (0..ml).map(|i| (i + 1) as u8).collect();
                        let body = vec![0xabu8; align];
                        v.push((format!("C04 frame {} {} {}:{};{}:-", align, legacy, hex(&meta), hex(&body), hex(&meta[..1])), format!("op:frame dense align:{} legacy:{} nt", align, legacy == 1)));
                    }
                }
            }
        }
    }
    // (a) projection: every grid type as the skipped column under V4 and V5
    let grid = skip_types();
    for (k, t) in grid.iter().enumerate() {
        let ree = has_type(t, &|x| matches!(x, DataType::RunEndEncoded(_, _)));
        for ver in [4, 5] {
            let _ = ree;
            let rd = if (k + ver) % 2 == 0 { "file" } else { "stream" };
            v.push((format!("C04 proj {} {} {} {}", rd, ver, k, 800_000 + k), format!("op:proj dense pr:{} pv{} nt", rd, ver)));
        }
    }
    // (a) schema conversion entry points
    for k in 0..40 {
        v.push((format!("C04 schema {}", 700_000 + k), "op:schema dense nt".to_string()));
    }
    v
}

fn main() {
    let args = parse_args();
    if std::env::var("VERIF_LOUD").is_err() {
        quiet_panics();
    }
    let mut sink = Sink::new(&args.out);
    if args.mode == "replay" {
        for line in read_cases(args.replay.as_ref().unwrap()) {
            let (a, o, tags) = run_case(&line);
            if let Some(why) = o {
                sink.oracle_failure(line.clone(), why, &format!("replay {}", tags));
            }
            sink.case(line, a, &format!("replay {}", tags));
        }
    } else {
        let mut rng = Rng::new(args.seed ^ 0xC04);
        let n = n_cases(&args, 4000, 120000);
        for (line, tags) in dense_cases() {
            let (a, o, extra) = run_case(&line);
            let tags = format!("{} {}", tags, extra);
            if let Some(why) = o {
                sink.oracle_failure(line.clone(), why, &tags);
            }
            sink.case(line, a, &tags);
        }
        for _ in 0..n {
            let (line, tags) = gen_case(&mut rng);
            let (a, o, extra) = run_case(&line);
            let tags = format!("{} {}", tags, extra);
            if let Some(why) = o {
                sink.oracle_failure(line.clone(), why, &tags);
            }
            sink.case(line, a, &tags);
        }
    }
    sink.finish();
}
