//! C08 corruption-search harness, text readers and compressed IPC (search only: the Lean driver
//! answers `SKIP` for every op of this binary).
//!
//!   C08 csv <file> <mutation>      corrupted CSV through arrow-csv: schema inference, then the reader with the
//!                                  inferred schema and with a fixed typed schema
//!   C08 csvraw <hex>
//!   C08 json <file> <mutation>     corrupted NDJSON through arrow-json: schema inference, reader with inferred
//!                                  and with a fixed nested schema (strict and non-strict)
//!   C08 jsonraw <hex>
//!   C08 jsongrid <container>.<parent nullable><child nullable>.<leaf>.<struct mode>.<batch size> <rows>
//!                                  nested-nullability grid: rows m(issing) n(ull) x(child null) e(mpty) a(present) t(middle null)
//!   C08 jsonty <type id> <hex of a JSON value>   one value of any JSON kind into a column of any supported type
//!   C08 ipcz <file> <mutation>     corrupted LZ4 / ZSTD compressed IPC stream through StreamReader
//!   C08 ipczraw <hex>
//! Every Ok batch is validated with `ArrayData::validate_full`.  Every case runs in a worker process
//! under a CPU-time watchdog and a capping allocator (c08_infra.rs).
use std::io::Cursor;

use arrow_array::builder::{Int32Builder, ListBuilder};
use arrow_array::{Array, ArrayRef, BooleanArray, Float64Array, Int32Array, Int64Array, RecordBatch, StringArray};
use arrow_schema::{DataType, Field, Fields, Schema, TimeUnit};
use vcommon::*;

include!("../../../h-parquet/src/c08_infra.rs");

#[global_allocator]
static GLOBAL: CapAlloc = CapAlloc;

fn validate_batch(b: &RecordBatch) -> Result<(), String> {
    for (i, c) in b.columns().iter().enumerate() {
        if c.len() != b.num_rows() {
            return Err(format!("col{}:len", i));
        }
        c.to_data().validate_full().map_err(|e| format!("col{}:{}", i, slug(&e.to_string())))?;
    }
    Ok(())
}

fn drain<I: Iterator<Item = Result<RecordBatch, arrow_schema::ArrowError>>>(it: I) -> Result<usize, String> {
    let mut rows = 0usize;
    for b in it {
        let b = b.map_err(|_| "ERR".to_string())?;
        validate_batch(&b).map_err(|e| format!("INVALID:{}", e))?;
        rows += b.num_rows();
        if rows > 1_000_000 {
            return Err("INVALID:rows-unbounded".into());
        }
    }
    Ok(rows)
}

// ------------------------------------------------------------------ CSV

const CSV_FILES: [&str; 3] = [
    "id,price,name,ok,day,ts,amount\n1,1.5,alpha,true,2024-01-31,2024-01-31T10:20:30,12.34\n-2,2e10,\"be,ta\",false,1970-01-01,1999-12-31T23:59:59.123,-0.01\n3,,\"ga\"\"mma\",,2038-01-19,2038-01-19T03:14:07Z,99999.99\n2147483647,-0.0,δelta,true,0001-01-01,1677-09-21T00:12:44,0\n",
    "a|b|c\r\n1|x|2.5\r\n2|'quo|ted'|3\r\n# comment\r\n3|\\|esc|NaN\r\n",
    "9223372036854775807,18446744073709551615,1e308,0x10,1_000\n-9223372036854775808,-1,-1e-308,07,+5\n",
];

fn csv_typed_schema() -> Schema {
    Schema::new(vec![
        Field::new("id", DataType::Int32, true),
        Field::new("price", DataType::Float64, true),
        Field::new("name", DataType::Utf8, true),
        Field::new("ok", DataType::Boolean, true),
        Field::new("day", DataType::Date32, true),
        Field::new("ts", DataType::Timestamp(TimeUnit::Microsecond, None), true),
        Field::new("amount", DataType::Decimal128(10, 2), true),
    ])
}

fn read_csv(id: usize, bytes: Vec<u8>) -> String {
    use arrow_csv::reader::Format;
    let fmt = match id % 3 {
        0 => Format::default().with_header(true),
        1 => Format::default().with_header(true).with_delimiter(b'|').with_quote(b'\'').with_escape(b'\\').with_comment(b'#'),
        _ => Format::default().with_header(false),
    };
    let mut verdict = String::new();
    // 1. inference + read with the inferred schema
    match fmt.infer_schema(Cursor::new(&bytes), Some(100)) {
        Err(_) => verdict.push_str("ERR"),
        Ok((schema, _)) => {
            let r = arrow_csv::ReaderBuilder::new(std::sync::Arc::new(schema)).with_format(fmt.clone()).with_batch_size(3).build(Cursor::new(&bytes));
            match r {
                Err(_) => verdict.push_str("ERR"),
                Ok(r) => match drain(r) {
                    Ok(n) => verdict.push_str(&format!("ok:{}", n)),
                    Err(e) if e.starts_with("INVALID") => return e,
                    Err(_) => verdict.push_str("ERR"),
                },
            }
        }
    }
    // 2. fixed typed schema (first file's layout), truncated rows allowed
    let r = arrow_csv::ReaderBuilder::new(std::sync::Arc::new(csv_typed_schema()))
        .with_format(fmt.with_truncated_rows(true))
        .with_batch_size(2)
        .build(Cursor::new(&bytes));
    match r {
        Err(_) => verdict.push_str("/ERR"),
        Ok(r) => match drain(r) {
            Ok(n) => verdict.push_str(&format!("/ok:{}", n)),
            Err(e) if e.starts_with("INVALID") => return e,
            Err(_) => verdict.push_str("/ERR"),
        },
    }
    verdict
}

// ------------------------------------------------------------------ JSON

const JSON_FILES: [&str; 3] = [
    "{\"a\":1,\"b\":2.5,\"c\":\"x\",\"d\":true,\"l\":[1,2,3],\"s\":{\"x\":1,\"y\":\"z\"},\"t\":\"2024-01-31T10:20:30\",\"m\":{\"k1\":1,\"k2\":2},\"dec\":\"12.34\"}\n{\"a\":-2,\"b\":null,\"c\":\"h\\u00e9llo \\ud83d\\ude00\",\"d\":false,\"l\":[],\"s\":{\"x\":null},\"t\":null,\"m\":{},\"dec\":1.5}\n{\"a\":9223372036854775807,\"b\":1e308,\"c\":\"\",\"l\":[null,4],\"s\":null}\n",
    "{\"a\": [[1,2],[3]], \"b\": {\"c\": {\"d\": [ {\"e\": 1}, {\"e\": 2} ] } } }\n{\"a\": [], \"b\": {\"c\": {\"d\": []}}}\n",
    "[1,2]\n{\"a\":1}{\"a\":2}\n  {\"a\" : 3 , \"zz\" : \"extra\"}\n",
];

fn json_typed_schema() -> Schema {
    let s_fields: Fields = vec![Field::new("x", DataType::Int32, true), Field::new("y", DataType::Utf8, true)].into();
    Schema::new(vec![
        Field::new("a", DataType::Int64, true),
        Field::new("b", DataType::Float64, true),
        Field::new("c", DataType::Utf8, true),
        Field::new("d", DataType::Boolean, true),
        Field::new("l", DataType::List(std::sync::Arc::new(Field::new("item", DataType::Int32, true))), true),
        Field::new("s", DataType::Struct(s_fields), true),
        Field::new("t", DataType::Timestamp(TimeUnit::Millisecond, None), true),
        Field::new_map("m", "entries", Field::new("keys", DataType::Utf8, false), Field::new("values", DataType::Int64, true), false, true),
        Field::new("dec", DataType::Decimal128(10, 2), true),
        // decoders the base text only reaches after a mutation / cross-splice renames a key
        Field::new("zz", DataType::Binary, true),
        Field::new("sv", DataType::Utf8View, true),
        Field::new("nn", DataType::Null, true),
        Field::new("ll", DataType::LargeList(std::sync::Arc::new(Field::new("item", DataType::Float32, true))), true),
    ])
}

fn read_json(bytes: Vec<u8>) -> String {
    let mut verdict = String::new();
    match arrow_json::reader::infer_json_schema(Cursor::new(&bytes), Some(100)) {
        Err(_) => verdict.push_str("ERR"),
        Ok((schema, _)) => match arrow_json::ReaderBuilder::new(std::sync::Arc::new(schema)).with_batch_size(2).build(Cursor::new(&bytes)) {
            Err(_) => verdict.push_str("ERR"),
            Ok(r) => match drain(r) {
                Ok(n) => verdict.push_str(&format!("ok:{}", n)),
                Err(e) if e.starts_with("INVALID") => return e,
                Err(_) => verdict.push_str("ERR"),
            },
        },
    }
    for (strict, coerce) in [(false, true), (true, false)] {
        let r = arrow_json::ReaderBuilder::new(std::sync::Arc::new(json_typed_schema()))
            .with_batch_size(2)
            .with_strict_mode(strict)
            .with_coerce_primitive(coerce)
            .build(Cursor::new(&bytes));
        match r {
            Err(_) => verdict.push_str("/ERR"),
            Ok(r) => match drain(r) {
                Ok(n) => verdict.push_str(&format!("/ok:{}", n)),
                Err(e) if e.starts_with("INVALID") => return e,
                Err(_) => verdict.push_str("/ERR"),
            },
        }
    }
    verdict
}

// ------------------------------------------------------------------ JSON nested-nullability grid

fn grid_leaf(l: &str) -> (DataType, &'static str) {
    match l {
        "u" => (DataType::Utf8, "\"x\""),
        "b" => (DataType::Boolean, "true"),
        "d" => (DataType::Decimal128(5, 1), "\"1.5\""),
        "v" => (DataType::Utf8View, "\"a string view longer than 12\""),
        "f" => (DataType::FixedSizeBinary(2), "\"00ff\""),
        _ => (DataType::Int32, "1"),
    }
}

/// `(data type of column s, renderer of the value of s for a row letter)`
fn grid_schema(container: &str, cn: bool, leaf: &str, pn: bool) -> DataType {
    let (lt, _) = grid_leaf(leaf);
    let child = |name: &str| std::sync::Arc::new(Field::new(name, lt.clone(), cn));
    match container {
        "li" => DataType::List(child("item")),
        "ll" => DataType::LargeList(child("item")),
        "lv" => DataType::ListView(child("item")),
        "fl" => DataType::FixedSizeList(child("item"), 1),
        "mp" => DataType::Map(
            std::sync::Arc::new(Field::new(
                "entries",
                DataType::Struct(vec![Field::new("keys", DataType::Utf8, false), Field::new("values", lt.clone(), cn)].into()),
                false,
            )),
            false,
        ),
        "s2" => DataType::Struct(vec![Field::new("t", DataType::Struct(vec![Field::new("a", lt.clone(), cn)].into()), pn)].into()),
        _ => DataType::Struct(vec![Field::new("a", lt.clone(), cn)].into()),
    }
}

fn grid_value(container: &str, leaf: &str, list_mode: bool, letter: char) -> Option<String> {
    let v = grid_leaf(leaf).1;
    let (null_child, empty, present, mid_null): (String, String, String, String) = match container {
        "li" | "ll" | "lv" | "fl" => ("[null]".into(), "[]".into(), format!("[{}]", v), "[null]".into()),
        "mp" => ("{\"k\":null}".into(), "{}".into(), format!("{{\"k\":{}}}", v), "{\"k\":null}".into()),
        "s2" if list_mode => ("[[null]]".into(), "[[]]".into(), format!("[[{}]]", v), "[null]".into()),
        "s2" => ("{\"t\":{\"a\":null}}".into(), "{\"t\":{}}".into(), format!("{{\"t\":{{\"a\":{}}}}}", v), "{\"t\":null}".into()),
        _ if list_mode => ("[null]".into(), "[]".into(), format!("[{}]", v), "[null]".into()),
        _ => ("{\"a\":null}".into(), "{}".into(), format!("{{\"a\":{}}}", v), "{\"a\":null}".into()),
    };
    match letter {
        'm' => None,
        'n' => Some("null".into()),
        'x' => Some(null_child),
        'e' => Some(empty),
        't' => Some(mid_null),
        _ => Some(present),
    }
}

fn read_jsongrid(spec: &str, rows: &str) -> String {
    let f: Vec<&str> = spec.split('.').collect();
    if f.len() < 5 {
        return "bad-case".into();
    }
    let (container, nn, leaf, mode, batch) = (f[0], f[1], f[2], f[3], f[4].parse::<usize>().unwrap_or(1024).max(1));
    let pn = nn.starts_with('1');
    let cn = nn.ends_with('1');
    let list_mode = mode == "l";
    // for s2 the outer struct is always nullable and `pn` is the nullability of the middle struct
    let s_nullable = if container == "s2" { true } else { pn };
    let schema = Schema::new(vec![Field::new("s", grid_schema(container, cn, leaf, pn), s_nullable), Field::new("z", DataType::Int32, true)]);
    let mut doc = String::new();
    for (i, c) in rows.chars().enumerate() {
        let sv = grid_value(container, leaf, list_mode, c);
        if list_mode {
            match sv {
                Some(v) => doc.push_str(&format!("[{},{}]\n", v, i)),
                None => doc.push_str(&format!("[null,{}]\n", i)),
            }
        } else {
            match sv {
                Some(v) => doc.push_str(&format!("{{\"s\":{},\"z\":{}}}\n", v, i)),
                None => doc.push_str(&format!("{{\"z\":{}}}\n", i)),
            }
        }
    }
    let mode = if list_mode { arrow_json::StructMode::ListOnly } else { arrow_json::StructMode::ObjectOnly };
    let r = arrow_json::ReaderBuilder::new(std::sync::Arc::new(schema)).with_batch_size(batch).with_struct_mode(mode).build(Cursor::new(doc.into_bytes()));
    match r {
        Err(_) => "ERR".into(),
        Ok(r) => match drain(r) {
            Ok(n) => format!("ok:{}", n),
            Err(e) => e,
        },
    }
}

const JSONTY_TYPES: usize = 40;
fn jsonty_type(id: usize) -> DataType {
    use arrow_schema::IntervalUnit;
    let item = |t: DataType| std::sync::Arc::new(Field::new("item", t, true));
    match id {
        0 => DataType::Null,
        1 => DataType::Boolean,
        2 => DataType::Int8,
        3 => DataType::Int64,
        4 => DataType::UInt8,
        5 => DataType::UInt64,
        6 => DataType::Float16,
        7 => DataType::Float32,
        8 => DataType::Float64,
        9 => DataType::Utf8,
        10 => DataType::LargeUtf8,
        11 => DataType::Utf8View,
        12 => DataType::Binary,
        13 => DataType::LargeBinary,
        14 => DataType::BinaryView,
        15 => DataType::FixedSizeBinary(2),
        16 => DataType::FixedSizeBinary(0),
        17 => DataType::Decimal32(5, 1),
        18 => DataType::Decimal64(10, 2),
        19 => DataType::Decimal128(20, 3),
        20 => DataType::Decimal256(40, -2),
        21 => DataType::Date32,
        22 => DataType::Date64,
        23 => DataType::Time32(TimeUnit::Second),
        24 => DataType::Time64(TimeUnit::Nanosecond),
        25 => DataType::Timestamp(TimeUnit::Second, None),
        26 => DataType::Timestamp(TimeUnit::Nanosecond, Some("+05:30".into())),
        27 => DataType::Duration(TimeUnit::Millisecond),
        28 => DataType::Interval(IntervalUnit::DayTime),
        29 => DataType::List(item(DataType::Int32)),
        30 => DataType::LargeList(item(DataType::Utf8)),
        31 => DataType::ListView(item(DataType::Int32)),
        32 => DataType::FixedSizeList(item(DataType::Int32), 2),
        33 => DataType::Struct(vec![Field::new("a", DataType::Int32, true)].into()),
        34 => DataType::Map(
            std::sync::Arc::new(Field::new(
                "entries",
                DataType::Struct(vec![Field::new("keys", DataType::Utf8, false), Field::new("values", DataType::Int32, true)].into()),
                false,
            )),
            false,
        ),
        35 => DataType::RunEndEncoded(std::sync::Arc::new(Field::new("run_ends", DataType::Int32, false)), std::sync::Arc::new(Field::new("values", DataType::Utf8, true))),
        36 => DataType::Dictionary(Box::new(DataType::Int8), Box::new(DataType::Utf8)),
        37 => DataType::Timestamp(TimeUnit::Microsecond, Some("UTC".into())),
        38 => DataType::UInt16,
        _ => DataType::Int32,
    }
}

fn read_jsonty(id: usize, value: &[u8]) -> String {
    let t = jsonty_type(id % JSONTY_TYPES);
    let mut out = String::new();
    for (strict, coerce) in [(false, false), (false, true), (true, false)] {
        let schema = Schema::new(vec![Field::new("v", t.clone(), true)]);
        let mut doc = b"{\"v\":1}\n{\"v\":".to_vec();
        doc.extend_from_slice(value);
        doc.extend_from_slice(b"}\n{\"v\":null}\n");
        let r = arrow_json::ReaderBuilder::new(std::sync::Arc::new(schema)).with_batch_size(2).with_strict_mode(strict).with_coerce_primitive(coerce).build(Cursor::new(doc));
        let a = match r {
            Err(_) => "ERR".to_string(),
            Ok(r) => match drain(r) {
                Ok(n) => format!("ok:{}", n),
                Err(e) if e.starts_with("INVALID") => return e,
                Err(_) => "ERR".to_string(),
            },
        };
        if !out.is_empty() {
            out.push('/');
        }
        out.push_str(&a);
    }
    out
}

// ------------------------------------------------------------------ compressed IPC

fn ipc_batch() -> RecordBatch {
    let rows = 200;
    let i: Int32Array = (0..rows).map(|i| if i % 5 == 3 { None } else { Some(i % 7) }).collect();
    let l: Int64Array = (0..rows).map(|i| Some((i % 3) as i64)).collect();
    let f: Float64Array = (0..rows).map(|i| Some((i % 4) as f64)).collect();
    let s: StringArray = (0..rows).map(|i| if i % 7 == 2 { None } else { Some(["aaaa", "bbbb", "héllo", "", "zzzz"][i as usize % 5]) }).collect();
    let b: BooleanArray = (0..rows).map(|i| Some(i % 3 == 0)).collect();
    let mut lb = ListBuilder::new(Int32Builder::new());
    for i in 0..rows {
        for j in 0..(i % 3) {
            lb.values().append_value(j);
        }
        lb.append(i % 4 != 1);
    }
    RecordBatch::try_from_iter_with_nullable(vec![
        ("i", std::sync::Arc::new(i) as ArrayRef, true),
        ("l", std::sync::Arc::new(l) as ArrayRef, false),
        ("f", std::sync::Arc::new(f) as ArrayRef, false),
        ("s", std::sync::Arc::new(s) as ArrayRef, true),
        ("b", std::sync::Arc::new(b) as ArrayRef, false),
        ("li", std::sync::Arc::new(lb.finish()) as ArrayRef, true),
    ])
    .unwrap()
}

const N_IPCZ: usize = 2;
fn build_ipcz(id: usize) -> Vec<u8> {
    use arrow_ipc::CompressionType;
    use arrow_ipc::writer::{IpcWriteOptions, StreamWriter};
    let batch = ipc_batch();
    let codec = if id == 0 { CompressionType::LZ4_FRAME } else { CompressionType::ZSTD };
    let opts = IpcWriteOptions::default().try_with_compression(Some(codec)).unwrap();
    let mut w = StreamWriter::try_new_with_options(Vec::new(), &batch.schema(), opts).unwrap();
    w.write(&batch).unwrap();
    w.finish().unwrap();
    w.into_inner().unwrap()
}
fn ipcz_file(id: usize) -> Vec<u8> {
    static FILES: std::sync::OnceLock<Vec<Vec<u8>>> = std::sync::OnceLock::new();
    FILES.get_or_init(|| (0..N_IPCZ).map(build_ipcz).collect())[id % N_IPCZ].clone()
}

fn read_ipcz(bytes: Vec<u8>) -> String {
    let r = match arrow_ipc::reader::StreamReader::try_new(Cursor::new(bytes), None) {
        Ok(r) => r,
        Err(_) => return "ERR".into(),
    };
    match drain(r) {
        Ok(n) => format!("ok:{}", n),
        Err(e) => e,
    }
}

// ------------------------------------------------------------------ mutations

/// set:<off>:<hex byte>  xor:<off>:<hex mask>  trunc:<len>  splice:<off>:<del>:<hex>
/// le32:<off>:<value>  le64:<off>:<value>  rep:<off>:<count>:<hex>   (insert <hex> <count> times)
/// cross:<other>:<src>:<len>:<dst>
fn mutate(mut f: Vec<u8>, spec: &str, other: &dyn Fn(usize) -> Vec<u8>) -> Vec<u8> {
    let t: Vec<&str> = spec.split(':').collect();
    let us = |s: &str| s.parse::<usize>().unwrap_or(0);
    match t[0] {
        "set" => {
            let o = us(t[1]);
            if o < f.len() {
                f[o] = u8::from_str_radix(t[2], 16).unwrap_or(0);
            }
        }
        "xor" => {
            let o = us(t[1]);
            if o < f.len() {
                f[o] ^= u8::from_str_radix(t[2], 16).unwrap_or(0);
            }
        }
        "trunc" => f.truncate(us(t[1])),
        "splice" => {
            let (o, d) = (us(t[1]).min(f.len()), us(t[2]));
            let e = (o + d).min(f.len());
            f.splice(o..e, unhex(t[3]));
        }
        "rep" => {
            let o = us(t[1]).min(f.len());
            let n = us(t[2]).min(1 << 20);
            let unit = unhex(t[3]);
            let ins: Vec<u8> = std::iter::repeat_n(unit, n).flatten().collect();
            f.splice(o..o, ins);
        }
        "le32" => {
            let o = us(t[1]);
            let v = t[2].parse::<i64>().unwrap_or(0) as u32;
            if o + 4 <= f.len() {
                f[o..o + 4].copy_from_slice(&v.to_le_bytes());
            }
        }
        "le64" => {
            let o = us(t[1]);
            let v = t[2].parse::<i64>().unwrap_or(0);
            if o + 8 <= f.len() {
                f[o..o + 8].copy_from_slice(&v.to_le_bytes());
            }
        }
        "cross" => {
            let src = other(us(t[1]));
            let (so, l, d) = (us(t[2]), us(t[3]), us(t[4]));
            for i in 0..l {
                if so + i < src.len() && d + i < f.len() {
                    f[d + i] = src[so + i];
                }
            }
        }
        _ => {}
    }
    f
}

fn run_case(line: &str) -> String {
    let t: Vec<&str> = line.split(' ').collect();
    if t.len() < 2 || t[0] != "C08" {
        return "bad-case".into();
    }
    let arg = |i: usize| t.get(i).copied().unwrap_or("-");
    let id = arg(2).trim_start_matches('f').parse::<usize>().unwrap_or(0);
    match t[1] {
        "csv" => {
            let spec = arg(3).to_string();
            guarded(move || read_csv(id, mutate(CSV_FILES[id % 3].as_bytes().to_vec(), &spec, &|i| CSV_FILES[i % 3].as_bytes().to_vec())))
        }
        "csvraw" => {
            let b = unhex(arg(2));
            guarded(move || read_csv(0, b))
        }
        "json" => {
            let spec = arg(3).to_string();
            guarded(move || read_json(mutate(JSON_FILES[id % 3].as_bytes().to_vec(), &spec, &|i| JSON_FILES[i % 3].as_bytes().to_vec())))
        }
        "jsongrid" => {
            let (spec, rows) = (arg(2).to_string(), arg(3).to_string());
            guarded(move || read_jsongrid(&spec, &rows))
        }
        "jsonty" => {
            let b = unhex(arg(3));
            guarded(move || read_jsonty(id, &b))
        }
        "jsonraw" => {
            let b = unhex(arg(2));
            guarded(move || read_json(b))
        }
        "ipcz" => {
            let spec = arg(3).to_string();
            guarded(move || read_ipcz(mutate(ipcz_file(id), &spec, &|i| ipcz_file(i))))
        }
        "ipczraw" => {
            let b = unhex(arg(2));
            guarded(move || read_ipcz(b))
        }
        _ => "bad-op".into(),
    }
}

// ------------------------------------------------------------------ generators

fn sweep(args: &Args, rng: &mut Rng) -> Vec<(String, String, usize)> {
    let mut out = vec![];
    let thorough = args.tier == "thorough";
    // text formats: every offset, structural characters and number inflations
    for (op, files) in [("csv", &CSV_FILES), ("json", &JSON_FILES)] {
        for (id, f) in files.iter().enumerate() {
            let n = f.len();
            let mut push = |spec: String, class: &str, out: &mut Vec<(String, String, usize)>| {
                out.push((format!("C08 {} f{} {}", op, id, spec), format!("op:{} file:{}{} mut:{} nt", op, op, id, class), n));
            };
            push("xor:0:00".into(), "none", &mut out);
            let structural: &[&str] = if op == "csv" {
                &["2c", "0a", "0d", "22", "27", "5c", "7c", "23", "2d", "2e", "65", "39", "00", "ff", "c3", "20"]
            } else {
                &["7b", "7d", "5b", "5d", "22", "5c", "2c", "3a", "0a", "2d", "2e", "65", "39", "00", "ff", "ed", "20", "75"]
            };
            for off in 0..n {
                let k = if thorough { structural.len() } else { 6 };
                for j in 0..k {
                    // quick: a rotating subset of the structural bytes
                    let b = structural[(off + j * 3) % structural.len()];
                    push(format!("set:{}:{}", off, b), "byte", &mut out);
                }
                push(format!("xor:{}:01", off), "byte", &mut out);
                if thorough || off % 2 == 0 {
                    push(format!("splice:{}:1:-", off), "delete", &mut out);
                }
            }
            for len in 0..n {
                push(format!("trunc:{}", len), "trunc", &mut out);
            }
            // length/number inflations: long digit strings, huge exponents, deep nesting, long fields
            let istride = if thorough { 1 } else { 3 };
            for off in (0..n).step_by(istride) {
                push(format!("rep:{}:40:39", off), "inflate-digits", &mut out);
                push(format!("splice:{}:0:{}", off, hex(b"1e999999999")), "inflate-exponent", &mut out);
                push(format!("splice:{}:0:{}", off, hex(b"-9223372036854775809")), "inflate-i64", &mut out);
            }
            for off in (0..n).step_by(if thorough { 4 } else { 16 }) {
                push(format!("rep:{}:100000:{}", off, if op == "csv" { "22" } else { "5b" }), "inflate-nesting", &mut out);
                push(format!("rep:{}:100000:{}", off, if op == "csv" { "2c".to_string() } else { hex(b"{\"a\":") }), "inflate-nesting", &mut out);
                push(format!("rep:{}:300000:61", off), "inflate-field", &mut out);
            }
            for _ in 0..(if thorough { 300 } else { 30 }) {
                let other = (id + 1 + rng.usize(2)) % 3;
                let l = 1 + rng.usize(40);
                let (a, b) = (rng.usize(n), rng.usize(n));
                push(format!("cross:{}:{}:{}:{}", other, a, l, b), "cross", &mut out);
            }
        }
    }
    // compressed IPC
    for id in 0..N_IPCZ {
        let f = ipcz_file(id);
        let n = f.len();
        let mut push = |spec: String, class: &str, out: &mut Vec<(String, String, usize)>| {
            out.push((format!("C08 ipcz f{} {}", id, spec), format!("op:ipcz file:ipcz{} mut:{} nt", id, class), n));
        };
        push("xor:0:00".into(), "none", &mut out);
        for off in 0..n {
            let vals: &[&str] = if thorough {
                &["set:ff", "set:00", "xor:01", "xor:80"]
            } else if off % 16 == id {
                &["set:ff", "xor:01"]
            } else if off % 4 == id {
                &["xor:01"]
            } else {
                &[]
            };
            for v in vals {
                let (k, x) = v.split_once(':').unwrap();
                push(format!("{}:{}:{}", k, off, x), "byte", &mut out);
            }
        }
        for len in (0..n).step_by(if thorough { 1 } else { 5 }) {
            push(format!("trunc:{}", len), "trunc", &mut out);
        }
        // every buffer starts with an i64 uncompressed length: inflate every aligned word
        for off in (0..n.saturating_sub(8)).step_by(8) {
            // 2^28 is granted (flagged as an allocation, no abort); the refused sizes only on a stride in the quick tier
            for v in [1i64 << 28, -2] {
                push(format!("le64:{}:{}", off, v), "inflate-i64", &mut out);
            }
            if thorough || off % 256 == 0 {
                for v in [i64::MAX, 1 << 33] {
                    push(format!("le64:{}:{}", off, v), "inflate-i64", &mut out);
                }
            }
        }
        for _ in 0..(if thorough { 300 } else { 30 }) {
            let l = 1 + rng.usize(64);
            let (a, b) = (rng.usize(n), rng.usize(n));
            push(format!("cross:{}:{}:{}:{}", 1 - id, a, l, b), "cross", &mut out);
        }
    }
    out
}

/// dense deterministic blocks (run in every tier): nested nullability x row mixes, and value kind x column type
fn dense_json() -> Vec<(String, String, usize)> {
    let mut out = vec![];
    let letters = ['m', 'n', 'x', 'e', 'a', 't'];
    let mut seqs: Vec<String> = vec![];
    for a in letters {
        seqs.push(a.to_string());
        for b in letters {
            seqs.push(format!("{}{}", a, b));
            for c in letters {
                seqs.push(format!("{}{}{}", a, b, c));
            }
        }
    }
    let mut configs: Vec<(&str, &str)> = vec![];
    for c in ["st", "s2", "li", "ll", "lv", "fl", "mp"] {
        configs.push((c, "i"));
    }
    for l in ["u", "b", "d", "v", "f"] {
        configs.push(("st", l));
    }
    for (c, l) in configs {
        for nn in ["00", "01", "10", "11"] {
            for mode in ["o", "l"] {
                for batch in ["1", "3"] {
                    for rows in &seqs {
                        out.push((
                            format!("C08 jsongrid {}.{}.{}.{}.{} {}", c, nn, l, mode, batch, rows),
                            format!("op:jsongrid grid:{}.{}.{} nt", c, nn, mode),
                            rows.len() * 24,
                        ));
                    }
                }
            }
        }
    }
    let values: [&str; 22] = [
        "null", "true", "false", "0", "1", "-1", "1.5", "-0.0", "1e400", "255", "256", "99999999999999999999999999", "\"\"", "\"x\"", "\"00ff\"", "\"0\"", "\"1.5\"",
        "\"2024-01-31T10:20:30\"", "[]", "[1,2]", "{}", "{\"a\":1}",
    ];
    for t in 0..JSONTY_TYPES {
        for v in values {
            out.push((format!("C08 jsonty f{} {}", t, hex(v.as_bytes())), format!("op:jsonty ty:{} nt", t), v.len() + 20));
        }
    }
    out
}

fn main() {
    let argv: Vec<String> = std::env::args().collect();
    if argv.get(1).map(|s| s.as_str()) == Some("worker") {
        worker_main();
        return;
    }
    let args = parse_args();
    let mut sink = Sink::new(&args.out);
    let timeout = Duration::from_secs(if args.tier == "thorough" { 20 } else { 6 });
    let mut w = Worker::spawn(timeout);
    if args.mode == "replay" {
        for line in read_cases(args.replay.as_ref().unwrap()) {
            let n = line.split(' ').last().map(|h| h.len() / 2).unwrap_or(0);
            run_and_record(&mut w, &mut sink, line, "replay", n);
        }
    } else {
        let mut rng = Rng::new(args.seed ^ 0xC08C);
        let only = std::env::var("C08_SWEEP").unwrap_or_default();
        let mut all = dense_json();
        all.extend(sweep(&args, &mut rng));
        for (line, tags, len) in all {
            if !only.is_empty() && !line.starts_with(&format!("C08 {} ", only)) {
                continue;
            }
            run_and_record(&mut w, &mut sink, line, &tags, len);
        }
    }
    drop(w);
    remove_site_cache();
    sink.finish();
}
