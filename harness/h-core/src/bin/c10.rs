//! C10 correspondence harness: comparator, sort, lexsort, rank, partition, comparison kernels.
//!
//! Case lines (`C10 <op> …`), value tokens: `n` null, `i<int>`, `t<int>:<int>…` interval,
//! `g<hex4>`/`f<hex8>`/`d<hex16>` f16/f32/f64 bits, `x<hex>` bytes, `[v;v]` list, `{v;v}` struct.
//! Types are prefix terms joined by `:` (`list:dict:i8:utf8`, `fsl:2:i32`, `struct:2:i32:utf8`).
//! The `variant` integer selects the physical representation (slicing, dictionary layout,
//! run layout, data buffers of views, explicit all-valid null buffers).
use arrow_array::types::*;
use arrow_array::*;
use arrow_buffer::{IntervalDayTime, IntervalMonthDayNano, NullBuffer, OffsetBuffer, ScalarBuffer, i256};
use arrow_ord::cmp;
use arrow_ord::ord::make_comparator;
use arrow_ord::partition::partition;
use arrow_ord::rank::rank;
use arrow_ord::sort::{
    LexicographicalComparator, SortColumn, SortOptions, lexsort_to_indices, partial_sort, sort, sort_limit,
    sort_to_indices,
};
use arrow_schema::{ArrowError, DataType, Field, Fields, IntervalUnit, TimeUnit};
use arrow_select::take::take;
use half::f16;
use std::cmp::Ordering;
use std::sync::Arc;
use vcommon::*;

// ------------------------------------------------------------------------------ types / values

#[derive(Clone, Debug, PartialEq)]
enum Ty {
    Prim(String),
    Bytes(String),
    Fsb(usize),
    Dict(String, Box<Ty>),
    Ree(String, Box<Ty>),
    List(String, Box<Ty>), // list | llist | lview | llview
    Fsl(usize, Box<Ty>),
    Struct(Vec<Ty>),
}

const INT_PRIMS: &[&str] = &[
    "i8", "i16", "i32", "i64", "u8", "u16", "u32", "u64", "d32", "d64", "d128", "d256", "date32", "date64", "ts_s",
    "ts_ms", "ts_us", "ts_ns", "dur_s", "dur_ms", "dur_us", "dur_ns", "t32s", "t32ms", "t64us", "t64ns", "iym",
];
const OTHER_PRIMS: &[&str] = &["f16", "f32", "f64", "idt", "imdn", "bool"];
const BYTES: &[&str] = &["utf8", "lutf8", "bin", "lbin", "utf8v", "binv"];
const KEYS: &[&str] = &["i8", "i16", "i32", "i64", "u8", "u16", "u32", "u64"];
const RUNS: &[&str] = &["i16", "i32", "i64"];

fn parse_ty(it: &mut std::str::Split<'_, char>) -> Ty {
    let h = it.next().expect("type");
    match h {
        "dict" => {
            let k = it.next().unwrap().to_string();
            Ty::Dict(k, Box::new(parse_ty(it)))
        }
        "ree" => {
            let k = it.next().unwrap().to_string();
            Ty::Ree(k, Box::new(parse_ty(it)))
        }
        "list" | "llist" | "lview" | "llview" => Ty::List(h.to_string(), Box::new(parse_ty(it))),
        "fsl" => {
            let n = it.next().unwrap().parse().unwrap();
            Ty::Fsl(n, Box::new(parse_ty(it)))
        }
        "fsb" => Ty::Fsb(it.next().unwrap().parse().unwrap()),
        "struct" => {
            let n: usize = it.next().unwrap().parse().unwrap();
            Ty::Struct((0..n).map(|_| parse_ty(it)).collect())
        }
        b if BYTES.contains(&b) => Ty::Bytes(b.to_string()),
        p => Ty::Prim(p.to_string()),
    }
}
fn ty_of(s: &str) -> Ty {
    parse_ty(&mut s.split(':'))
}
fn ty_str(t: &Ty) -> String {
    match t {
        Ty::Prim(p) | Ty::Bytes(p) => p.clone(),
        Ty::Fsb(n) => format!("fsb:{}", n),
        Ty::Dict(k, v) => format!("dict:{}:{}", k, ty_str(v)),
        Ty::Ree(k, v) => format!("ree:{}:{}", k, ty_str(v)),
        Ty::List(k, v) => format!("{}:{}", k, ty_str(v)),
        Ty::Fsl(n, v) => format!("fsl:{}:{}", n, ty_str(v)),
        Ty::Struct(fs) => format!("struct:{}:{}", fs.len(), fs.iter().map(ty_str).collect::<Vec<_>>().join(":")),
    }
}

#[derive(Clone, Debug, PartialEq)]
enum V {
    Null,
    Int(i256),
    Tup(Vec<i64>),
    F(u8, u64),
    Bytes(Vec<u8>),
    List(Vec<V>),
    Struct(Vec<V>),
}

fn tok(v: &V) -> String {
    match v {
        V::Null => "n".into(),
        V::Int(i) => format!("i{}", i),
        V::Tup(t) => format!("t{}", t.iter().map(|x| x.to_string()).collect::<Vec<_>>().join(":")),
        V::F(16, b) => format!("g{:04x}", b),
        V::F(32, b) => format!("f{:08x}", b),
        V::F(_, b) => format!("d{:016x}", b),
        V::Bytes(b) => {
            if b.is_empty() {
                "x".into()
            } else {
                format!("x{}", hex(b))
            }
        }
        V::List(vs) => format!("[{}]", vs.iter().map(tok).collect::<Vec<_>>().join(";")),
        V::Struct(vs) => format!("{{{}}}", vs.iter().map(tok).collect::<Vec<_>>().join(";")),
    }
}

fn split_top(s: &str, sep: char) -> Vec<&str> {
    let mut out = vec![];
    let (mut depth, mut start) = (0i32, 0usize);
    for (i, c) in s.char_indices() {
        if c == '[' || c == '{' {
            depth += 1;
        } else if c == ']' || c == '}' {
            depth -= 1;
        } else if c == sep && depth == 0 {
            out.push(&s[start..i]);
            start = i + 1;
        }
    }
    out.push(&s[start..]);
    out
}

fn parse_v(s: &str) -> V {
    let rest = &s[1..];
    match s.as_bytes()[0] {
        b'n' => V::Null,
        b'i' => V::Int(i256::from_string(rest).expect("int")),
        b't' => V::Tup(rest.split(':').map(|x| x.parse().unwrap()).collect()),
        b'g' => V::F(16, u64::from_str_radix(rest, 16).unwrap()),
        b'f' => V::F(32, u64::from_str_radix(rest, 16).unwrap()),
        b'd' => V::F(64, u64::from_str_radix(rest, 16).unwrap()),
        b'x' => V::Bytes(if rest.is_empty() { vec![] } else { unhex(rest) }),
        b'[' => {
            let inner = &rest[..rest.len() - 1];
            V::List(if inner.is_empty() { vec![] } else { split_top(inner, ';').into_iter().map(parse_v).collect() })
        }
        b'{' => {
            let inner = &rest[..rest.len() - 1];
            V::Struct(if inner.is_empty() { vec![] } else { split_top(inner, ';').into_iter().map(parse_v).collect() })
        }
        _ => panic!("bad value token"),
    }
}
fn parse_col(s: &str) -> Vec<V> {
    if s == "-" { vec![] } else { split_top(s, ',').into_iter().map(parse_v).collect() }
}
fn col_str(vs: &[V]) -> String {
    if vs.is_empty() { "-".into() } else { vs.iter().map(tok).collect::<Vec<_>>().join(",") }
}

// ------------------------------------------------------------------------------ array builders

fn nulls_of(vals: &[V], var: u64) -> Option<NullBuffer> {
    let valid: Vec<bool> = vals.iter().map(|v| *v != V::Null).collect();
    if valid.iter().all(|b| *b) && (var >> 6) & 1 == 0 { None } else { Some(NullBuffer::from(valid)) }
}

fn as_i128(v: &V) -> Option<i128> {
    match v {
        V::Null => None,
        V::Int(i) => Some(i.to_i128().expect("fits i128")),
        _ => panic!("int expected, got {:?}", v),
    }
}

fn data_type(ty: &Ty) -> DataType {
    match ty {
        Ty::Prim(p) => match p.as_str() {
            "i8" => DataType::Int8,
            "i16" => DataType::Int16,
            "i32" => DataType::Int32,
            "i64" => DataType::Int64,
            "u8" => DataType::UInt8,
            "u16" => DataType::UInt16,
            "u32" => DataType::UInt32,
            "u64" => DataType::UInt64,
            "f16" => DataType::Float16,
            "f32" => DataType::Float32,
            "f64" => DataType::Float64,
            "d32" => DataType::Decimal32(9, 2),
            "d64" => DataType::Decimal64(18, 3),
            "d128" => DataType::Decimal128(38, 4),
            "d256" => DataType::Decimal256(76, 5),
            "date32" => DataType::Date32,
            "date64" => DataType::Date64,
            "ts_s" => DataType::Timestamp(TimeUnit::Second, None),
            "ts_ms" => DataType::Timestamp(TimeUnit::Millisecond, Some("+01:00".into())),
            "ts_us" => DataType::Timestamp(TimeUnit::Microsecond, None),
            "ts_ns" => DataType::Timestamp(TimeUnit::Nanosecond, Some("UTC".into())),
            "dur_s" => DataType::Duration(TimeUnit::Second),
            "dur_ms" => DataType::Duration(TimeUnit::Millisecond),
            "dur_us" => DataType::Duration(TimeUnit::Microsecond),
            "dur_ns" => DataType::Duration(TimeUnit::Nanosecond),
            "t32s" => DataType::Time32(TimeUnit::Second),
            "t32ms" => DataType::Time32(TimeUnit::Millisecond),
            "t64us" => DataType::Time64(TimeUnit::Microsecond),
            "t64ns" => DataType::Time64(TimeUnit::Nanosecond),
            "iym" => DataType::Interval(IntervalUnit::YearMonth),
            "idt" => DataType::Interval(IntervalUnit::DayTime),
            "imdn" => DataType::Interval(IntervalUnit::MonthDayNano),
            "bool" => DataType::Boolean,
            x => panic!("unknown prim {}", x),
        },
        Ty::Bytes(b) => match b.as_str() {
            "utf8" => DataType::Utf8,
            "lutf8" => DataType::LargeUtf8,
            "bin" => DataType::Binary,
            "lbin" => DataType::LargeBinary,
            "utf8v" => DataType::Utf8View,
            _ => DataType::BinaryView,
        },
        Ty::Fsb(n) => DataType::FixedSizeBinary(*n as i32),
        Ty::Dict(k, v) => DataType::Dictionary(Box::new(data_type(&Ty::Prim(k.clone()))), Box::new(data_type(v))),
        Ty::Ree(k, v) => DataType::RunEndEncoded(
            Arc::new(Field::new("run_ends", data_type(&Ty::Prim(k.clone())), false)),
            Arc::new(Field::new("values", data_type(v), true)),
        ),
        Ty::List(k, v) => {
            let f = Arc::new(Field::new("item", data_type(v), true));
            match k.as_str() {
                "list" => DataType::List(f),
                "llist" => DataType::LargeList(f),
                "lview" => DataType::ListView(f),
                _ => DataType::LargeListView(f),
            }
        }
        Ty::Fsl(n, v) => DataType::FixedSizeList(Arc::new(Field::new("item", data_type(v), true)), *n as i32),
        Ty::Struct(fs) => DataType::Struct(struct_fields(fs)),
    }
}
fn struct_fields(fs: &[Ty]) -> Fields {
    fs.iter().enumerate().map(|(i, t)| Field::new(format!("f{}", i), data_type(t), true)).collect::<Vec<_>>().into()
}

macro_rules! prim_arr {
    ($t:ty, $vals:expr, $dt:expr, $var:expr) => {{
        let a: PrimitiveArray<$t> = if ($var >> 10) & 1 == 1 && $vals.iter().any(|v| *v == V::Null) {
            // null slots hold arbitrary (row dependent) values instead of the default
            let vals: Vec<<$t as ArrowPrimitiveType>::Native> = $vals
                .iter()
                .enumerate()
                .map(|(row, v)| match as_i128(v) {
                    Some(x) => x as <$t as ArrowPrimitiveType>::Native,
                    None => (row as i128 * 37 + 1) as <$t as ArrowPrimitiveType>::Native,
                })
                .collect();
            PrimitiveArray::<$t>::new(vals.into(), Some(NullBuffer::from($vals.iter().map(|v| *v != V::Null).collect::<Vec<bool>>())))
        } else {
            $vals.iter().map(|v| as_i128(v).map(|x| x as <$t as ArrowPrimitiveType>::Native)).collect()
        };
        Arc::new(a.with_data_type($dt)) as ArrayRef
    }};
}

fn build_prim(p: &str, vals: &[V], dt: DataType, var: u64) -> ArrayRef {
    match p {
        "i8" => prim_arr!(Int8Type, vals, dt, var),
        "i16" => prim_arr!(Int16Type, vals, dt, var),
        "i32" => prim_arr!(Int32Type, vals, dt, var),
        "i64" => prim_arr!(Int64Type, vals, dt, var),
        "u8" => prim_arr!(UInt8Type, vals, dt, var),
        "u16" => prim_arr!(UInt16Type, vals, dt, var),
        "u32" => prim_arr!(UInt32Type, vals, dt, var),
        "u64" => prim_arr!(UInt64Type, vals, dt, var),
        "d32" => prim_arr!(Decimal32Type, vals, dt, var),
        "d64" => prim_arr!(Decimal64Type, vals, dt, var),
        "d128" => prim_arr!(Decimal128Type, vals, dt, var),
        "d256" => {
            let a: PrimitiveArray<Decimal256Type> =
                vals.iter().map(|v| match v { V::Null => None, V::Int(i) => Some(*i), _ => panic!() }).collect();
            Arc::new(a.with_data_type(dt))
        }
        "date32" => prim_arr!(Date32Type, vals, dt, var),
        "date64" => prim_arr!(Date64Type, vals, dt, var),
        "ts_s" => prim_arr!(TimestampSecondType, vals, dt, var),
        "ts_ms" => prim_arr!(TimestampMillisecondType, vals, dt, var),
        "ts_us" => prim_arr!(TimestampMicrosecondType, vals, dt, var),
        "ts_ns" => prim_arr!(TimestampNanosecondType, vals, dt, var),
        "dur_s" => prim_arr!(DurationSecondType, vals, dt, var),
        "dur_ms" => prim_arr!(DurationMillisecondType, vals, dt, var),
        "dur_us" => prim_arr!(DurationMicrosecondType, vals, dt, var),
        "dur_ns" => prim_arr!(DurationNanosecondType, vals, dt, var),
        "t32s" => prim_arr!(Time32SecondType, vals, dt, var),
        "t32ms" => prim_arr!(Time32MillisecondType, vals, dt, var),
        "t64us" => prim_arr!(Time64MicrosecondType, vals, dt, var),
        "t64ns" => prim_arr!(Time64NanosecondType, vals, dt, var),
        "iym" => prim_arr!(IntervalYearMonthType, vals, dt, var),
        "idt" => {
            let a: PrimitiveArray<IntervalDayTimeType> = vals
                .iter()
                .map(|v| match v {
                    V::Null => None,
                    V::Tup(t) => Some(IntervalDayTime::new(t[0] as i32, t[1] as i32)),
                    _ => panic!(),
                })
                .collect();
            Arc::new(a)
        }
        "imdn" => {
            let a: PrimitiveArray<IntervalMonthDayNanoType> = vals
                .iter()
                .map(|v| match v {
                    V::Null => None,
                    V::Tup(t) => Some(IntervalMonthDayNano::new(t[0] as i32, t[1] as i32, t[2])),
                    _ => panic!(),
                })
                .collect();
            Arc::new(a)
        }
        "f16" => {
            let a: PrimitiveArray<Float16Type> =
                vals.iter().map(|v| match v { V::Null => None, V::F(_, b) => Some(f16::from_bits(*b as u16)), _ => panic!() }).collect();
            Arc::new(a)
        }
        "f32" => {
            let a: PrimitiveArray<Float32Type> =
                vals.iter().map(|v| match v { V::Null => None, V::F(_, b) => Some(f32::from_bits(*b as u32)), _ => panic!() }).collect();
            Arc::new(a)
        }
        "f64" => {
            let a: PrimitiveArray<Float64Type> =
                vals.iter().map(|v| match v { V::Null => None, V::F(_, b) => Some(f64::from_bits(*b)), _ => panic!() }).collect();
            Arc::new(a)
        }
        "bool" => {
            let a: BooleanArray = vals.iter().map(|v| as_i128(v).map(|x| x != 0)).collect();
            Arc::new(a)
        }
        x => panic!("unknown prim {}", x),
    }
}

fn bytes_of(v: &V) -> Option<&[u8]> {
    match v {
        V::Null => None,
        V::Bytes(b) => Some(b.as_slice()),
        _ => panic!("bytes expected"),
    }
}

fn build_bytes(b: &str, vals: &[V]) -> ArrayRef {
    let s = |x: &[u8]| std::str::from_utf8(x).expect("utf8").to_string();
    match b {
        "utf8" => Arc::new(vals.iter().map(|v| bytes_of(v).map(s)).collect::<StringArray>()),
        "lutf8" => Arc::new(vals.iter().map(|v| bytes_of(v).map(s)).collect::<LargeStringArray>()),
        "bin" => Arc::new(vals.iter().map(bytes_of).collect::<BinaryArray>()),
        "lbin" => Arc::new(vals.iter().map(bytes_of).collect::<LargeBinaryArray>()),
        "utf8v" => Arc::new(vals.iter().map(|v| bytes_of(v).map(s)).collect::<StringViewArray>()),
        _ => Arc::new(vals.iter().map(bytes_of).collect::<BinaryViewArray>()),
    }
}

macro_rules! with_key {
    ($k:expr, $m:ident, $($args:expr),*) => {
        match $k {
            "i8" => $m!(Int8Type, $($args),*),
            "i16" => $m!(Int16Type, $($args),*),
            "i32" => $m!(Int32Type, $($args),*),
            "i64" => $m!(Int64Type, $($args),*),
            "u8" => $m!(UInt8Type, $($args),*),
            "u16" => $m!(UInt16Type, $($args),*),
            "u32" => $m!(UInt32Type, $($args),*),
            _ => $m!(UInt64Type, $($args),*),
        }
    };
}

fn build_dict(k: &str, inner: &Ty, vals: &[V], var: u64) -> ArrayRef {
    let mode = (var >> 4) & 3;
    let mut dict: Vec<V> = vec![];
    let mut keys: Vec<Option<usize>> = vec![];
    if mode == 3 {
        dict.push(V::Null);
    }
    for (row, v) in vals.iter().enumerate() {
        if *v == V::Null {
            // a null row is a null key, or (mode 3, odd rows) a valid key pointing at a null value
            keys.push(if mode == 3 && row % 2 == 1 { Some(0) } else { None });
            continue;
        }
        let pos = if mode == 2 { None } else { dict.iter().position(|d| d == v) };
        match pos {
            Some(p) => keys.push(Some(p)),
            None => {
                dict.push(v.clone());
                keys.push(Some(dict.len() - 1));
            }
        }
    }
    if mode == 1 {
        dict.reverse();
        let n = dict.len();
        for k in keys.iter_mut() {
            *k = k.map(|p| n - 1 - p);
        }
    }
    if mode == 3 && dict.len() > 1 {
        dict.push(dict[1].clone()); // unused duplicate entry
    }
    let values = build_raw(inner, &dict, var);
    macro_rules! mk {
        ($t:ty, $keys:expr, $values:expr) => {{
            let ka: PrimitiveArray<$t> = $keys.iter().map(|k| k.map(|p| p as <$t as ArrowPrimitiveType>::Native)).collect();
            Arc::new(DictionaryArray::<$t>::try_new(ka, $values).expect("dict")) as ArrayRef
        }};
    }
    with_key!(k, mk, keys, values)
}

fn build_ree(k: &str, inner: &Ty, vals: &[V], var: u64) -> ArrayRef {
    let mode = (var >> 4) & 3;
    let mut run_vals: Vec<V> = vec![];
    let mut run_ends: Vec<usize> = vec![];
    for (i, v) in vals.iter().enumerate() {
        let merge = match mode {
            0 => i > 0 && vals[i - 1] == *v,
            1 => false,
            _ => i % 2 == 1 && vals[i - 1] == *v,
        };
        if merge {
            *run_ends.last_mut().unwrap() = i + 1;
        } else {
            run_vals.push(v.clone());
            run_ends.push(i + 1);
        }
    }
    let values = build_raw(inner, &run_vals, var);
    match k {
        "i16" => {
            let re: PrimitiveArray<Int16Type> = run_ends.iter().map(|x| Some(*x as i16)).collect();
            Arc::new(RunArray::<Int16Type>::try_new(&re, values.as_ref()).expect("ree"))
        }
        "i32" => {
            let re: PrimitiveArray<Int32Type> = run_ends.iter().map(|x| Some(*x as i32)).collect();
            Arc::new(RunArray::<Int32Type>::try_new(&re, values.as_ref()).expect("ree"))
        }
        _ => {
            let re: PrimitiveArray<Int64Type> = run_ends.iter().map(|x| Some(*x as i64)).collect();
            Arc::new(RunArray::<Int64Type>::try_new(&re, values.as_ref()).expect("ree"))
        }
    }
}

fn build_list(kind: &str, inner: &Ty, vals: &[V], var: u64) -> ArrayRef {
    let field = Arc::new(Field::new("item", data_type(inner), true));
    let rows: Vec<&[V]> = vals
        .iter()
        .map(|v| match v {
            V::Null => &[][..],
            V::List(l) => l.as_slice(),
            _ => panic!("list expected"),
        })
        .collect();
    let nulls = nulls_of(vals, var);
    if kind == "list" || kind == "llist" {
        let flat: Vec<V> = rows.iter().flat_map(|r| r.iter().cloned()).collect();
        let child = build_raw(inner, &flat, var);
        let lens = rows.iter().map(|r| r.len());
        if kind == "list" {
            Arc::new(ListArray::try_new(field, OffsetBuffer::from_lengths(lens), child, nulls).expect("list"))
        } else {
            Arc::new(LargeListArray::try_new(field, OffsetBuffer::from_lengths(lens), child, nulls).expect("llist"))
        }
    } else {
        // list views: rows stored in reverse order in the child
        let mut flat: Vec<V> = vec![];
        let mut offs = vec![0usize; rows.len()];
        for (i, r) in rows.iter().enumerate().rev() {
            offs[i] = flat.len();
            flat.extend(r.iter().cloned());
        }
        let child = build_raw(inner, &flat, var);
        if kind == "lview" {
            let o: ScalarBuffer<i32> = offs.iter().map(|x| *x as i32).collect::<Vec<_>>().into();
            let s: ScalarBuffer<i32> = rows.iter().map(|r| r.len() as i32).collect::<Vec<_>>().into();
            Arc::new(ListViewArray::try_new(field, o, s, child, nulls).expect("lview"))
        } else {
            let o: ScalarBuffer<i64> = offs.iter().map(|x| *x as i64).collect::<Vec<_>>().into();
            let s: ScalarBuffer<i64> = rows.iter().map(|r| r.len() as i64).collect::<Vec<_>>().into();
            Arc::new(LargeListViewArray::try_new(field, o, s, child, nulls).expect("llview"))
        }
    }
}

/// build without slicing
fn build_raw(ty: &Ty, vals: &[V], var: u64) -> ArrayRef {
    match ty {
        Ty::Prim(p) => build_prim(p, vals, data_type(ty), var),
        Ty::Bytes(b) => build_bytes(b, vals),
        Ty::Fsb(n) => Arc::new(
            FixedSizeBinaryArray::try_from_sparse_iter_with_size(vals.iter().map(bytes_of), *n as i32).expect("fsb"),
        ),
        Ty::Dict(k, v) => build_dict(k, v, vals, var),
        Ty::Ree(k, v) => build_ree(k, v, vals, var),
        Ty::List(k, v) => build_list(k, v, vals, var),
        Ty::Fsl(n, inner) => {
            let field = Arc::new(Field::new("item", data_type(inner), true));
            let flat: Vec<V> = vals
                .iter()
                .flat_map(|v| match v {
                    V::Null => vec![V::Null; *n],
                    V::List(l) => {
                        assert_eq!(l.len(), *n);
                        l.clone()
                    }
                    _ => panic!(),
                })
                .collect();
            let child = build_raw(inner, &flat, var);
            Arc::new(FixedSizeListArray::try_new_with_length(field, *n as i32, child, nulls_of(vals, var), vals.len()).expect("fsl"))
        }
        Ty::Struct(fs) => {
            let cols: Vec<ArrayRef> = fs
                .iter()
                .enumerate()
                .map(|(k, ft)| {
                    let c: Vec<V> = vals
                        .iter()
                        .map(|v| match v {
                            V::Null => V::Null,
                            V::Struct(s) => s[k].clone(),
                            _ => panic!(),
                        })
                        .collect();
                    build_raw(ft, &c, var)
                })
                .collect();
            Arc::new(StructArray::try_new_with_length(struct_fields(fs), cols, nulls_of(vals, var), vals.len()).expect("struct"))
        }
    }
}

fn has_view(ty: &Ty) -> bool {
    match ty {
        Ty::Bytes(b) => b.ends_with('v'),
        Ty::Dict(_, v) | Ty::Ree(_, v) | Ty::List(_, v) | Ty::Fsl(_, v) => has_view(v),
        Ty::Struct(fs) => fs.iter().any(has_view),
        _ => false,
    }
}

fn long_filler(ty: &Ty) -> V {
    // a value of the type whose byte leaves are longer than 12 bytes (forces a data buffer in views)
    match ty {
        Ty::Bytes(_) => V::Bytes(b"zzzzzzzzzzzzzzzzzzzz".to_vec()),
        Ty::Dict(_, v) | Ty::Ree(_, v) => long_filler(v),
        Ty::List(_, v) => V::List(vec![long_filler(v)]),
        Ty::Fsl(n, v) => V::List(vec![long_filler(v); *n]),
        Ty::Struct(fs) => V::Struct(fs.iter().map(long_filler).collect()),
        _ => V::Null,
    }
}

/// build the array for `vals` in the physical variant `var`:
/// bits 0-1 leading pad rows, bit 2 trailing pad row, bit 3 pads are nulls (else copies),
/// bits 4-5 dictionary / run layout, bit 6 explicit all-valid null buffer on nested types,
/// bit 7 (views) force a data buffer via a long trailing pad value, bit 8 pass `None` options
/// when they are the default, bit 9 `sort` instead of `sort_limit`, bit 10 arbitrary values
/// under null slots of integer-backed primitives.
fn build(ty: &Ty, vals: &[V], var: u64) -> ArrayRef {
    let front = (var & 3) as usize;
    let mut back = ((var >> 2) & 1) as usize;
    let pad = |k: usize| -> V {
        if (var >> 3) & 1 == 1 || vals.is_empty() { V::Null } else { vals[k % vals.len()].clone() }
    };
    let mut padded: Vec<V> = (0..front).map(|k| pad(k + 1)).collect();
    padded.extend(vals.iter().cloned());
    if (var >> 7) & 1 == 1 && has_view(ty) {
        back = 0;
        padded.push(long_filler(ty));
    }
    for k in 0..back {
        padded.push(pad(k + 5));
    }
    let a = build_raw(ty, &padded, var);
    if a.len() == vals.len() { a } else { a.slice(front, vals.len()) }
}

// ------------------------------------------------------------------------------ helpers

fn opts_of(s: &str) -> SortOptions {
    let b = s.as_bytes();
    SortOptions { descending: b[0] == b'd', nulls_first: b[1] == b'f' }
}
fn opts_str(o: SortOptions) -> String {
    format!("{}{}", if o.descending { 'd' } else { 'a' }, if o.nulls_first { 'f' } else { 'l' })
}
fn limit_of(s: &str) -> Option<usize> {
    if s == "-" { None } else { Some(s.parse().unwrap()) }
}
fn err_class(e: &ArrowError) -> String {
    match e {
        ArrowError::InvalidArgumentError(_) => "ERR:invalid-arg".into(),
        ArrowError::ComputeError(_) => "ERR:compute".into(),
        ArrowError::NotYetImplemented(_) => "ERR:not-impl".into(),
        _ => "ERR:other".into(),
    }
}
fn ord_ch(o: Ordering) -> char {
    match o {
        Ordering::Less => '<',
        Ordering::Equal => '=',
        Ordering::Greater => '>',
    }
}

/// indices form a sorted prefix of a permutation under `cmp`: length, distinct, in range,
/// non-decreasing, nothing omitted is strictly before something included
fn check_sorted_prefix(idx: &[u32], len: usize, limit: Option<usize>, cmp: &dyn Fn(usize, usize) -> Ordering) -> Option<String> {
    let k = limit.unwrap_or(len).min(len);
    if idx.len() != k {
        return Some(format!("length {} expected {}", idx.len(), k));
    }
    let mut seen = vec![false; len];
    for &i in idx {
        if i as usize >= len {
            return Some(format!("index {} out of range", i));
        }
        if seen[i as usize] {
            return Some(format!("index {} repeated", i));
        }
        seen[i as usize] = true;
    }
    for w in idx.windows(2) {
        if cmp(w[0] as usize, w[1] as usize) == Ordering::Greater {
            return Some(format!("not sorted at {} {}", w[0], w[1]));
        }
    }
    if let Some(&last) = idx.last() {
        for b in 0..len {
            if !seen[b] && cmp(last as usize, b) == Ordering::Greater {
                return Some(format!("omitted row {} sorts before included row {}", b, last));
            }
        }
    }
    None
}

/// rows of `a` and `b` are pairwise equal (null = null) under the comparator
fn rows_equal(a: &dyn Array, b: &dyn Array) -> Result<bool, ArrowError> {
    if a.len() != b.len() || a.data_type() != b.data_type() {
        return Ok(false);
    }
    let c = make_comparator(a, b, SortOptions::default())?;
    let (an, bn) = (a.logical_nulls(), b.logical_nulls());
    for i in 0..a.len() {
        let x = an.as_ref().map(|n| n.is_null(i)).unwrap_or(false);
        let y = bn.as_ref().map(|n| n.is_null(i)).unwrap_or(false);
        if x != y || c(i, i) != Ordering::Equal {
            return Ok(false);
        }
    }
    Ok(true)
}

struct Out {
    answer: String,
    oracle: Vec<String>,
}
fn out(a: String) -> Out {
    Out { answer: a, oracle: vec![] }
}

fn run_case(line: &str) -> Out {
    let t: Vec<&str> = line.split(' ').collect();
    assert_eq!(t[0], "C10");
    let us = |s: &str| s.parse::<u64>().unwrap();
    let mut oracle: Vec<String> = vec![];
    let answer = match t[1] {
        "cmp" => {
            // C10 cmp <type> <varL> <varR> <opts> <colL> <colR>
            let (ty, vl, vr, o, l, r) = (ty_of(t[2]), us(t[3]), us(t[4]), opts_of(t[5]), parse_col(t[6]), parse_col(t[7]));
            let orc = &mut oracle;
            guarded(move || {
                let (la, ra) = (build(&ty, &l, vl), build(&ty, &r, vr));
                let c = match make_comparator(la.as_ref(), ra.as_ref(), o) {
                    Ok(c) => c,
                    Err(e) => return err_class(&e),
                };
                let rev = make_comparator(ra.as_ref(), la.as_ref(), o).unwrap();
                let own = make_comparator(la.as_ref(), la.as_ref(), o).unwrap();
                for i in 0..l.len() {
                    if own(i, i) != Ordering::Equal {
                        orc.push(format!("comparator not reflexive at row {}", i));
                    }
                    for j in 0..r.len() {
                        if rev(j, i) != c(i, j).reverse() {
                            orc.push(format!("comparator not antisymmetric at {} {}", i, j));
                        }
                    }
                }
                if l.is_empty() {
                    return "-".into();
                }
                (0..l.len())
                    .map(|i| if r.is_empty() { "-".to_string() } else { (0..r.len()).map(|j| ord_ch(c(i, j))).collect::<String>() })
                    .collect::<Vec<_>>()
                    .join("/")
            })
        }
        "sort" => {
            // C10 sort <type> <var> <opts> <limit> <col>
            let (ty, var, o, lim, col) = (ty_of(t[2]), us(t[3]), opts_of(t[4]), limit_of(t[5]), parse_col(t[6]));
            let orc = &mut oracle;
            guarded(move || {
                let a = build(&ty, &col, var);
                let pass_none = o == SortOptions::default() && (var >> 8) & 1 == 1;
                let so = if pass_none { None } else { Some(o) };
                let idx = match sort_to_indices(a.as_ref(), so, lim) {
                    Ok(i) => i,
                    Err(e) => return err_class(&e),
                };
                if idx.null_count() != 0 {
                    orc.push("indices contain nulls".into());
                }
                let c = make_comparator(a.as_ref(), a.as_ref(), o).unwrap();
                if let Some(w) = check_sorted_prefix(idx.values(), col.len(), lim, &|i, j| c(i, j)) {
                    orc.push(format!("sort_to_indices: {}", w));
                }
                // sort / sort_limit return the rows at those positions
                let sorted = if lim.is_none() && (var >> 9) & 1 == 1 { sort(a.as_ref(), so) } else { sort_limit(a.as_ref(), so, lim) };
                match (sorted, take(a.as_ref(), &idx, None)) {
                    (Ok(s), Ok(tk)) => match rows_equal(s.as_ref(), tk.as_ref()) {
                        Ok(true) => {}
                        Ok(false) => orc.push("sort/sort_limit output differs from take(sort_to_indices)".into()),
                        Err(_) => {}
                    },
                    (Err(e), _) => orc.push(format!("sort failed {}", err_class(&e))),
                    (_, Err(_)) => {}
                }
                show_list(&idx.values().iter().map(|i| tok(&col[*i as usize])).collect::<Vec<_>>())
            })
        }
        "lexsort" => {
            // C10 lexsort <limit> <ncols> (<type> <var> <opts> <col>)*
            let lim = limit_of(t[2]);
            let n = us(t[3]) as usize;
            let specs: Vec<(Ty, u64, SortOptions, Vec<V>)> =
                (0..n).map(|k| (ty_of(t[4 + 4 * k]), us(t[5 + 4 * k]), opts_of(t[6 + 4 * k]), parse_col(t[7 + 4 * k]))).collect();
            let orc = &mut oracle;
            guarded(move || {
                let cols: Vec<SortColumn> =
                    specs.iter().map(|(ty, var, o, c)| SortColumn { values: build(ty, c, *var), options: Some(*o) }).collect();
                let idx = match lexsort_to_indices(&cols, lim) {
                    Ok(i) => i,
                    Err(e) => return err_class(&e),
                };
                let rows = specs[0].3.len();
                let lc = LexicographicalComparator::try_new(&cols).unwrap();
                if let Some(w) = check_sorted_prefix(idx.values(), rows, lim, &|i, j| lc.compare(i, j)) {
                    orc.push(format!("lexsort_to_indices: {}", w));
                }
                show_list(
                    &idx.values()
                        .iter()
                        .map(|i| specs.iter().map(|s| tok(&s.3[*i as usize])).collect::<Vec<_>>().join("|"))
                        .collect::<Vec<_>>(),
                )
            })
        }
        "rank" => {
            // C10 rank <type> <var> <opts> <col>
            let (ty, var, o, col) = (ty_of(t[2]), us(t[3]), opts_of(t[4]), parse_col(t[5]));
            let orc = &mut oracle;
            guarded(move || {
                let a = build(&ty, &col, var);
                let r = match rank(a.as_ref(), Some(o)) {
                    Ok(r) => r,
                    Err(e) => return err_class(&e),
                };
                let c = make_comparator(a.as_ref(), a.as_ref(), o).unwrap();
                for i in 0..col.len() {
                    let want = (0..col.len()).filter(|j| c(*j, i) != Ordering::Greater).count();
                    if r[i] as usize != want {
                        orc.push(format!("rank[{}]={} but {} rows are <= it under the comparator", i, r[i], want));
                    }
                }
                show_list(&r)
            })
        }
        "partition" => {
            // C10 partition <ncols> (<type> <var> <col>)*
            let n = us(t[2]) as usize;
            let specs: Vec<(Ty, u64, Vec<V>)> = (0..n).map(|k| (ty_of(t[3 + 3 * k]), us(t[4 + 3 * k]), parse_col(t[5 + 3 * k]))).collect();
            let orc = &mut oracle;
            guarded(move || {
                let cols: Vec<ArrayRef> = specs.iter().map(|(ty, var, c)| build(ty, c, *var)).collect();
                let p = match partition(&cols) {
                    Ok(p) => p,
                    Err(e) => return err_class(&e),
                };
                let ranges = p.ranges();
                if ranges.len() != p.len() {
                    orc.push("Partitions::len differs from ranges().len()".into());
                }
                // oracle: boundaries exactly where adjacent rows differ under the comparators
                let cs: Vec<_> = cols.iter().map(|c| make_comparator(c.as_ref(), c.as_ref(), SortOptions::default()).unwrap()).collect();
                let rows = specs[0].2.len();
                let mut want = vec![];
                let mut start = 0;
                for i in 0..rows {
                    if i + 1 == rows || cs.iter().any(|c| c(i, i + 1) != Ordering::Equal) {
                        want.push(start..i + 1);
                        start = i + 1;
                    }
                }
                if want != ranges {
                    orc.push(format!("partition ranges {:?} but comparator gives {:?}", ranges, want));
                }
                show_list(&ranges.iter().map(|r| format!("{}:{}", r.start, r.end)).collect::<Vec<_>>())
            })
        }
        "kernel" => {
            // C10 kernel <op> <tyL> <tyR> <varL> <varR> <sc> <colL> <colR>
            let (op, tl, tr, vl, vr, sc, l, r) =
                (t[2].to_string(), ty_of(t[3]), ty_of(t[4]), us(t[5]), us(t[6]), t[7].to_string(), parse_col(t[8]), parse_col(t[9]));
            let orc = &mut oracle;
            guarded(move || {
                let (la, ra) = (build(&tl, &l, vl), build(&tr, &r, vr));
                let (ls, rs) = (sc.as_bytes()[0] == b's', sc.as_bytes()[1] == b's');
                let f = |a: &dyn Datum, b: &dyn Datum| match op.as_str() {
                    "eq" => cmp::eq(a, b),
                    "neq" => cmp::neq(a, b),
                    "lt" => cmp::lt(a, b),
                    "lt_eq" => cmp::lt_eq(a, b),
                    "gt" => cmp::gt(a, b),
                    "gt_eq" => cmp::gt_eq(a, b),
                    "distinct" => cmp::distinct(a, b),
                    _ => cmp::not_distinct(a, b),
                };
                let res = match (ls, rs) {
                    (false, false) => f(&la, &ra),
                    (true, false) => f(&Scalar::new(la.clone()), &ra),
                    (false, true) => f(&la, &Scalar::new(ra.clone())),
                    (true, true) => f(&Scalar::new(la.clone()), &Scalar::new(ra.clone())),
                };
                let b = match res {
                    Ok(b) => b,
                    Err(e) => return err_class(&e),
                };
                // oracle: agree with make_comparator where both sides have the same type
                if la.data_type() == ra.data_type() {
                    if let Ok(c) = make_comparator(la.as_ref(), ra.as_ref(), SortOptions::default()) {
                        let (ln, rn) = (la.logical_nulls(), ra.logical_nulls());
                        for k in 0..b.len() {
                            let (i, j) = (if ls { 0 } else { k }, if rs { 0 } else { k });
                            let lnull = ln.as_ref().map(|n| n.is_null(i)).unwrap_or(false);
                            let rnull = rn.as_ref().map(|n| n.is_null(j)).unwrap_or(false);
                            let o = c(i, j);
                            let want: Option<bool> = match op.as_str() {
                                "distinct" => Some(o != Ordering::Equal),
                                "not_distinct" => Some(o == Ordering::Equal),
                                _ if lnull || rnull => None,
                                "eq" => Some(o == Ordering::Equal),
                                "neq" => Some(o != Ordering::Equal),
                                "lt" => Some(o == Ordering::Less),
                                "lt_eq" => Some(o != Ordering::Greater),
                                "gt" => Some(o == Ordering::Greater),
                                _ => Some(o != Ordering::Less),
                            };
                            let got = if b.is_null(k) { None } else { Some(b.value(k)) };
                            if got != want {
                                orc.push(format!("kernel {} row {}: {:?} but comparator says {:?}", op, k, got, want));
                            }
                        }
                    }
                }
                if b.is_empty() {
                    return "-".into();
                }
                (0..b.len()).map(|k| if b.is_null(k) { 'n' } else if b.value(k) { '1' } else { '0' }).collect()
            })
        }
        "psort" => {
            let lim = us(t[2]) as usize;
            let mut v: Vec<i64> = parse_list(t[3]);
            guarded(move || {
                partial_sort(&mut v, lim, |a, b| a.cmp(b));
                show_list(&v[..lim.min(v.len())])
            })
        }
        _ => "bad-op".into(),
    };
    Out { answer, oracle }
}

// ------------------------------------------------------------------------------ generators

fn gen_int(p: &str, rng: &mut Rng) -> V {
    let (lo, hi): (i128, i128) = match p {
        "i8" => (i8::MIN as i128, i8::MAX as i128),
        "i16" => (i16::MIN as i128, i16::MAX as i128),
        "u8" => (0, u8::MAX as i128),
        "u16" => (0, u16::MAX as i128),
        "u32" => (0, u32::MAX as i128),
        "u64" => (0, u64::MAX as i128),
        "i64" | "d64" | "date64" | "ts_s" | "ts_ms" | "ts_us" | "ts_ns" | "dur_s" | "dur_ms" | "dur_us" | "dur_ns" | "t64us" | "t64ns" => {
            (i64::MIN as i128, i64::MAX as i128)
        }
        "d128" | "d256" => (i128::MIN, i128::MAX),
        "bool" => (0, 1),
        _ => (i32::MIN as i128, i32::MAX as i128),
    };
    let x = match rng.below(8) {
        0 => lo,
        1 => hi,
        2 => 0.max(lo),
        3 => (-1).max(lo),
        4 => 1,
        5 => lo + 1,
        6 => hi - 1,
        _ => {
            let r = ((rng.next_u64() as i128) << 64 | rng.next_u64() as i128) >> (rng.below(120) as u32);
            r.clamp(lo, hi)
        }
    };
    let mut v = i256::from_i128(x.clamp(lo, hi));
    if p == "d256" && rng.chance(1, 3) {
        // beyond i128: multiply up
        v = v.wrapping_mul(i256::from_i128(1 << 40)).wrapping_add(i256::from_i128(rng.below(5) as i128));
    }
    V::Int(v)
}

fn gen_float(w: u8, rng: &mut Rng) -> V {
    let (ebits, mbits) = match w {
        16 => (5u32, 10u32),
        32 => (8, 23),
        _ => (11, 52),
    };
    let sign = rng.below(2) << (w as u32 - 1);
    let emax = (1u64 << ebits) - 1;
    let mmask = (1u64 << mbits) - 1;
    let body = match rng.below(10) {
        0 => 0,                                                   // ±0
        1 => emax << mbits,                                       // ±inf
        2 => (emax << mbits) | (1 << (mbits - 1)),                // quiet NaN
        3 => (emax << mbits) | 1,                                 // signalling NaN, smallest payload
        4 => (emax << mbits) | (rng.next_u64() & mmask).max(1),   // NaN with payload
        5 => 1 + rng.below(3),                                    // subnormals
        6 => mmask,                                               // largest subnormal
        7 => ((emax - 1) << mbits) | mmask,                       // max finite
        8 => 1 << mbits,                                          // min normal
        _ => rng.next_u64() & ((1u64 << (w as u32 - 1)) - 1),
    };
    V::F(w, sign | body)
}

fn gen_bytes(utf8: bool, rng: &mut Rng, base: &[u8]) -> V {
    // prefixes of a shared base around the 4-byte prefix and the 12-byte inline limit, with
    // occasional changes / extensions (trailing zero bytes matter for padded keys)
    let lens = [0usize, 1, 2, 3, 4, 5, 6, 7, 8, 11, 12, 13, 14, 16, 20];
    let l = (*rng.pick(&lens)).min(base.len());
    let mut b = base[..l].to_vec();
    match rng.below(6) {
        0 if !b.is_empty() => {
            let i = rng.usize(b.len());
            b[i] = if utf8 { *rng.pick(&[0u8, b'a', b'b', 0x7f]) } else { *rng.pick(&[0u8, 1, 0x7f, 0x80, 0xff]) };
        }
        1 => b.push(0),
        2 => b.extend_from_slice(&[0, 0]),
        3 if !utf8 => b.push(0xff),
        4 if utf8 => b.extend_from_slice("é".as_bytes()),
        _ => {}
    }
    V::Bytes(b)
}

fn gen_base(utf8: bool, rng: &mut Rng) -> Vec<u8> {
    let alpha: &[u8] = if utf8 { &[0, b'a', b'a', b'b', 0x7f] } else { &[0, 0, 1, b'a', 0x80, 0xff] };
    (0..20).map(|_| *rng.pick(alpha)).collect()
}

/// a pool of a few non-null values of the type
fn gen_pool(ty: &Ty, rng: &mut Rng, n: usize) -> Vec<V> {
    match ty {
        Ty::Prim(p) => (0..n)
            .map(|_| match p.as_str() {
                "f16" => gen_float(16, rng),
                "f32" => gen_float(32, rng),
                "f64" => gen_float(64, rng),
                "idt" => V::Tup(vec![rng.range(-2, 2), *rng.pick(&[i32::MIN as i64, -1, 0, 1, i32::MAX as i64])]),
                "imdn" => V::Tup(vec![rng.range(-1, 1), rng.range(-1, 1), *rng.pick(&[i64::MIN, -1, 0, 1, i64::MAX])]),
                _ => gen_int(p, rng),
            })
            .collect(),
        Ty::Bytes(b) => {
            let utf8 = b.contains("utf8");
            let base = gen_base(utf8, rng);
            (0..n).map(|_| gen_bytes(utf8, rng, &base)).collect()
        }
        Ty::Fsb(k) => {
            let base = gen_base(false, rng);
            (0..n)
                .map(|_| {
                    let mut b = base[..*k].to_vec();
                    if *k > 0 && rng.bool() {
                        let i = rng.usize(*k);
                        b[i] = *rng.pick(&[0u8, 1, 0x80, 0xff]);
                    }
                    V::Bytes(b)
                })
                .collect()
        }
        Ty::Dict(_, v) | Ty::Ree(_, v) => gen_pool(v, rng, n),
        Ty::List(_, v) => {
            let child = gen_pool(v, rng, 3);
            (0..n).map(|_| V::List((0..rng.usize(4)).map(|_| pick_or_null(&child, rng, 5)).collect())).collect()
        }
        Ty::Fsl(k, v) => {
            let child = gen_pool(v, rng, 3);
            (0..n).map(|_| V::List((0..*k).map(|_| pick_or_null(&child, rng, 5)).collect())).collect()
        }
        Ty::Struct(fs) => {
            let pools: Vec<Vec<V>> = fs.iter().map(|f| gen_pool(f, rng, 2)).collect();
            (0..n).map(|_| V::Struct(pools.iter().map(|p| pick_or_null(p, rng, 5)).collect())).collect()
        }
    }
}
fn pick_or_null(pool: &[V], rng: &mut Rng, null_one_in: u64) -> V {
    if pool.is_empty() || rng.chance(1, null_one_in) { V::Null } else { rng.pick(pool).clone() }
}

/// a column of `len` rows drawn from a small pool (duplicates) with nulls
fn gen_col(ty: &Ty, rng: &mut Rng, len: usize) -> Vec<V> {
    let np = 2 + rng.usize(5);
    let pool = gen_pool(ty, rng, np);
    let nulls = *rng.pick(&[0u64, 0, 3, 5, 2]);
    (0..len).map(|_| if nulls > 0 && rng.chance(1, nulls) { V::Null } else { rng.pick(&pool).clone() }).collect()
}

fn gen_leaf(rng: &mut Rng) -> Ty {
    match rng.below(10) {
        0..=2 => Ty::Prim(rng.pick(INT_PRIMS).to_string()),
        3..=5 => Ty::Prim(rng.pick(OTHER_PRIMS).to_string()),
        6..=8 => Ty::Bytes(rng.pick(BYTES).to_string()),
        _ => Ty::Fsb(*rng.pick(&[1usize, 2, 3, 4, 5, 13])),
    }
}
/// a leaf type `rank` supports
fn gen_rankable(rng: &mut Rng) -> Ty {
    loop {
        let t = gen_leaf(rng);
        if !matches!(t, Ty::Fsb(_)) {
            return t;
        }
    }
}
/// a type `sort_to_indices` supports
fn gen_sortable(rng: &mut Rng) -> Ty {
    match rng.below(12) {
        0..=5 => gen_leaf(rng),
        6 | 7 => Ty::Dict(rng.pick(KEYS).to_string(), Box::new(gen_rankable(rng))),
        8 => Ty::List(rng.pick(&["list", "llist", "lview", "llview"]).to_string(), Box::new(gen_rankable(rng))),
        9 => Ty::Fsl(*rng.pick(&[0usize, 1, 2, 3]), Box::new(gen_rankable(rng))),
        _ => Ty::Ree(rng.pick(RUNS).to_string(), Box::new(if rng.bool() { gen_leaf(rng) } else { gen_sortable(rng) })),
    }
}
/// a type `make_comparator` supports (nested allowed)
fn gen_comparable(rng: &mut Rng, depth: u32) -> Ty {
    if depth == 0 {
        return gen_leaf(rng);
    }
    match rng.below(12) {
        0..=4 => gen_leaf(rng),
        5 => Ty::Dict(rng.pick(KEYS).to_string(), Box::new(gen_comparable(rng, depth - 1))),
        6 => Ty::Ree(rng.pick(RUNS).to_string(), Box::new(gen_comparable(rng, depth - 1))),
        7 | 8 => Ty::List(rng.pick(&["list", "llist", "lview", "llview"]).to_string(), Box::new(gen_comparable(rng, depth - 1))),
        9 => Ty::Fsl(*rng.pick(&[1usize, 2, 3]), Box::new(gen_comparable(rng, depth - 1))),
        _ => Ty::Struct((0..1 + rng.usize(3)).map(|_| gen_comparable(rng, depth - 1)).collect()),
    }
}
fn gen_opts(rng: &mut Rng) -> SortOptions {
    SortOptions { descending: rng.bool(), nulls_first: rng.bool() }
}
fn gen_var(rng: &mut Rng) -> u64 {
    if rng.chance(1, 4) { 0 } else { rng.below(2048) }
}
fn ty_tags(t: &Ty) -> String {
    match t {
        Ty::Prim(p) | Ty::Bytes(p) => format!("ty:{}", p),
        Ty::Fsb(_) => "ty:fsb".into(),
        Ty::Dict(_, v) => format!("ty:dict {}", ty_tags(v)),
        Ty::Ree(_, v) => format!("ty:ree {}", ty_tags(v)),
        Ty::List(k, v) => format!("ty:{} {}", k, ty_tags(v)),
        Ty::Fsl(_, v) => format!("ty:fsl {}", ty_tags(v)),
        Ty::Struct(fs) => format!("ty:struct {}", fs.iter().map(ty_tags).collect::<Vec<_>>().join(" ")),
    }
}
fn col_tags(c: &[V]) -> String {
    let nulls = c.iter().filter(|v| **v == V::Null).count();
    let mut d: Vec<String> = c.iter().map(tok).collect();
    d.sort();
    d.dedup();
    format!(
        "{} {}",
        if nulls == 0 { "nulls:none" } else if nulls == c.len() { "nulls:all" } else { "nulls:some" },
        if d.len() < c.len() { "dups:yes" } else { "dups:no" }
    )
}

fn wrap_tag(t: &Ty) -> &'static str {
    match t {
        Ty::Dict(..) => "dict",
        Ty::Ree(_, v) if matches!(**v, Ty::Dict(..)) => "ree-dict",
        Ty::Ree(..) => "ree",
        _ => "plain",
    }
}

fn gen_len(rng: &mut Rng) -> usize {
    match rng.below(10) {
        0 => 0,
        1 => 1,
        2 => 2,
        3..=7 => 3 + rng.usize(10),
        _ => 13 + rng.usize(28),
    }
}

fn gen_case(rng: &mut Rng) -> (String, String) {
    match rng.below(20) {
        0..=3 => {
            let ty = gen_comparable(rng, 2);
            let (l, r) = (gen_len(rng).min(8), gen_len(rng).min(8));
            // both sides from one pool so that equal values occur across the arrays
            let np = 2 + rng.usize(4);
            let pool = gen_pool(&ty, rng, np);
            let lc: Vec<V> = (0..l).map(|_| pick_or_null(&pool, rng, 4)).collect();
            let rc: Vec<V> = (0..r).map(|_| pick_or_null(&pool, rng, 4)).collect();
            let o = gen_opts(rng);
            (
                format!("C10 cmp {} {} {} {} {} {}", ty_str(&ty), gen_var(rng), gen_var(rng), opts_str(o), col_str(&lc), col_str(&rc)),
                format!("op:cmp opts:{} {} {} {}", opts_str(o), ty_tags(&ty), col_tags(&lc), if l > 0 && r > 0 { "nt" } else { "" }),
            )
        }
        4..=8 => {
            let ty = gen_sortable(rng);
            let len = gen_len(rng);
            let col = gen_col(&ty, rng, len);
            let o = gen_opts(rng);
            let lim = if rng.chance(2, 5) { None } else { Some(rng.usize(len + 2)) };
            let lt = match lim {
                None => "limit:none".to_string(),
                Some(0) => "limit:0".into(),
                Some(l) if l == len => "limit:len".into(),
                Some(l) if l > len => "limit:over".into(),
                Some(_) => "limit:partial".into(),
            };
            (
                format!(
                    "C10 sort {} {} {} {} {}",
                    ty_str(&ty),
                    gen_var(rng),
                    opts_str(o),
                    lim.map(|l| l.to_string()).unwrap_or("-".into()),
                    col_str(&col)
                ),
                format!("op:sort opts:{} {} {} {} {}", opts_str(o), lt, ty_tags(&ty), col_tags(&col), if len > 1 { "nt" } else { "" }),
            )
        }
        9..=11 => {
            let n = 1 + rng.usize(6);
            // the top-k heap path needs limit <= rows/10
            let heap = rng.chance(1, 3);
            let len = if heap { 10 + rng.usize(31) } else { gen_len(rng) };
            let lim = if heap {
                Some(1 + rng.usize(len / 10))
            } else if rng.chance(2, 5) {
                None
            } else {
                Some(rng.usize(len + 2))
            };
            let mut s = format!("C10 lexsort {} {}", lim.map(|l| l.to_string()).unwrap_or("-".into()), n);
            let mut tags = format!("op:lexsort cols:{} {}", n, if heap { "path:heap" } else { "path:sort" });
            for k in 0..n {
                let ty = if n == 1 { gen_comparable(rng, 1) } else if k == 0 && rng.bool() { Ty::Prim("bool".into()) } else { gen_comparable(rng, 1) };
                let col = gen_col(&ty, rng, len);
                let o = gen_opts(rng);
                s += &format!(" {} {} {} {}", ty_str(&ty), gen_var(rng), opts_str(o), col_str(&col));
                tags += &format!(" {}", ty_tags(&ty));
            }
            if len > 1 {
                tags += " nt";
            }
            (s, tags)
        }
        12 | 13 => {
            let ty = gen_rankable(rng);
            let len = gen_len(rng);
            let col = gen_col(&ty, rng, len);
            let o = gen_opts(rng);
            (
                format!("C10 rank {} {} {} {}", ty_str(&ty), gen_var(rng), opts_str(o), col_str(&col)),
                format!("op:rank opts:{} {} {} {}", opts_str(o), ty_tags(&ty), col_tags(&col), if len > 1 { "nt" } else { "" }),
            )
        }
        14 | 15 => {
            let n = 1 + rng.usize(3);
            let len = gen_len(rng);
            let mut s = format!("C10 partition {}", n);
            let mut tags = format!("op:partition cols:{}", n);
            for _ in 0..n {
                let ty = gen_comparable(rng, 1);
                // partition input is typically sorted: make runs
                let pool = gen_pool(&ty, rng, 3);
                let mut col = vec![];
                while col.len() < len {
                    let v = pick_or_null(&pool, rng, 5);
                    for _ in 0..1 + rng.usize(4) {
                        if col.len() < len {
                            col.push(v.clone());
                        }
                    }
                }
                s += &format!(" {} {} {}", ty_str(&ty), gen_var(rng), col_str(&col));
                tags += &format!(" {}", ty_tags(&ty));
            }
            if len > 1 {
                tags += " nt";
            }
            (s, tags)
        }
        16..=18 => {
            let leaf = gen_leaf(rng);
            let wrap = |rng: &mut Rng, t: &Ty| -> Ty {
                match rng.below(6) {
                    0 => Ty::Dict(rng.pick(KEYS).to_string(), Box::new(t.clone())),
                    1 => Ty::Ree(rng.pick(RUNS).to_string(), Box::new(t.clone())),
                    2 => Ty::Ree(rng.pick(RUNS).to_string(), Box::new(Ty::Dict(rng.pick(KEYS).to_string(), Box::new(t.clone())))),
                    _ => t.clone(),
                }
            };
            let (tl, tr) = (wrap(rng, &leaf), wrap(rng, &leaf));
            let sc = *rng.pick(&["aa", "aa", "aa", "as", "sa", "ss"]);
            let len = gen_len(rng);
            let np = 2 + rng.usize(4);
            let pool = gen_pool(&leaf, rng, np);
            let nl = *rng.pick(&[3u64, 4, 1000]);
            let nr = *rng.pick(&[3u64, 4, 1000]);
            let lc: Vec<V> = (0..if sc.starts_with('s') { 1 } else { len }).map(|_| pick_or_null(&pool, rng, nl)).collect();
            let rc: Vec<V> = (0..if sc.ends_with('s') { 1 } else { len }).map(|_| pick_or_null(&pool, rng, nr)).collect();
            let op = *rng.pick(&["eq", "neq", "lt", "lt_eq", "gt", "gt_eq", "distinct", "not_distinct"]);
            (
                format!(
                    "C10 kernel {} {} {} {} {} {} {} {}",
                    op,
                    ty_str(&tl),
                    ty_str(&tr),
                    gen_var(rng),
                    gen_var(rng),
                    sc,
                    col_str(&lc),
                    col_str(&rc)
                ),
                format!(
                    "op:kernel kop:{} sc:{} L:{} R:{} {} {}{}",
                    op,
                    sc,
                    wrap_tag(&tl),
                    wrap_tag(&tr),
                    ty_tags(&leaf),
                    if lc.len().max(rc.len()) > 0 { "nt" } else { "" },
                    // known finding: scalar/scalar with an encoded right operand (see known_findings.txt)
                    if sc == "ss" && matches!(tr, Ty::Dict(..) | Ty::Ree(..)) {
                        " kf:ss-encoded-rhs"
                    } else if (lc.is_empty() && matches!(tl, Ty::Ree(..))) || (rc.is_empty() && matches!(tr, Ty::Ree(..))) {
                        // fixed findings: zero-row (possibly sliced) run-end array as an operand
                        " kf:empty-ree"
                    } else {
                        ""
                    }
                ),
            )
        }
        _ => {
            let len = gen_len(rng);
            let v: Vec<i64> = (0..len).map(|_| rng.range(-5, 5)).collect();
            let lim = rng.usize(len + 1);
            (format!("C10 psort {} {}", lim, show_list(&v)), format!("op:psort {}", if len > 1 && lim > 0 { "nt" } else { "" }))
        }
    }
}

fn main() {
    let args = parse_args();
    if std::env::var("VERIF_LOUD").is_err() {
        quiet_panics();
    }
    let mut sink = Sink::new(&args.out);
    let emit = |sink: &mut Sink, line: String, tags: &str| {
        let o = run_case(&line);
        for w in o.oracle.iter().take(3) {
            sink.oracle_failure(line.clone(), w.clone(), tags);
        }
        sink.case(line, o.answer, tags);
    };
    if args.mode == "replay" {
        for line in read_cases(args.replay.as_ref().unwrap()) {
            emit(&mut sink, line, "replay");
        }
    } else {
        let mut rng = Rng::new(args.seed ^ 0xC10);
        let n = n_cases(&args, 20000, 400000);
        for _ in 0..n {
            let (line, tags) = gen_case(&mut rng);
            emit(&mut sink, line, &tags);
        }
    }
    let _ = out;
    sink.finish();
}
