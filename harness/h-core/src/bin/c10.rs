//! C10 correspondence harness: comparator, sort, lexsort, rank, partition, comparison kernels.
//!
//! Case lines (`C10 <op> …`), value tokens: `n` null, `i<int>`, `t<int>:<int>…` interval,
//! `g<hex4>`/`f<hex8>`/`d<hex16>` f16/f32/f64 bits, `x<hex>` bytes, `[v;v]` list, `{v;v}` struct.
//! Types are prefix terms joined by `:` (`list:dict:i8:utf8`, `fsl:2:i32`, `struct:2:i32:utf8`).
//! The `variant` integer selects the physical representation (slicing, dictionary layout,
//! run layout, data buffers of views, explicit all-valid null buffers).
use arrow_array::cast::AsArray;
use arrow_array::types::*;
use arrow_array::*;
use arrow_array::ArrowNativeTypeOp;
use arrow_buffer::{Buffer, IntervalDayTime, IntervalMonthDayNano, NullBuffer, OffsetBuffer, ScalarBuffer, i256};
use arrow_ord::cmp::compare_byte_view;
use arrow_ord::comparison::{in_list, in_list_utf8};
use arrow_ord::sort::{FixedLexicographicalComparator, lexsort, partition_validity};
use arrow_ord::cmp;
use arrow_ord::ord::make_comparator;
use arrow_ord::partition::partition;
use arrow_ord::rank::rank;
use arrow_ord::sort::{
    LexicographicalComparator, SortColumn, SortOptions, lexsort_to_indices, partial_sort, sort, sort_limit,
    sort_to_indices,
};
use arrow_schema::{ArrowError, DataType, Field, Fields, IntervalUnit, TimeUnit, UnionFields, UnionMode};
use arrow_select::take::take;
use half::f16;
use std::cmp::Ordering;
use std::sync::Arc;
use vcommon::*;

// ------------------------------------------------------------------------------ types / values

#[derive(Clone, Debug, PartialEq)]
enum Ty {
    Prim(String),
    Bytes(String),
    Fsb(usize),
    Dict(String, Box<Ty>),
    Ree(String, Box<Ty>),
    List(String, Box<Ty>), // list | llist | lview | llview
    Fsl(usize, Box<Ty>),
    Struct(Vec<Ty>),
    Map(Box<Ty>, Box<Ty>),
    Union(bool, Vec<Ty>), // dense?, children (type id of child k is 3*k)
}

const INT_PRIMS: &[&str] = &[
    "i8", "i16", "i32", "i64", "u8", "u16", "u32", "u64", "d32", "d64", "d128", "d256", "date32", "date64", "ts_s",
    "ts_ms", "ts_us", "ts_ns", "dur_s", "dur_ms", "dur_us", "dur_ns", "t32s", "t32ms", "t64us", "t64ns", "iym",
];
const OTHER_PRIMS: &[&str] = &["f16", "f32", "f64", "idt", "imdn", "bool"];
const BYTES: &[&str] = &["utf8", "lutf8", "bin", "lbin", "utf8v", "binv"];
const KEYS: &[&str] = &["i8", "i16", "i32", "i64", "u8", "u16", "u32", "u64"];
const RUNS: &[&str] = &["i16", "i32", "i64"];

fn parse_ty(it: &mut std::str::Split<'_, char>) -> Ty {
    let h = it.next().expect("type");
    match h {
        "dict" => {
            let k = it.next().unwrap().to_string();
            Ty::Dict(k, Box::new(parse_ty(it)))
        }
        "ree" => {
            let k = it.next().unwrap().to_string();
            Ty::Ree(k, Box::new(parse_ty(it)))
        }
        "list" | "llist" | "lview" | "llview" => Ty::List(h.to_string(), Box::new(parse_ty(it))),
        "fsl" => {
            let n = it.next().unwrap().parse().unwrap();
            Ty::Fsl(n, Box::new(parse_ty(it)))
        }
        "fsb" => Ty::Fsb(it.next().unwrap().parse().unwrap()),
        "struct" => {
            let n: usize = it.next().unwrap().parse().unwrap();
            Ty::Struct((0..n).map(|_| parse_ty(it)).collect())
        }
        "map" => {
            let k = parse_ty(it);
            Ty::Map(Box::new(k), Box::new(parse_ty(it)))
        }
        "union" => {
            let dense = it.next().unwrap() == "d";
            let n: usize = it.next().unwrap().parse().unwrap();
            Ty::Union(dense, (0..n).map(|_| parse_ty(it)).collect())
        }
        b if BYTES.contains(&b) => Ty::Bytes(b.to_string()),
        p => Ty::Prim(p.to_string()),
    }
}
fn ty_of(s: &str) -> Ty {
    parse_ty(&mut s.split(':'))
}
fn ty_str(t: &Ty) -> String {
    match t {
        Ty::Prim(p) | Ty::Bytes(p) => p.clone(),
        Ty::Fsb(n) => format!("fsb:{}", n),
        Ty::Dict(k, v) => format!("dict:{}:{}", k, ty_str(v)),
        Ty::Ree(k, v) => format!("ree:{}:{}", k, ty_str(v)),
        Ty::List(k, v) => format!("{}:{}", k, ty_str(v)),
        Ty::Fsl(n, v) => format!("fsl:{}:{}", n, ty_str(v)),
        Ty::Struct(fs) => format!("struct:{}:{}", fs.len(), fs.iter().map(ty_str).collect::<Vec<_>>().join(":")),
        Ty::Map(k, v) => format!("map:{}:{}", ty_str(k), ty_str(v)),
        Ty::Union(d, fs) => {
            format!("union:{}:{}:{}", if *d { "d" } else { "s" }, fs.len(), fs.iter().map(ty_str).collect::<Vec<_>>().join(":"))
        }
    }
}

#[derive(Clone, Debug, PartialEq)]
enum V {
    Null,
    Int(i256),
    Tup(Vec<i64>),
    F(u8, u64),
    Bytes(Vec<u8>),
    List(Vec<V>),
    Struct(Vec<V>),
    Union(i8, Box<V>),
}

fn tok(v: &V) -> String {
    match v {
        V::Null => "n".into(),
        V::Int(i) => format!("i{}", i),
        V::Tup(t) => format!("t{}", t.iter().map(|x| x.to_string()).collect::<Vec<_>>().join(":")),
        V::F(16, b) => format!("g{:04x}", b),
        V::F(32, b) => format!("f{:08x}", b),
        V::F(_, b) => format!("d{:016x}", b),
        V::Bytes(b) => {
            if b.is_empty() {
                "x".into()
            } else {
                format!("x{}", hex(b))
            }
        }
        V::List(vs) => format!("[{}]", vs.iter().map(tok).collect::<Vec<_>>().join(";")),
        V::Struct(vs) => format!("{{{}}}", vs.iter().map(tok).collect::<Vec<_>>().join(";")),
        V::Union(t, v) => format!("u{}:{}", t, tok(v)),
    }
}
/// token used in answers: a union slot with a null child is logically null
fn tok_out(v: &V) -> String {
    match v {
        V::Union(_, c) if **c == V::Null => "n".into(),
        v => tok(v),
    }
}

fn split_top(s: &str, sep: char) -> Vec<&str> {
    let mut out = vec![];
    let (mut depth, mut start) = (0i32, 0usize);
    for (i, c) in s.char_indices() {
        if c == '[' || c == '{' {
            depth += 1;
        } else if c == ']' || c == '}' {
            depth -= 1;
        } else if c == sep && depth == 0 {
            out.push(&s[start..i]);
            start = i + 1;
        }
    }
    out.push(&s[start..]);
    out
}

fn parse_v(s: &str) -> V {
    let rest = &s[1..];
    match s.as_bytes()[0] {
        b'n' => V::Null,
        b'i' => V::Int(i256::from_string(rest).expect("int")),
        b't' => V::Tup(rest.split(':').map(|x| x.parse().unwrap()).collect()),
        b'g' => V::F(16, u64::from_str_radix(rest, 16).unwrap()),
        b'f' => V::F(32, u64::from_str_radix(rest, 16).unwrap()),
        b'd' => V::F(64, u64::from_str_radix(rest, 16).unwrap()),
        b'x' => V::Bytes(if rest.is_empty() { vec![] } else { unhex(rest) }),
        b'[' => {
            let inner = &rest[..rest.len() - 1];
            V::List(if inner.is_empty() { vec![] } else { split_top(inner, ';').into_iter().map(parse_v).collect() })
        }
        b'{' => {
            let inner = &rest[..rest.len() - 1];
            V::Struct(if inner.is_empty() { vec![] } else { split_top(inner, ';').into_iter().map(parse_v).collect() })
        }
        b'u' => {
            let (t, v) = rest.split_once(':').expect("union token");
            V::Union(t.parse().unwrap(), Box::new(parse_v(v)))
        }
        _ => panic!("bad value token"),
    }
}
fn parse_col(s: &str) -> Vec<V> {
    if s == "-" { vec![] } else { split_top(s, ',').into_iter().map(parse_v).collect() }
}
fn col_str(vs: &[V]) -> String {
    if vs.is_empty() { "-".into() } else { vs.iter().map(tok).collect::<Vec<_>>().join(",") }
}

// ------------------------------------------------------------------------------ array builders

fn nulls_of(vals: &[V], var: u64) -> Option<NullBuffer> {
    let valid: Vec<bool> = vals.iter().map(|v| *v != V::Null).collect();
    if valid.iter().all(|b| *b) && (var >> 6) & 1 == 0 { None } else { Some(NullBuffer::from(valid)) }
}

fn as_i128(v: &V) -> Option<i128> {
    match v {
        V::Null => None,
        V::Int(i) => Some(i.to_i128().expect("fits i128")),
        _ => panic!("int expected, got {:?}", v),
    }
}

fn data_type(ty: &Ty) -> DataType {
    match ty {
        Ty::Prim(p) => match p.as_str() {
            "i8" => DataType::Int8,
            "i16" => DataType::Int16,
            "i32" => DataType::Int32,
            "i64" => DataType::Int64,
            "u8" => DataType::UInt8,
            "u16" => DataType::UInt16,
            "u32" => DataType::UInt32,
            "u64" => DataType::UInt64,
            "f16" => DataType::Float16,
            "f32" => DataType::Float32,
            "f64" => DataType::Float64,
            "d32" => DataType::Decimal32(9, 2),
            "d64" => DataType::Decimal64(18, 3),
            "d128" => DataType::Decimal128(38, 4),
            "d256" => DataType::Decimal256(76, 5),
            "date32" => DataType::Date32,
            "date64" => DataType::Date64,
            "ts_s" => DataType::Timestamp(TimeUnit::Second, None),
            "ts_ms" => DataType::Timestamp(TimeUnit::Millisecond, Some("+01:00".into())),
            "ts_us" => DataType::Timestamp(TimeUnit::Microsecond, None),
            "ts_ns" => DataType::Timestamp(TimeUnit::Nanosecond, Some("UTC".into())),
            "dur_s" => DataType::Duration(TimeUnit::Second),
            "dur_ms" => DataType::Duration(TimeUnit::Millisecond),
            "dur_us" => DataType::Duration(TimeUnit::Microsecond),
            "dur_ns" => DataType::Duration(TimeUnit::Nanosecond),
            "t32s" => DataType::Time32(TimeUnit::Second),
            "t32ms" => DataType::Time32(TimeUnit::Millisecond),
            "t64us" => DataType::Time64(TimeUnit::Microsecond),
            "t64ns" => DataType::Time64(TimeUnit::Nanosecond),
            "iym" => DataType::Interval(IntervalUnit::YearMonth),
            "idt" => DataType::Interval(IntervalUnit::DayTime),
            "imdn" => DataType::Interval(IntervalUnit::MonthDayNano),
            "bool" => DataType::Boolean,
            "null" => DataType::Null,
            x => panic!("unknown prim {}", x),
        },
        Ty::Bytes(b) => match b.as_str() {
            "utf8" => DataType::Utf8,
            "lutf8" => DataType::LargeUtf8,
            "bin" => DataType::Binary,
            "lbin" => DataType::LargeBinary,
            "utf8v" => DataType::Utf8View,
            _ => DataType::BinaryView,
        },
        Ty::Fsb(n) => DataType::FixedSizeBinary(*n as i32),
        Ty::Dict(k, v) => DataType::Dictionary(Box::new(data_type(&Ty::Prim(k.clone()))), Box::new(data_type(v))),
        Ty::Ree(k, v) => DataType::RunEndEncoded(
            Arc::new(Field::new("run_ends", data_type(&Ty::Prim(k.clone())), false)),
            Arc::new(Field::new("values", data_type(v), true)),
        ),
        Ty::List(k, v) => {
            let f = Arc::new(Field::new("item", data_type(v), true));
            match k.as_str() {
                "list" => DataType::List(f),
                "llist" => DataType::LargeList(f),
                "lview" => DataType::ListView(f),
                _ => DataType::LargeListView(f),
            }
        }
        Ty::Fsl(n, v) => DataType::FixedSizeList(Arc::new(Field::new("item", data_type(v), true)), *n as i32),
        Ty::Struct(fs) => DataType::Struct(struct_fields(fs)),
        Ty::Map(k, v) => DataType::Map(map_entries_field(k, v), false),
        Ty::Union(d, fs) => DataType::Union(union_fields(fs), if *d { UnionMode::Dense } else { UnionMode::Sparse }),
    }
}
fn map_entries_field(k: &Ty, v: &Ty) -> Arc<Field> {
    let fs: Fields = vec![Field::new("keys", data_type(k), false), Field::new("values", data_type(v), true)].into();
    Arc::new(Field::new("entries", DataType::Struct(fs), false))
}
fn union_fields(fs: &[Ty]) -> UnionFields {
    UnionFields::try_new(
        (0..fs.len()).map(|k| (3 * k) as i8),
        fs.iter().enumerate().map(|(k, t)| Field::new(format!("c{}", k), data_type(t), true)),
    )
    .expect("union fields")
}
fn struct_fields(fs: &[Ty]) -> Fields {
    fs.iter().enumerate().map(|(i, t)| Field::new(format!("f{}", i), data_type(t), true)).collect::<Vec<_>>().into()
}

macro_rules! prim_arr {
    ($t:ty, $vals:expr, $dt:expr, $var:expr) => {{
        let a: PrimitiveArray<$t> = if ($var >> 10) & 1 == 1 && $vals.iter().any(|v| *v == V::Null) {
            // null slots hold arbitrary (row dependent) values instead of the default
            let vals: Vec<<$t as ArrowPrimitiveType>::Native> = $vals
                .iter()
                .enumerate()
                .map(|(row, v)| match as_i128(v) {
                    Some(x) => x as <$t as ArrowPrimitiveType>::Native,
                    None => (row as i128 * 37 + 1) as <$t as ArrowPrimitiveType>::Native,
                })
                .collect();
            PrimitiveArray::<$t>::new(vals.into(), Some(NullBuffer::from($vals.iter().map(|v| *v != V::Null).collect::<Vec<bool>>())))
        } else if ($var >> 6) & 1 == 0 && !$vals.iter().any(|v| *v == V::Null) {
            // no validity buffer at all
            PrimitiveArray::<$t>::from_iter_values($vals.iter().map(|v| as_i128(v).unwrap() as <$t as ArrowPrimitiveType>::Native))
        } else {
            $vals.iter().map(|v| as_i128(v).map(|x| x as <$t as ArrowPrimitiveType>::Native)).collect()
        };
        Arc::new(a.with_data_type($dt)) as ArrayRef
    }};
}

fn build_prim(p: &str, vals: &[V], dt: DataType, var: u64) -> ArrayRef {
    match p {
        "null" => {
            assert!(vals.iter().all(|v| *v == V::Null));
            Arc::new(NullArray::new(vals.len()))
        }
        "i8" => prim_arr!(Int8Type, vals, dt, var),
        "i16" => prim_arr!(Int16Type, vals, dt, var),
        "i32" => prim_arr!(Int32Type, vals, dt, var),
        "i64" => prim_arr!(Int64Type, vals, dt, var),
        "u8" => prim_arr!(UInt8Type, vals, dt, var),
        "u16" => prim_arr!(UInt16Type, vals, dt, var),
        "u32" => prim_arr!(UInt32Type, vals, dt, var),
        "u64" => prim_arr!(UInt64Type, vals, dt, var),
        "d32" => prim_arr!(Decimal32Type, vals, dt, var),
        "d64" => prim_arr!(Decimal64Type, vals, dt, var),
        "d128" => prim_arr!(Decimal128Type, vals, dt, var),
        "d256" => {
            let a: PrimitiveArray<Decimal256Type> =
                vals.iter().map(|v| match v { V::Null => None, V::Int(i) => Some(*i), _ => panic!() }).collect();
            Arc::new(a.with_data_type(dt))
        }
        "date32" => prim_arr!(Date32Type, vals, dt, var),
        "date64" => prim_arr!(Date64Type, vals, dt, var),
        "ts_s" => prim_arr!(TimestampSecondType, vals, dt, var),
        "ts_ms" => prim_arr!(TimestampMillisecondType, vals, dt, var),
        "ts_us" => prim_arr!(TimestampMicrosecondType, vals, dt, var),
        "ts_ns" => prim_arr!(TimestampNanosecondType, vals, dt, var),
        "dur_s" => prim_arr!(DurationSecondType, vals, dt, var),
        "dur_ms" => prim_arr!(DurationMillisecondType, vals, dt, var),
        "dur_us" => prim_arr!(DurationMicrosecondType, vals, dt, var),
        "dur_ns" => prim_arr!(DurationNanosecondType, vals, dt, var),
        "t32s" => prim_arr!(Time32SecondType, vals, dt, var),
        "t32ms" => prim_arr!(Time32MillisecondType, vals, dt, var),
        "t64us" => prim_arr!(Time64MicrosecondType, vals, dt, var),
        "t64ns" => prim_arr!(Time64NanosecondType, vals, dt, var),
        "iym" => prim_arr!(IntervalYearMonthType, vals, dt, var),
        "idt" => {
            let a: PrimitiveArray<IntervalDayTimeType> = vals
                .iter()
                .map(|v| match v {
                    V::Null => None,
                    V::Tup(t) => Some(IntervalDayTime::new(t[0] as i32, t[1] as i32)),
                    _ => panic!(),
                })
                .collect();
            Arc::new(a)
        }
        "imdn" => {
            let a: PrimitiveArray<IntervalMonthDayNanoType> = vals
                .iter()
                .map(|v| match v {
                    V::Null => None,
                    V::Tup(t) => Some(IntervalMonthDayNano::new(t[0] as i32, t[1] as i32, t[2])),
                    _ => panic!(),
                })
                .collect();
            Arc::new(a)
        }
        "f16" => {
            let a: PrimitiveArray<Float16Type> =
                vals.iter().map(|v| match v { V::Null => None, V::F(_, b) => Some(f16::from_bits(*b as u16)), _ => panic!() }).collect();
            Arc::new(a)
        }
        "f32" => {
            let a: PrimitiveArray<Float32Type> =
                vals.iter().map(|v| match v { V::Null => None, V::F(_, b) => Some(f32::from_bits(*b as u32)), _ => panic!() }).collect();
            Arc::new(a)
        }
        "f64" => {
            let a: PrimitiveArray<Float64Type> =
                vals.iter().map(|v| match v { V::Null => None, V::F(_, b) => Some(f64::from_bits(*b)), _ => panic!() }).collect();
            Arc::new(a)
        }
        "bool" => {
            let a: BooleanArray = if (var >> 10) & 1 == 1 && vals.iter().any(|v| *v == V::Null) {
                let bits: arrow_buffer::BooleanBuffer = vals.iter().enumerate().map(|(r, v)| as_i128(v).map(|x| x != 0).unwrap_or(r % 2 == 0)).collect();
                BooleanArray::new(bits, Some(NullBuffer::from(vals.iter().map(|v| *v != V::Null).collect::<Vec<bool>>())))
            } else {
                vals.iter().map(|v| as_i128(v).map(|x| x != 0)).collect()
            };
            Arc::new(a)
        }
        x => panic!("unknown prim {}", x),
    }
}

fn bytes_of(v: &V) -> Option<&[u8]> {
    match v {
        V::Null => None,
        V::Bytes(b) => Some(b.as_slice()),
        _ => panic!("bytes expected"),
    }
}

fn build_bytes(b: &str, vals: &[V], var: u64) -> ArrayRef {
    if (var >> 10) & 1 == 1 && !b.ends_with('v') && vals.iter().any(|v| *v == V::Null) {
        // null slots cover non-empty (valid utf8) payload bytes
        let mut data: Vec<u8> = vec![];
        let mut lens: Vec<usize> = vec![];
        for (r, v) in vals.iter().enumerate() {
            let bytes: Vec<u8> = match bytes_of(v) {
                Some(x) => x.to_vec(),
                None => vec![b'Z'; 1 + r % 5],
            };
            lens.push(bytes.len());
            data.extend(bytes);
        }
        let nulls = Some(NullBuffer::from(vals.iter().map(|v| *v != V::Null).collect::<Vec<bool>>()));
        let buf = Buffer::from_vec(data);
        return match b {
            "utf8" => Arc::new(StringArray::new(OffsetBuffer::from_lengths(lens), buf, nulls)),
            "lutf8" => Arc::new(LargeStringArray::new(OffsetBuffer::from_lengths(lens), buf, nulls)),
            "bin" => Arc::new(BinaryArray::new(OffsetBuffer::from_lengths(lens), buf, nulls)),
            _ => Arc::new(LargeBinaryArray::new(OffsetBuffer::from_lengths(lens), buf, nulls)),
        };
    }
    let s = |x: &[u8]| std::str::from_utf8(x).expect("utf8").to_string();
    match b {
        "utf8" => Arc::new(vals.iter().map(|v| bytes_of(v).map(s)).collect::<StringArray>()),
        "lutf8" => Arc::new(vals.iter().map(|v| bytes_of(v).map(s)).collect::<LargeStringArray>()),
        "bin" => Arc::new(vals.iter().map(bytes_of).collect::<BinaryArray>()),
        "lbin" => Arc::new(vals.iter().map(bytes_of).collect::<LargeBinaryArray>()),
        "utf8v" => Arc::new(vals.iter().map(|v| bytes_of(v).map(s)).collect::<StringViewArray>()),
        _ => Arc::new(vals.iter().map(bytes_of).collect::<BinaryViewArray>()),
    }
}

macro_rules! with_key {
    ($k:expr, $m:ident, $($args:expr),*) => {
        match $k {
            "i8" => $m!(Int8Type, $($args),*),
            "i16" => $m!(Int16Type, $($args),*),
            "i32" => $m!(Int32Type, $($args),*),
            "i64" => $m!(Int64Type, $($args),*),
            "u8" => $m!(UInt8Type, $($args),*),
            "u16" => $m!(UInt16Type, $($args),*),
            "u32" => $m!(UInt32Type, $($args),*),
            _ => $m!(UInt64Type, $($args),*),
        }
    };
}

fn build_dict(k: &str, inner: &Ty, vals: &[V], var: u64) -> ArrayRef {
    let mode = (var >> 4) & 3;
    let mut dict: Vec<V> = vec![];
    let mut keys: Vec<Option<usize>> = vec![];
    if mode == 3 {
        dict.push(V::Null);
    }
    for (row, v) in vals.iter().enumerate() {
        if *v == V::Null {
            // a null row is a null key, or (mode 3, odd rows) a valid key pointing at a null value
            keys.push(if mode == 3 && row % 2 == 1 { Some(0) } else { None });
            continue;
        }
        // "one entry per row" (mode 2) only while the entries still fit the key type; afterwards re-use
        // existing entries (pools are small, so the distinct values always fit)
        let cap = match k {
            "i8" => 120,
            "u8" => 250,
            _ => usize::MAX,
        };
        let pos = if mode == 2 && dict.len() < cap { None } else { dict.iter().position(|d| d == v) };
        match pos {
            Some(p) => keys.push(Some(p)),
            None => {
                dict.push(v.clone());
                keys.push(Some(dict.len() - 1));
            }
        }
    }
    if mode == 1 {
        dict.reverse();
        let n = dict.len();
        for k in keys.iter_mut() {
            *k = k.map(|p| n - 1 - p);
        }
    }
    if mode == 3 && dict.len() > 1 {
        dict.push(dict[1].clone()); // unused duplicate entry
    }
    let values = build_raw(inner, &dict, var);
    macro_rules! mk {
        ($t:ty, $keys:expr, $values:expr) => {{
            let ka: PrimitiveArray<$t> = $keys.iter().map(|k| k.map(|p| p as <$t as ArrowPrimitiveType>::Native)).collect();
            Arc::new(DictionaryArray::<$t>::try_new(ka, $values).expect("dict")) as ArrayRef
        }};
    }
    with_key!(k, mk, keys, values)
}

fn build_ree(k: &str, inner: &Ty, vals: &[V], var: u64) -> ArrayRef {
    let mode = (var >> 4) & 3;
    let mut run_vals: Vec<V> = vec![];
    let mut run_ends: Vec<usize> = vec![];
    for (i, v) in vals.iter().enumerate() {
        let merge = match mode {
            0 => i > 0 && vals[i - 1] == *v,
            1 => false,
            _ => i % 2 == 1 && vals[i - 1] == *v,
        };
        if merge {
            *run_ends.last_mut().unwrap() = i + 1;
        } else {
            run_vals.push(v.clone());
            run_ends.push(i + 1);
        }
    }
    let values = build_raw(inner, &run_vals, var);
    match k {
        "i16" => {
            let re: PrimitiveArray<Int16Type> = run_ends.iter().map(|x| Some(*x as i16)).collect();
            Arc::new(RunArray::<Int16Type>::try_new(&re, values.as_ref()).expect("ree"))
        }
        "i32" => {
            let re: PrimitiveArray<Int32Type> = run_ends.iter().map(|x| Some(*x as i32)).collect();
            Arc::new(RunArray::<Int32Type>::try_new(&re, values.as_ref()).expect("ree"))
        }
        _ => {
            let re: PrimitiveArray<Int64Type> = run_ends.iter().map(|x| Some(*x as i64)).collect();
            Arc::new(RunArray::<Int64Type>::try_new(&re, values.as_ref()).expect("ree"))
        }
    }
}

fn build_list(kind: &str, inner: &Ty, vals: &[V], var: u64) -> ArrayRef {
    let field = Arc::new(Field::new("item", data_type(inner), true));
    let rows: Vec<&[V]> = vals
        .iter()
        .map(|v| match v {
            V::Null => &[][..],
            V::List(l) => l.as_slice(),
            _ => panic!("list expected"),
        })
        .collect();
    let nulls = nulls_of(vals, var);
    if kind == "list" || kind == "llist" {
        // bit 10: null rows cover child elements; bit 11: the first offset is not 0
        let garbage: Vec<V> = rows.iter().find(|r| !r.is_empty()).map(|r| r.to_vec()).unwrap_or_default();
        let lead: Vec<V> = if (var >> 11) & 1 == 1 { garbage.clone() } else { vec![] };
        let mut flat: Vec<V> = lead.clone();
        let mut offs: Vec<usize> = vec![lead.len()];
        for (r, v) in rows.iter().zip(vals.iter()) {
            if *v == V::Null && (var >> 10) & 1 == 1 {
                flat.extend(garbage.iter().cloned());
            } else {
                flat.extend(r.iter().cloned());
            }
            offs.push(flat.len());
        }
        let child = build_raw(inner, &flat, var);
        if kind == "list" {
            let ob = OffsetBuffer::new(offs.iter().map(|x| *x as i32).collect::<Vec<_>>().into());
            Arc::new(ListArray::try_new(field, ob, child, nulls).expect("list"))
        } else {
            let ob = OffsetBuffer::new(offs.iter().map(|x| *x as i64).collect::<Vec<_>>().into());
            Arc::new(LargeListArray::try_new(field, ob, child, nulls).expect("llist"))
        }
    } else {
        // list views: rows stored in reverse order in the child
        let mut flat: Vec<V> = vec![];
        let mut offs = vec![0usize; rows.len()];
        for (i, r) in rows.iter().enumerate().rev() {
            offs[i] = flat.len();
            flat.extend(r.iter().cloned());
        }
        let child = build_raw(inner, &flat, var);
        if kind == "lview" {
            let o: ScalarBuffer<i32> = offs.iter().map(|x| *x as i32).collect::<Vec<_>>().into();
            let s: ScalarBuffer<i32> = rows.iter().map(|r| r.len() as i32).collect::<Vec<_>>().into();
            Arc::new(ListViewArray::try_new(field, o, s, child, nulls).expect("lview"))
        } else {
            let o: ScalarBuffer<i64> = offs.iter().map(|x| *x as i64).collect::<Vec<_>>().into();
            let s: ScalarBuffer<i64> = rows.iter().map(|r| r.len() as i64).collect::<Vec<_>>().into();
            Arc::new(LargeListViewArray::try_new(field, o, s, child, nulls).expect("llview"))
        }
    }
}

/// build without slicing
fn build_raw(ty: &Ty, vals: &[V], var: u64) -> ArrayRef {
    match ty {
        Ty::Prim(p) => build_prim(p, vals, data_type(ty), var),
        Ty::Bytes(b) => build_bytes(b, vals, var),
        Ty::Fsb(n) => Arc::new(
            FixedSizeBinaryArray::try_from_sparse_iter_with_size(vals.iter().map(bytes_of), *n as i32).expect("fsb"),
        ),
        Ty::Dict(k, v) => build_dict(k, v, vals, var),
        Ty::Ree(k, v) => build_ree(k, v, vals, var),
        Ty::List(k, v) => build_list(k, v, vals, var),
        Ty::Fsl(n, inner) => {
            let field = Arc::new(Field::new("item", data_type(inner), true));
            let flat: Vec<V> = vals
                .iter()
                .flat_map(|v| match v {
                    V::Null => vec![V::Null; *n],
                    V::List(l) => {
                        assert_eq!(l.len(), *n);
                        l.clone()
                    }
                    _ => panic!(),
                })
                .collect();
            let child = build_raw(inner, &flat, var);
            Arc::new(FixedSizeListArray::try_new_with_length(field, *n as i32, child, nulls_of(vals, var), vals.len()).expect("fsl"))
        }
        Ty::Struct(fs) => {
            let cols: Vec<ArrayRef> = fs
                .iter()
                .enumerate()
                .map(|(k, ft)| {
                    let c: Vec<V> = vals
                        .iter()
                        .map(|v| match v {
                            V::Null => V::Null,
                            V::Struct(s) => s[k].clone(),
                            _ => panic!(),
                        })
                        .collect();
                    if (var >> 11) & 1 == 1 {
                        // child has its own offset
                        let mut padded = vec![c.first().cloned().unwrap_or(V::Null)];
                        padded.extend(c.iter().cloned());
                        build_raw(ft, &padded, var).slice(1, c.len())
                    } else {
                        build_raw(ft, &c, var)
                    }
                })
                .collect();
            Arc::new(StructArray::try_new_with_length(struct_fields(fs), cols, nulls_of(vals, var), vals.len()).expect("struct"))
        }
        Ty::Map(kt, vt) => {
            let rows: Vec<&[V]> = vals
                .iter()
                .map(|v| match v {
                    V::Null => &[][..],
                    V::List(l) => l.as_slice(),
                    _ => panic!("map expected"),
                })
                .collect();
            let part = |k: usize| -> Vec<V> {
                rows.iter().flat_map(|r| r.iter().map(|e| match e { V::Struct(kv) => kv[k].clone(), _ => panic!() })).collect()
            };
            let keys = build_raw(kt, &part(0), var & !(1 << 6));
            let values = build_raw(vt, &part(1), var);
            let DataType::Struct(efs) = map_entries_field(kt, vt).data_type().clone() else { unreachable!() };
            let n_entries = keys.len();
            let entries = StructArray::try_new_with_length(efs, vec![keys, values], None, n_entries).expect("entries");
            Arc::new(
                MapArray::try_new(map_entries_field(kt, vt), OffsetBuffer::from_lengths(rows.iter().map(|r| r.len())), entries, nulls_of(vals, var), false)
                    .expect("map"),
            )
        }
        Ty::Union(dense, fs) => {
            // a `Null` row (padding) is a null of the first child
            let slots: Vec<(usize, V)> = vals
                .iter()
                .map(|v| match v {
                    V::Null => (0, V::Null),
                    V::Union(t, c) => ((*t as usize) / 3, (**c).clone()),
                    _ => panic!("union expected"),
                })
                .collect();
            let type_ids: ScalarBuffer<i8> = slots.iter().map(|(k, _)| (3 * k) as i8).collect::<Vec<_>>().into();
            if *dense {
                let mut per: Vec<Vec<V>> = vec![vec![]; fs.len()];
                let mut offs: Vec<i32> = vec![];
                for (k, v) in &slots {
                    offs.push(per[*k].len() as i32);
                    per[*k].push(v.clone());
                }
                let children: Vec<ArrayRef> = fs.iter().zip(per.iter()).map(|(t, c)| build_raw(t, c, var)).collect();
                Arc::new(UnionArray::try_new(union_fields(fs), type_ids, Some(offs.into()), children).expect("dense union"))
            } else {
                let children: Vec<ArrayRef> = fs
                    .iter()
                    .enumerate()
                    .map(|(k, t)| {
                        let c: Vec<V> = slots.iter().map(|(kk, v)| if *kk == k { v.clone() } else { V::Null }).collect();
                        build_raw(t, &c, var)
                    })
                    .collect();
                Arc::new(UnionArray::try_new(union_fields(fs), type_ids, None, children).expect("sparse union"))
            }
        }
    }
}

fn has_view(ty: &Ty) -> bool {
    match ty {
        Ty::Bytes(b) => b.ends_with('v'),
        Ty::Dict(_, v) | Ty::Ree(_, v) | Ty::List(_, v) | Ty::Fsl(_, v) => has_view(v),
        Ty::Struct(fs) => fs.iter().any(has_view),
        _ => false,
    }
}

fn long_filler(ty: &Ty) -> V {
    // a value of the type whose byte leaves are longer than 12 bytes (forces a data buffer in views)
    match ty {
        Ty::Bytes(_) => V::Bytes(b"zzzzzzzzzzzzzzzzzzzz".to_vec()),
        Ty::Dict(_, v) | Ty::Ree(_, v) => long_filler(v),
        Ty::List(_, v) => V::List(vec![long_filler(v)]),
        Ty::Fsl(n, v) => V::List(vec![long_filler(v); *n]),
        Ty::Struct(fs) => V::Struct(fs.iter().map(long_filler).collect()),
        _ => V::Null,
    }
}

/// build the array for `vals` in the physical variant `var`:
/// bits 0-1 leading pad rows, bit 2 trailing pad row, bit 3 pads are nulls (else copies),
/// bits 4-5 dictionary / run layout, bit 6 explicit all-valid null buffer on nested types,
/// bit 7 (views) force a data buffer via a long trailing pad value, bit 8 pass `None` options
/// when they are the default, bit 9 `sort` instead of `sort_limit`, bit 10 arbitrary values
/// under null slots (integer-backed primitives, booleans, offset-based byte arrays, list rows),
/// bit 11 list first offset != 0 and struct children with their own offset.
fn build(ty: &Ty, vals: &[V], var: u64) -> ArrayRef {
    let front = (var & 3) as usize;
    let mut back = ((var >> 2) & 1) as usize;
    let pad = |k: usize| -> V {
        if (var >> 3) & 1 == 1 || vals.is_empty() { V::Null } else { vals[k % vals.len()].clone() }
    };
    let mut padded: Vec<V> = (0..front).map(|k| pad(k + 1)).collect();
    padded.extend(vals.iter().cloned());
    if (var >> 7) & 1 == 1 && has_view(ty) {
        back = 0;
        padded.push(long_filler(ty));
    }
    for k in 0..back {
        padded.push(pad(k + 5));
    }
    let a = build_raw(ty, &padded, var);
    if a.len() == vals.len() { a } else { a.slice(front, vals.len()) }
}

// ------------------------------------------------------------------------------ helpers

fn opts_of(s: &str) -> SortOptions {
    let b = s.as_bytes();
    SortOptions { descending: b[0] == b'd', nulls_first: b[1] == b'f' }
}
fn opts_str(o: SortOptions) -> String {
    format!("{}{}", if o.descending { 'd' } else { 'a' }, if o.nulls_first { 'f' } else { 'l' })
}
fn limit_of(s: &str) -> Option<usize> {
    if s == "-" { None } else { Some(s.parse().unwrap()) }
}
fn err_class(e: &ArrowError) -> String {
    match e {
        ArrowError::InvalidArgumentError(_) => "ERR:invalid-arg".into(),
        ArrowError::ComputeError(_) => "ERR:compute".into(),
        ArrowError::NotYetImplemented(_) => "ERR:not-impl".into(),
        _ => "ERR:other".into(),
    }
}
fn ord_ch(o: Ordering) -> char {
    match o {
        Ordering::Less => '<',
        Ordering::Equal => '=',
        Ordering::Greater => '>',
    }
}

/// indices form a sorted prefix of a permutation under `cmp`: length, distinct, in range,
/// non-decreasing, nothing omitted is strictly before something included
fn check_sorted_prefix(idx: &[u32], len: usize, limit: Option<usize>, cmp: &dyn Fn(usize, usize) -> Ordering) -> Option<String> {
    let k = limit.unwrap_or(len).min(len);
    if idx.len() != k {
        return Some(format!("length {} expected {}", idx.len(), k));
    }
    let mut seen = vec![false; len];
    for &i in idx {
        if i as usize >= len {
            return Some(format!("index {} out of range", i));
        }
        if seen[i as usize] {
            return Some(format!("index {} repeated", i));
        }
        seen[i as usize] = true;
    }
    for w in idx.windows(2) {
        if cmp(w[0] as usize, w[1] as usize) == Ordering::Greater {
            return Some(format!("not sorted at {} {}", w[0], w[1]));
        }
    }
    if let Some(&last) = idx.last() {
        for b in 0..len {
            if !seen[b] && cmp(last as usize, b) == Ordering::Greater {
                return Some(format!("omitted row {} sorts before included row {}", b, last));
            }
        }
    }
    None
}

/// rows of `a` and `b` are pairwise equal (null = null) under the comparator
fn rows_equal(a: &dyn Array, b: &dyn Array) -> Result<bool, ArrowError> {
    if a.len() != b.len() || a.data_type() != b.data_type() {
        return Ok(false);
    }
    let c = make_comparator(a, b, SortOptions::default())?;
    let (an, bn) = (a.logical_nulls(), b.logical_nulls());
    for i in 0..a.len() {
        let x = an.as_ref().map(|n| n.is_null(i)).unwrap_or(false);
        let y = bn.as_ref().map(|n| n.is_null(i)).unwrap_or(false);
        if x != y || c(i, i) != Ordering::Equal {
            return Ok(false);
        }
    }
    Ok(true)
}

struct Out {
    answer: String,
    oracle: Vec<String>,
}
fn out(a: String) -> Out {
    Out { answer: a, oracle: vec![] }
}

fn run_case(line: &str) -> Out {
    let t: Vec<&str> = line.split(' ').collect();
    assert_eq!(t[0], "C10");
    let us = |s: &str| s.parse::<u64>().unwrap();
    let mut oracle: Vec<String> = vec![];
    let answer = match t[1] {
        "cmp" => {
            // C10 cmp <type> <varL> <varR> <opts> <colL> <colR>
            let (ty, vl, vr, o, l, r) = (ty_of(t[2]), us(t[3]), us(t[4]), opts_of(t[5]), parse_col(t[6]), parse_col(t[7]));
            let orc = &mut oracle;
            guarded(move || {
                let (la, ra) = (build(&ty, &l, vl), build(&ty, &r, vr));
                let c = match make_comparator(la.as_ref(), ra.as_ref(), o) {
                    Ok(c) => c,
                    Err(e) => return err_class(&e),
                };
                let rev = make_comparator(ra.as_ref(), la.as_ref(), o).unwrap();
                let own = make_comparator(la.as_ref(), la.as_ref(), o).unwrap();
                for i in 0..l.len() {
                    if own(i, i) != Ordering::Equal {
                        orc.push(format!("comparator not reflexive at row {}", i));
                    }
                    for j in 0..r.len() {
                        if rev(j, i) != c(i, j).reverse() {
                            orc.push(format!("comparator not antisymmetric at {} {}", i, j));
                        }
                    }
                }
                if l.is_empty() {
                    return "-".into();
                }
                (0..l.len())
                    .map(|i| if r.is_empty() { "-".to_string() } else { (0..r.len()).map(|j| ord_ch(c(i, j))).collect::<String>() })
                    .collect::<Vec<_>>()
                    .join("/")
            })
        }
        "sort" => {
            // C10 sort <type> <var> <opts> <limit> <col>
            let (ty, var, o, lim, col) = (ty_of(t[2]), us(t[3]), opts_of(t[4]), limit_of(t[5]), parse_col(t[6]));
            let orc = &mut oracle;
            guarded(move || {
                let a = build(&ty, &col, var);
                let pass_none = o == SortOptions::default() && (var >> 8) & 1 == 1;
                let so = if pass_none { None } else { Some(o) };
                let idx = match sort_to_indices(a.as_ref(), so, lim) {
                    Ok(i) => i,
                    Err(e) => return err_class(&e),
                };
                if idx.null_count() != 0 {
                    orc.push("indices contain nulls".into());
                }
                let c = make_comparator(a.as_ref(), a.as_ref(), o).unwrap();
                if let Some(w) = check_sorted_prefix(idx.values(), col.len(), lim, &|i, j| c(i, j)) {
                    orc.push(format!("sort_to_indices: {}", w));
                }
                // sort / sort_limit return the rows at those positions
                let mut outs = vec![("sort_limit", sort_limit(a.as_ref(), so, lim))];
                if lim.is_none() {
                    outs.push(("sort", sort(a.as_ref(), so)));
                }
                for (name, sorted) in outs {
                    match (sorted, take(a.as_ref(), &idx, None)) {
                        (Ok(s), Ok(tk)) => match rows_equal(s.as_ref(), tk.as_ref()) {
                            Ok(true) => {}
                            Ok(false) => orc.push(format!("{} output differs from take(sort_to_indices)", name)),
                            Err(_) => {}
                        },
                        (Err(e), _) => orc.push(format!("{} failed {}", name, err_class(&e))),
                        (_, Err(_)) => {}
                    }
                }
                show_list(&idx.values().iter().map(|i| tok_out(&col[*i as usize])).collect::<Vec<_>>())
            })
        }
        "lexsort" => {
            // C10 lexsort <limit> <ncols> (<type> <var> <opts> <col>)*
            let lim = limit_of(t[2]);
            let n = us(t[3]) as usize;
            let specs: Vec<(Ty, u64, SortOptions, Vec<V>)> =
                (0..n).map(|k| (ty_of(t[4 + 4 * k]), us(t[5 + 4 * k]), opts_of(t[6 + 4 * k]), parse_col(t[7 + 4 * k]))).collect();
            let orc = &mut oracle;
            guarded(move || {
                let cols: Vec<SortColumn> =
                    specs
                        .iter()
                        .map(|(ty, var, o, c)| SortColumn {
                            values: build(ty, c, *var),
                            options: if *o == SortOptions::default() && (var >> 8) & 1 == 1 { None } else { Some(*o) },
                        })
                        .collect();
                let idx = match lexsort_to_indices(&cols, lim) {
                    Ok(i) => i,
                    Err(e) => return err_class(&e),
                };
                let rows = specs[0].3.len();
                let lc = LexicographicalComparator::try_new(&cols).unwrap();
                if let Some(w) = check_sorted_prefix(idx.values(), rows, lim, &|i, j| lc.compare(i, j)) {
                    orc.push(format!("lexsort_to_indices: {}", w));
                }
                // `lexsort` returns the columns taken at those positions
                match lexsort(&cols, lim) {
                    Ok(sorted) => {
                        for (c, sc) in cols.iter().zip(sorted.iter()) {
                            if let Ok(tk) = take(c.values.as_ref(), &idx, None) {
                                if let Ok(false) = rows_equal(sc.as_ref(), tk.as_ref()) {
                                    orc.push("lexsort output differs from take(lexsort_to_indices)".into());
                                }
                            }
                        }
                    }
                    Err(e) => orc.push(format!("lexsort failed {}", err_class(&e))),
                }
                show_list(
                    &idx.values()
                        .iter()
                        .map(|i| specs.iter().map(|s| tok_out(&s.3[*i as usize])).collect::<Vec<_>>().join("|"))
                        .collect::<Vec<_>>(),
                )
            })
        }
        "rank" => {
            // C10 rank <type> <var> <opts> <col>
            let (ty, var, o, col) = (ty_of(t[2]), us(t[3]), opts_of(t[4]), parse_col(t[5]));
            let orc = &mut oracle;
            guarded(move || {
                let a = build(&ty, &col, var);
                let r = match rank(a.as_ref(), if o == SortOptions::default() && (var >> 8) & 1 == 1 { None } else { Some(o) }) {
                    Ok(r) => r,
                    Err(e) => return err_class(&e),
                };
                let c = make_comparator(a.as_ref(), a.as_ref(), o).unwrap();
                for i in 0..col.len() {
                    let want = (0..col.len()).filter(|j| c(*j, i) != Ordering::Greater).count();
                    if r[i] as usize != want {
                        orc.push(format!("rank[{}]={} but {} rows are <= it under the comparator", i, r[i], want));
                    }
                }
                show_list(&r)
            })
        }
        "partition" => {
            // C10 partition <ncols> (<type> <var> <col>)*
            let n = us(t[2]) as usize;
            let specs: Vec<(Ty, u64, Vec<V>)> = (0..n).map(|k| (ty_of(t[3 + 3 * k]), us(t[4 + 3 * k]), parse_col(t[5 + 3 * k]))).collect();
            let orc = &mut oracle;
            guarded(move || {
                let cols: Vec<ArrayRef> = specs.iter().map(|(ty, var, c)| build(ty, c, *var)).collect();
                let p = match partition(&cols) {
                    Ok(p) => p,
                    Err(e) => return err_class(&e),
                };
                let ranges = p.ranges();
                if ranges.len() != p.len() {
                    orc.push("Partitions::len differs from ranges().len()".into());
                }
                // oracle: boundaries exactly where adjacent rows differ under the comparators
                let cs: Vec<_> = cols.iter().map(|c| make_comparator(c.as_ref(), c.as_ref(), SortOptions::default()).unwrap()).collect();
                let rows = specs[0].2.len();
                let mut want = vec![];
                let mut start = 0;
                for i in 0..rows {
                    if i + 1 == rows || cs.iter().any(|c| c(i, i + 1) != Ordering::Equal) {
                        want.push(start..i + 1);
                        start = i + 1;
                    }
                }
                if want != ranges {
                    orc.push(format!("partition ranges {:?} but comparator gives {:?}", ranges, want));
                }
                format!(
                    "{} {} {}",
                    show_list(&ranges.iter().map(|r| format!("{}:{}", r.start, r.end)).collect::<Vec<_>>()),
                    p.len(),
                    if p.is_empty() { 1 } else { 0 }
                )
            })
        }
        "kernel" => {
            // C10 kernel <op> <tyL> <tyR> <varL> <varR> <sc> <colL> <colR>
            let (op, tl, tr, vl, vr, sc, l, r) =
                (t[2].to_string(), ty_of(t[3]), ty_of(t[4]), us(t[5]), us(t[6]), t[7].to_string(), parse_col(t[8]), parse_col(t[9]));
            let orc = &mut oracle;
            guarded(move || {
                let (la, ra) = (build(&tl, &l, vl), build(&tr, &r, vr));
                let (ls, rs) = (sc.as_bytes()[0] == b's', sc.as_bytes()[1] == b's');
                let f = |a: &dyn Datum, b: &dyn Datum| match op.as_str() {
                    "eq" => cmp::eq(a, b),
                    "neq" => cmp::neq(a, b),
                    "lt" => cmp::lt(a, b),
                    "lt_eq" => cmp::lt_eq(a, b),
                    "gt" => cmp::gt(a, b),
                    "gt_eq" => cmp::gt_eq(a, b),
                    "distinct" => cmp::distinct(a, b),
                    _ => cmp::not_distinct(a, b),
                };
                let res = match (ls, rs) {
                    (false, false) => f(&la, &ra),
                    (true, false) => f(&Scalar::new(la.clone()), &ra),
                    (false, true) => f(&la, &Scalar::new(ra.clone())),
                    (true, true) => f(&Scalar::new(la.clone()), &Scalar::new(ra.clone())),
                };
                let b = match res {
                    Ok(b) => b,
                    Err(e) => return err_class(&e),
                };
                // oracle: agree with make_comparator where both sides have the same type
                if la.data_type() == ra.data_type() {
                    if let Ok(c) = make_comparator(la.as_ref(), ra.as_ref(), SortOptions::default()) {
                        let (ln, rn) = (la.logical_nulls(), ra.logical_nulls());
                        for k in 0..b.len() {
                            let (i, j) = (if ls { 0 } else { k }, if rs { 0 } else { k });
                            let lnull = ln.as_ref().map(|n| n.is_null(i)).unwrap_or(false);
                            let rnull = rn.as_ref().map(|n| n.is_null(j)).unwrap_or(false);
                            let o = c(i, j);
                            let want: Option<bool> = match op.as_str() {
                                "distinct" => Some(o != Ordering::Equal),
                                "not_distinct" => Some(o == Ordering::Equal),
                                _ if lnull || rnull => None,
                                "eq" => Some(o == Ordering::Equal),
                                "neq" => Some(o != Ordering::Equal),
                                "lt" => Some(o == Ordering::Less),
                                "lt_eq" => Some(o != Ordering::Greater),
                                "gt" => Some(o == Ordering::Greater),
                                _ => Some(o != Ordering::Less),
                            };
                            let got = if b.is_null(k) { None } else { Some(b.value(k)) };
                            if got != want {
                                orc.push(format!("kernel {} row {}: {:?} but comparator says {:?}", op, k, got, want));
                            }
                        }
                    }
                }
                if b.is_empty() {
                    return "-".into();
                }
                (0..b.len()).map(|k| if b.is_null(k) { 'n' } else if b.value(k) { '1' } else { '0' }).collect()
            })
        }
        "native" => {
            // C10 native <type> <a> <b>  → compare verdict and is_eq, is_ne, is_lt, is_le, is_gt, is_ge
            let (ty, a, b) = (t[2].to_string(), parse_v(t[3]), parse_v(t[4]));
            guarded(move || {
                fn ops<T: ArrowNativeTypeOp>(a: T, b: T) -> String {
                    let bit = |x: bool| if x { '1' } else { '0' };
                    format!(
                        "{}{}{}{}{}{}{}",
                        ord_ch(a.compare(b)),
                        bit(a.is_eq(b)),
                        bit(a.is_ne(b)),
                        bit(a.is_lt(b)),
                        bit(a.is_le(b)),
                        bit(a.is_gt(b)),
                        bit(a.is_ge(b))
                    )
                }
                let i = |v: &V| as_i128(v).unwrap();
                let fb = |v: &V| match v { V::F(_, b) => *b, _ => panic!() };
                let big = |v: &V| match v { V::Int(x) => *x, _ => panic!() };
                let tup = |v: &V| match v { V::Tup(x) => x.clone(), _ => panic!() };
                match ty.as_str() {
                    "i8" => ops(i(&a) as i8, i(&b) as i8),
                    "i16" => ops(i(&a) as i16, i(&b) as i16),
                    "i32" => ops(i(&a) as i32, i(&b) as i32),
                    "i64" => ops(i(&a) as i64, i(&b) as i64),
                    "u8" => ops(i(&a) as u8, i(&b) as u8),
                    "u16" => ops(i(&a) as u16, i(&b) as u16),
                    "u32" => ops(i(&a) as u32, i(&b) as u32),
                    "u64" => ops(i(&a) as u64, i(&b) as u64),
                    "d128" => ops(i(&a), i(&b)),
                    "d256" => ops(big(&a), big(&b)),
                    "f16" => ops(f16::from_bits(fb(&a) as u16), f16::from_bits(fb(&b) as u16)),
                    "f32" => ops(f32::from_bits(fb(&a) as u32), f32::from_bits(fb(&b) as u32)),
                    "f64" => ops(f64::from_bits(fb(&a)), f64::from_bits(fb(&b))),
                    "idt" => {
                        let (x, y) = (tup(&a), tup(&b));
                        ops(IntervalDayTime::new(x[0] as i32, x[1] as i32), IntervalDayTime::new(y[0] as i32, y[1] as i32))
                    }
                    "imdn" => {
                        let (x, y) = (tup(&a), tup(&b));
                        ops(IntervalMonthDayNano::new(x[0] as i32, x[1] as i32, x[2]), IntervalMonthDayNano::new(y[0] as i32, y[1] as i32, y[2]))
                    }
                    _ => "bad-op".into(),
                }
            })
        }
        "pvalid" => {
            // C10 pvalid <type> <var> <col>  → partition_validity
            let (ty, var, col) = (ty_of(t[2]), us(t[3]), parse_col(t[4]));
            guarded(move || {
                let a = build(&ty, &col, var);
                let (v, n) = partition_validity(a.as_ref());
                format!("{};{}", show_list(&v), show_list(&n))
            })
        }
        "lexcmp" => {
            // C10 lexcmp <ncols> (<type> <var> <opts> <col>)*  → LexicographicalComparator verdict matrix
            let n = us(t[2]) as usize;
            let specs: Vec<(Ty, u64, SortOptions, Vec<V>)> =
                (0..n).map(|k| (ty_of(t[3 + 4 * k]), us(t[4 + 4 * k]), opts_of(t[5 + 4 * k]), parse_col(t[6 + 4 * k]))).collect();
            let orc = &mut oracle;
            guarded(move || {
                let cols: Vec<SortColumn> =
                    specs.iter().map(|(ty, var, o, c)| SortColumn { values: build(ty, c, *var), options: Some(*o) }).collect();
                let lc = match LexicographicalComparator::try_new(&cols) {
                    Ok(c) => c,
                    Err(e) => return err_class(&e),
                };
                let rows = specs[0].3.len();
                macro_rules! fixed {
                    ($n:literal) => {{
                        let f = FixedLexicographicalComparator::<$n>::try_new(&cols).unwrap();
                        for i in 0..rows {
                            for j in 0..rows {
                                if f.compare(i, j) != lc.compare(i, j) {
                                    orc.push(format!("FixedLexicographicalComparator<{}> differs at {} {}", $n, i, j));
                                }
                            }
                        }
                    }};
                }
                match n {
                    2 => fixed!(2),
                    3 => fixed!(3),
                    4 => fixed!(4),
                    5 => fixed!(5),
                    _ => {}
                }
                if rows == 0 {
                    return "-".into();
                }
                (0..rows).map(|i| (0..rows).map(|j| ord_ch(lc.compare(i, j))).collect::<String>()).collect::<Vec<_>>().join("/")
            })
        }
        "viewcmp" => {
            // C10 viewcmp <utf8v|binv> <varL> <varR> <colL> <colR>  → compare_byte_view matrix (no nulls)
            let (ty, vl, vr, l, r) = (ty_of(t[2]), us(t[3]), us(t[4]), parse_col(t[5]), parse_col(t[6]));
            guarded(move || {
                let (la, ra) = (build(&ty, &l, vl), build(&ty, &r, vr));
                let f = |i: usize, j: usize| -> Ordering {
                    if matches!(ty, Ty::Bytes(ref b) if b == "utf8v") {
                        compare_byte_view(la.as_string_view(), i, ra.as_string_view(), j)
                    } else {
                        compare_byte_view(la.as_binary_view(), i, ra.as_binary_view(), j)
                    }
                };
                if l.is_empty() {
                    return "-".into();
                }
                (0..l.len())
                    .map(|i| if r.is_empty() { "-".to_string() } else { (0..r.len()).map(|j| ord_ch(f(i, j))).collect::<String>() })
                    .collect::<Vec<_>>()
                    .join("/")
            })
        }
        "inlist" => {
            // C10 inlist <type> <list|llist> <var> <col> <listcol>  → in_list / in_list_utf8
            let (ty, kind, var, col, lcol) = (ty_of(t[2]), t[3].to_string(), us(t[4]), parse_col(t[5]), parse_col(t[6]));
            guarded(move || {
                let left = build(&ty, &col, var);
                let lty = Ty::List(kind.clone(), Box::new(ty.clone()));
                let right = build(&lty, &lcol, var);
                macro_rules! il {
                    ($t:ty) => {
                        if kind == "list" { in_list::<$t, i32>(left.as_primitive::<$t>(), right.as_list::<i32>()) } else { in_list::<$t, i64>(left.as_primitive::<$t>(), right.as_list::<i64>()) }
                    };
                }
                let res = match &ty {
                    Ty::Prim(p) => match p.as_str() {
                        "i8" => il!(Int8Type),
                        "i32" => il!(Int32Type),
                        "i64" => il!(Int64Type),
                        "u16" => il!(UInt16Type),
                        "u64" => il!(UInt64Type),
                        "f16" => il!(Float16Type),
                        "f32" => il!(Float32Type),
                        "f64" => il!(Float64Type),
                        "d128" => il!(Decimal128Type),
                        _ => return "bad-op".into(),
                    },
                    Ty::Bytes(b) if b == "utf8" => in_list_utf8::<i32>(left.as_string::<i32>(), right.as_list::<i32>()),
                    Ty::Bytes(b) if b == "lutf8" => in_list_utf8::<i64>(left.as_string::<i64>(), right.as_list::<i32>()),
                    _ => return "bad-op".into(),
                };
                match res {
                    Ok(b) => {
                        if b.null_count() != 0 {
                            return "NULLS".into();
                        }
                        if b.is_empty() { "-".into() } else { (0..b.len()).map(|k| if b.value(k) { '1' } else { '0' }).collect() }
                    }
                    Err(e) => err_class(&e),
                }
            })
        }
        "unsup" => {
            // C10 unsup <sort|rank|kernel> <type> <col>  → documented errors for unsupported types
            let (which, ty, col) = (t[2].to_string(), ty_of(t[3]), parse_col(t[4]));
            guarded(move || {
                let a = build(&ty, &col, 0);
                let r = match which.as_str() {
                    "sort" => sort_to_indices(a.as_ref(), None, None).map(|_| ()),
                    "rank" => rank(a.as_ref(), None).map(|_| ()),
                    _ => cmp::eq(&a, &a).map(|_| ()),
                };
                match r {
                    Ok(()) => "OK".into(),
                    Err(e) => err_class(&e),
                }
            })
        }
        "cmpty" => {
            // C10 cmpty <tyL> <tyR> <colL> <colR>  → make_comparator on different data types must be an error
            let (tl, tr, l, r) = (ty_of(t[2]), ty_of(t[3]), parse_col(t[4]), parse_col(t[5]));
            guarded(move || {
                let (la, ra) = (build(&tl, &l, 0), build(&tr, &r, 0));
                match make_comparator(la.as_ref(), ra.as_ref(), SortOptions::default()) {
                    Ok(_) => "OK".into(),
                    Err(e) => err_class(&e),
                }
            })
        }
        "psort" => {
            let lim = us(t[2]) as usize;
            let mut v: Vec<i64> = parse_list(t[3]);
            guarded(move || {
                partial_sort(&mut v, lim, |a, b| a.cmp(b));
                show_list(&v[..lim.min(v.len())])
            })
        }
        _ => "bad-op".into(),
    };
    Out { answer, oracle }
}

// ------------------------------------------------------------------------------ generators

fn gen_int(p: &str, rng: &mut Rng) -> V {
    let (lo, hi): (i128, i128) = match p {
        "i8" => (i8::MIN as i128, i8::MAX as i128),
        "i16" => (i16::MIN as i128, i16::MAX as i128),
        "u8" => (0, u8::MAX as i128),
        "u16" => (0, u16::MAX as i128),
        "u32" => (0, u32::MAX as i128),
        "u64" => (0, u64::MAX as i128),
        "i64" | "d64" | "date64" | "ts_s" | "ts_ms" | "ts_us" | "ts_ns" | "dur_s" | "dur_ms" | "dur_us" | "dur_ns" | "t64us" | "t64ns" => {
            (i64::MIN as i128, i64::MAX as i128)
        }
        "d128" | "d256" => (i128::MIN, i128::MAX),
        "bool" => (0, 1),
        _ => (i32::MIN as i128, i32::MAX as i128),
    };
    let x = match rng.below(8) {
        0 => lo,
        1 => hi,
        2 => 0.max(lo),
        3 => (-1).max(lo),
        4 => 1,
        5 => lo + 1,
        6 => hi - 1,
        _ => {
            let r = ((rng.next_u64() as i128) << 64 | rng.next_u64() as i128) >> (rng.below(120) as u32);
            r.clamp(lo, hi)
        }
    };
    let mut v = i256::from_i128(x.clamp(lo, hi));
    if p == "d256" && rng.chance(1, 3) {
        // beyond i128: multiply up
        v = v.wrapping_mul(i256::from_i128(1 << 40)).wrapping_add(i256::from_i128(rng.below(5) as i128));
    }
    V::Int(v)
}

fn gen_float(w: u8, rng: &mut Rng) -> V {
    let (ebits, mbits) = match w {
        16 => (5u32, 10u32),
        32 => (8, 23),
        _ => (11, 52),
    };
    let sign = rng.below(2) << (w as u32 - 1);
    let emax = (1u64 << ebits) - 1;
    let mmask = (1u64 << mbits) - 1;
    let body = match rng.below(10) {
        0 => 0,                                                   // ±0
        1 => emax << mbits,                                       // ±inf
        2 => (emax << mbits) | (1 << (mbits - 1)),                // quiet NaN
        3 => (emax << mbits) | 1,                                 // signalling NaN, smallest payload
        4 => (emax << mbits) | (rng.next_u64() & mmask).max(1),   // NaN with payload
        5 => 1 + rng.below(3),                                    // subnormals
        6 => mmask,                                               // largest subnormal
        7 => ((emax - 1) << mbits) | mmask,                       // max finite
        8 => 1 << mbits,                                          // min normal
        _ => rng.next_u64() & ((1u64 << (w as u32 - 1)) - 1),
    };
    V::F(w, sign | body)
}

fn gen_bytes(utf8: bool, rng: &mut Rng, base: &[u8]) -> V {
    // prefixes of a shared base around the 4-byte prefix and the 12-byte inline limit, with
    // occasional changes / extensions (trailing zero bytes matter for padded keys)
    let lens = [0usize, 1, 2, 3, 4, 5, 6, 7, 8, 11, 12, 13, 14, 16, 20];
    let l = (*rng.pick(&lens)).min(base.len());
    let mut b = base[..l].to_vec();
    match rng.below(6) {
        0 if !b.is_empty() => {
            let i = rng.usize(b.len());
            b[i] = if utf8 { *rng.pick(&[0u8, b'a', b'b', 0x7f]) } else { *rng.pick(&[0u8, 1, 0x7f, 0x80, 0xff]) };
        }
        1 => b.push(0),
        2 => b.extend_from_slice(&[0, 0]),
        3 if !utf8 => b.push(0xff),
        4 if utf8 => b.extend_from_slice("é".as_bytes()),
        _ => {}
    }
    V::Bytes(b)
}

fn gen_base(utf8: bool, rng: &mut Rng) -> Vec<u8> {
    let alpha: &[u8] = if utf8 { &[0, b'a', b'a', b'b', 0x7f] } else { &[0, 0, 1, b'a', 0x80, 0xff] };
    (0..20).map(|_| *rng.pick(alpha)).collect()
}

/// a pool of a few non-null values of the type
fn gen_pool(ty: &Ty, rng: &mut Rng, n: usize) -> Vec<V> {
    match ty {
        Ty::Prim(p) => (0..n)
            .map(|_| match p.as_str() {
                "f16" => gen_float(16, rng),
                "f32" => gen_float(32, rng),
                "f64" => gen_float(64, rng),
                "idt" => V::Tup(vec![rng.range(-2, 2), *rng.pick(&[i32::MIN as i64, -1, 0, 1, i32::MAX as i64])]),
                "imdn" => V::Tup(vec![rng.range(-1, 1), rng.range(-1, 1), *rng.pick(&[i64::MIN, -1, 0, 1, i64::MAX])]),
                _ => gen_int(p, rng),
            })
            .collect(),
        Ty::Bytes(b) => {
            let utf8 = b.contains("utf8");
            let base = gen_base(utf8, rng);
            if rng.bool() {
                // short strings sharing a prefix, differing only in length / trailing NUL bytes
                let stem: Vec<u8> = base[..rng.usize(6)].to_vec();
                return (0..n)
                    .map(|_| {
                        let mut b = stem[..rng.usize(stem.len() + 1)].to_vec();
                        b.extend(std::iter::repeat_n(0u8, rng.usize(5)));
                        if rng.chance(1, 4) {
                            b.push(if utf8 { b'a' } else { 0xff });
                        }
                        V::Bytes(b)
                    })
                    .collect();
            }
            (0..n).map(|_| gen_bytes(utf8, rng, &base)).collect()
        }
        Ty::Fsb(k) => {
            let base = gen_base(false, rng);
            (0..n)
                .map(|_| {
                    let mut b = base[..*k].to_vec();
                    if *k > 0 && rng.bool() {
                        let i = rng.usize(*k);
                        b[i] = *rng.pick(&[0u8, 1, 0x80, 0xff]);
                    }
                    V::Bytes(b)
                })
                .collect()
        }
        Ty::Dict(_, v) | Ty::Ree(_, v) => gen_pool(v, rng, n),
        Ty::List(_, v) => {
            let child = gen_pool(v, rng, 3);
            (0..n).map(|_| V::List((0..rng.usize(4)).map(|_| pick_or_null(&child, rng, 5)).collect())).collect()
        }
        Ty::Fsl(k, v) => {
            let child = gen_pool(v, rng, 3);
            (0..n).map(|_| V::List((0..*k).map(|_| pick_or_null(&child, rng, 5)).collect())).collect()
        }
        Ty::Struct(fs) => {
            let pools: Vec<Vec<V>> = fs.iter().map(|f| gen_pool(f, rng, 2)).collect();
            (0..n).map(|_| V::Struct(pools.iter().map(|p| pick_or_null(p, rng, 5)).collect())).collect()
        }
        Ty::Map(k, v) => {
            let (kp, vp) = (gen_pool(k, rng, 3), gen_pool(v, rng, 2));
            (0..n)
                .map(|_| V::List((0..rng.usize(3)).map(|_| V::Struct(vec![rng.pick(&kp).clone(), pick_or_null(&vp, rng, 4)])).collect()))
                .collect()
        }
        Ty::Union(_, fs) => {
            let pools: Vec<Vec<V>> = fs.iter().map(|f| gen_pool(f, rng, 2)).collect();
            (0..n)
                .map(|_| {
                    let k = rng.usize(fs.len());
                    V::Union((3 * k) as i8, Box::new(pick_or_null(&pools[k], rng, 5)))
                })
                .collect()
        }
    }
}
fn pick_or_null(pool: &[V], rng: &mut Rng, null_one_in: u64) -> V {
    if pool.is_empty() || rng.chance(1, null_one_in) { V::Null } else { rng.pick(pool).clone() }
}

/// a column of `len` rows drawn from a small pool (duplicates) with nulls
fn gen_col(ty: &Ty, rng: &mut Rng, len: usize) -> Vec<V> {
    let np = 2 + rng.usize(5);
    let pool = gen_pool(ty, rng, np);
    let nulls = *rng.pick(&[0u64, 0, 3, 5, 2]);
    (0..len).map(|_| if nulls > 0 && rng.chance(1, nulls) { V::Null } else { rng.pick(&pool).clone() }).collect()
}

fn gen_leaf(rng: &mut Rng) -> Ty {
    match rng.below(10) {
        0..=2 => Ty::Prim(rng.pick(INT_PRIMS).to_string()),
        3..=5 => Ty::Prim(rng.pick(OTHER_PRIMS).to_string()),
        6..=8 => Ty::Bytes(rng.pick(BYTES).to_string()),
        _ => Ty::Fsb(*rng.pick(&[1usize, 2, 3, 4, 5, 13])),
    }
}
/// a leaf type `rank` supports
fn gen_rankable(rng: &mut Rng) -> Ty {
    loop {
        let t = gen_leaf(rng);
        if !matches!(t, Ty::Fsb(_)) {
            return t;
        }
    }
}
/// a type `sort_to_indices` supports
fn gen_sortable(rng: &mut Rng) -> Ty {
    match rng.below(12) {
        0..=5 => gen_leaf(rng),
        6 | 7 => Ty::Dict(rng.pick(KEYS).to_string(), Box::new(gen_rankable(rng))),
        8 => Ty::List(rng.pick(&["list", "llist", "lview", "llview"]).to_string(), Box::new(gen_rankable(rng))),
        9 => Ty::Fsl(*rng.pick(&[0usize, 1, 2, 3]), Box::new(gen_rankable(rng))),
        _ => Ty::Ree(rng.pick(RUNS).to_string(), Box::new(if rng.bool() { gen_leaf(rng) } else { gen_sortable(rng) })),
    }
}
/// a type `make_comparator` supports (nested allowed)
fn gen_comparable(rng: &mut Rng, depth: u32) -> Ty {
    if depth == 0 {
        return gen_leaf(rng);
    }
    match rng.below(12) {
        0..=4 => gen_leaf(rng),
        5 => Ty::Dict(rng.pick(KEYS).to_string(), Box::new(gen_comparable(rng, depth - 1))),
        6 => Ty::Ree(rng.pick(RUNS).to_string(), Box::new(gen_comparable(rng, depth - 1))),
        7 | 8 => Ty::List(rng.pick(&["list", "llist", "lview", "llview"]).to_string(), Box::new(gen_comparable(rng, depth - 1))),
        9 => Ty::Fsl(*rng.pick(&[1usize, 2, 3]), Box::new(gen_comparable(rng, depth - 1))),
        10 if depth == 2 && rng.bool() => {
            if rng.bool() {
                Ty::Map(Box::new(gen_rankable(rng)), Box::new(gen_comparable(rng, 1)))
            } else {
                Ty::Union(rng.bool(), (0..1 + rng.usize(3)).map(|_| gen_leaf(rng)).collect())
            }
        }
        _ => Ty::Struct((0..1 + rng.usize(3)).map(|_| gen_comparable(rng, depth - 1)).collect()),
    }
}
fn gen_opts(rng: &mut Rng) -> SortOptions {
    SortOptions { descending: rng.bool(), nulls_first: rng.bool() }
}
fn gen_var(rng: &mut Rng) -> u64 {
    if rng.chance(1, 4) { 0 } else { rng.below(4096) }
}
fn ty_tags(t: &Ty) -> String {
    match t {
        Ty::Prim(p) | Ty::Bytes(p) => format!("ty:{}", p),
        Ty::Fsb(_) => "ty:fsb".into(),
        Ty::Dict(_, v) => format!("ty:dict {}", ty_tags(v)),
        Ty::Ree(_, v) => format!("ty:ree {}", ty_tags(v)),
        Ty::List(k, v) => format!("ty:{} {}", k, ty_tags(v)),
        Ty::Fsl(_, v) => format!("ty:fsl {}", ty_tags(v)),
        Ty::Struct(fs) => format!("ty:struct {}", fs.iter().map(ty_tags).collect::<Vec<_>>().join(" ")),
        Ty::Map(k, v) => format!("ty:map {} {}", ty_tags(k), ty_tags(v)),
        Ty::Union(d, fs) => format!("ty:union-{} {}", if *d { "dense" } else { "sparse" }, fs.iter().map(ty_tags).collect::<Vec<_>>().join(" ")),
    }
}
fn col_tags(c: &[V]) -> String {
    let nulls = c.iter().filter(|v| **v == V::Null).count();
    let mut d: Vec<String> = c.iter().map(tok).collect();
    d.sort();
    d.dedup();
    format!(
        "{} {}",
        if nulls == 0 { "nulls:none" } else if nulls == c.len() { "nulls:all" } else { "nulls:some" },
        if d.len() < c.len() { "dups:yes" } else { "dups:no" }
    )
}

fn wrap_tag(t: &Ty) -> &'static str {
    match t {
        Ty::Dict(..) => "dict",
        Ty::Ree(_, v) if matches!(**v, Ty::Dict(..)) => "ree-dict",
        Ty::Ree(..) => "ree",
        _ => "plain",
    }
}

fn gen_len(rng: &mut Rng) -> usize {
    match rng.below(10) {
        0 => 0,
        1 => 1,
        2 => 2,
        3..=7 => 3 + rng.usize(10),
        8 if rng.chance(1, 6) => *rng.pick(&[63usize, 64, 65, 127, 128, 129]), // word boundaries of the bit-packed paths
        _ => 13 + rng.usize(28),
    }
}

fn gen_case(rng: &mut Rng) -> (String, String) {
    match rng.below(26) {
        0..=3 => {
            let ty = gen_comparable(rng, 2);
            let (l, r) = (gen_len(rng).min(8), gen_len(rng).min(8));
            // both sides from one pool so that equal values occur across the arrays
            let np = 2 + rng.usize(4);
            let pool = gen_pool(&ty, rng, np);
            let lc: Vec<V> = (0..l).map(|_| pick_or_null(&pool, rng, 4)).collect();
            let rc: Vec<V> = (0..r).map(|_| pick_or_null(&pool, rng, 4)).collect();
            let o = gen_opts(rng);
            (
                format!("C10 cmp {} {} {} {} {} {}", ty_str(&ty), gen_var(rng), gen_var(rng), opts_str(o), col_str(&lc), col_str(&rc)),
                format!("op:cmp opts:{} {} {} {}", opts_str(o), ty_tags(&ty), col_tags(&lc), if l > 0 && r > 0 { "nt" } else { "" }),
            )
        }
        4..=8 => {
            let ty = gen_sortable(rng);
            let len = gen_len(rng);
            let col = gen_col(&ty, rng, len);
            let o = gen_opts(rng);
            let lim = if rng.chance(2, 5) { None } else { Some(rng.usize(len + 2)) };
            let lt = match lim {
                None => "limit:none".to_string(),
                Some(0) => "limit:0".into(),
                Some(l) if l == len => "limit:len".into(),
                Some(l) if l > len => "limit:over".into(),
                Some(_) => "limit:partial".into(),
            };
            (
                format!(
                    "C10 sort {} {} {} {} {}",
                    ty_str(&ty),
                    gen_var(rng),
                    opts_str(o),
                    lim.map(|l| l.to_string()).unwrap_or("-".into()),
                    col_str(&col)
                ),
                format!("op:sort opts:{} {} {} {} {}", opts_str(o), lt, ty_tags(&ty), col_tags(&col), if len > 1 { "nt" } else { "" }),
            )
        }
        9..=11 => {
            let n = 1 + rng.usize(6);
            // the top-k heap path needs limit <= rows/10
            let heap = rng.chance(1, 3);
            let len = if heap { 10 + rng.usize(31) } else { gen_len(rng) };
            let lim = if heap {
                Some(1 + rng.usize(len / 10))
            } else if rng.chance(2, 5) {
                None
            } else {
                Some(rng.usize(len + 2))
            };
            let mut s = format!("C10 lexsort {} {}", lim.map(|l| l.to_string()).unwrap_or("-".into()), n);
            let mut tags = format!("op:lexsort cols:{} {}", n, if heap { "path:heap" } else { "path:sort" });
            for k in 0..n {
                let ty = if n == 1 { gen_comparable(rng, 1) } else if k == 0 && rng.bool() { Ty::Prim("bool".into()) } else { let d = if rng.chance(1, 5) { 2 } else { 1 }; gen_comparable(rng, d) };
                let col = gen_col(&ty, rng, len);
                let o = gen_opts(rng);
                s += &format!(" {} {} {} {}", ty_str(&ty), gen_var(rng), opts_str(o), col_str(&col));
                tags += &format!(" {}", ty_tags(&ty));
            }
            if len > 1 {
                tags += " nt";
            }
            (s, tags)
        }
        12 | 13 => {
            let ty = gen_rankable(rng);
            let len = gen_len(rng);
            let col = gen_col(&ty, rng, len);
            let o = gen_opts(rng);
            (
                format!("C10 rank {} {} {} {}", ty_str(&ty), gen_var(rng), opts_str(o), col_str(&col)),
                format!("op:rank opts:{} {} {} {}", opts_str(o), ty_tags(&ty), col_tags(&col), if len > 1 { "nt" } else { "" }),
            )
        }
        14 | 15 => {
            let n = 1 + rng.usize(3);
            let len = gen_len(rng);
            let mut s = format!("C10 partition {}", n);
            let mut tags = format!("op:partition cols:{}", n);
            for _ in 0..n {
                let d = if rng.chance(1, 4) { 2 } else { 1 };
                let ty = gen_comparable(rng, d);
                // partition input is typically sorted: make runs
                let pool = gen_pool(&ty, rng, 3);
                let mut col = vec![];
                while col.len() < len {
                    let v = pick_or_null(&pool, rng, 5);
                    for _ in 0..1 + rng.usize(4) {
                        if col.len() < len {
                            col.push(v.clone());
                        }
                    }
                }
                s += &format!(" {} {} {}", ty_str(&ty), gen_var(rng), col_str(&col));
                tags += &format!(" {}", ty_tags(&ty));
            }
            if len > 1 {
                tags += " nt";
            }
            (s, tags)
        }
        16..=18 => {
            let leaf = gen_leaf(rng);
            let wrap = |rng: &mut Rng, t: &Ty| -> Ty {
                match rng.below(6) {
                    0 => Ty::Dict(rng.pick(KEYS).to_string(), Box::new(t.clone())),
                    1 => Ty::Ree(rng.pick(RUNS).to_string(), Box::new(t.clone())),
                    2 => Ty::Ree(rng.pick(RUNS).to_string(), Box::new(Ty::Dict(rng.pick(KEYS).to_string(), Box::new(t.clone())))),
                    _ => t.clone(),
                }
            };
            let (tl, tr) = (wrap(rng, &leaf), wrap(rng, &leaf));
            let sc = *rng.pick(&["aa", "aa", "aa", "as", "sa", "ss"]);
            let len = gen_len(rng);
            let np = 2 + rng.usize(4);
            let pool = gen_pool(&leaf, rng, np);
            let nl = *rng.pick(&[3u64, 4, 1000]);
            let nr = *rng.pick(&[3u64, 4, 1000]);
            let lc: Vec<V> = (0..if sc.starts_with('s') { 1 } else { len }).map(|_| pick_or_null(&pool, rng, nl)).collect();
            let rc: Vec<V> = (0..if sc.ends_with('s') { 1 } else { len }).map(|_| pick_or_null(&pool, rng, nr)).collect();
            let op = *rng.pick(&["eq", "neq", "lt", "lt_eq", "gt", "gt_eq", "distinct", "not_distinct"]);
            (
                format!(
                    "C10 kernel {} {} {} {} {} {} {} {}",
                    op,
                    ty_str(&tl),
                    ty_str(&tr),
                    gen_var(rng),
                    gen_var(rng),
                    sc,
                    col_str(&lc),
                    col_str(&rc)
                ),
                format!(
                    "op:kernel kop:{} sc:{} L:{} R:{} {} {}{}",
                    op,
                    sc,
                    wrap_tag(&tl),
                    wrap_tag(&tr),
                    ty_tags(&leaf),
                    if lc.len().max(rc.len()) > 0 { "nt" } else { "" },
                    // known finding: scalar/scalar with an encoded right operand (see known_findings.txt)
                    if sc == "ss" && matches!(tr, Ty::Dict(..) | Ty::Ree(..)) {
                        " kf:ss-encoded-rhs"
                    } else if (lc.is_empty() && matches!(tl, Ty::Ree(..))) || (rc.is_empty() && matches!(tr, Ty::Ree(..))) {
                        // fixed findings: zero-row (possibly sliced) run-end array as an operand
                        " kf:empty-ree"
                    } else {
                        ""
                    }
                ),
            )
        }
        20 => {
            let ty = *rng.pick(&["i8", "i16", "i32", "i64", "u8", "u16", "u32", "u64", "d128", "d256", "f16", "f32", "f64", "idt", "imdn"]);
            let pool = gen_pool(&Ty::Prim(ty.into()), rng, 3);
            let (a, b) = (rng.pick(&pool).clone(), rng.pick(&pool).clone());
            (format!("C10 native {} {} {}", ty, tok(&a), tok(&b)), format!("op:native ty:{} nt", ty))
        }
        21 => {
            let ty = loop {
                let t = gen_comparable(rng, 1);
                if !matches!(t, Ty::Dict(..) | Ty::Ree(..)) {
                    break t;
                }
            };
            let len = gen_len(rng);
            let col = gen_col(&ty, rng, len);
            (format!("C10 pvalid {} {} {}", ty_str(&ty), gen_var(rng), col_str(&col)), format!("op:pvalid {} {} {}", ty_tags(&ty), col_tags(&col), if len > 1 { "nt" } else { "" }))
        }
        22 => {
            let n = 1 + rng.usize(6);
            let len = gen_len(rng).min(8);
            let mut s = format!("C10 lexcmp {}", n);
            let mut tags = format!("op:lexcmp cols:{}", n);
            for _ in 0..n {
                let ty = gen_comparable(rng, 1);
                let col = gen_col(&ty, rng, len);
                s += &format!(" {} {} {} {}", ty_str(&ty), gen_var(rng), opts_str(gen_opts(rng)), col_str(&col));
                tags += &format!(" {}", ty_tags(&ty));
            }
            if len > 1 {
                tags += " nt";
            }
            (s, tags)
        }
        23 => {
            let ty = Ty::Bytes(rng.pick(&["utf8v", "binv"]).to_string());
            let np = 2 + rng.usize(5);
            let pool = gen_pool(&ty, rng, np);
            let (l, r) = (gen_len(rng).min(8), gen_len(rng).min(8));
            let lc: Vec<V> = (0..l).map(|_| rng.pick(&pool).clone()).collect();
            let rc: Vec<V> = (0..r).map(|_| rng.pick(&pool).clone()).collect();
            (
                format!("C10 viewcmp {} {} {} {} {}", ty_str(&ty), gen_var(rng), gen_var(rng), col_str(&lc), col_str(&rc)),
                format!("op:viewcmp {} {}", ty_tags(&ty), if l > 0 && r > 0 { "nt" } else { "" }),
            )
        }
        24 => {
            let tyn = *rng.pick(&["i8", "i32", "i64", "u16", "u64", "f16", "f32", "f64", "d128", "utf8", "lutf8"]);
            let ty = ty_of(tyn);
            let kind = if tyn.contains("utf8") { "list" } else { *rng.pick(&["list", "llist"]) };
            let len = gen_len(rng).min(20);
            let pool = gen_pool(&ty, rng, 4);
            let col: Vec<V> = (0..len).map(|_| pick_or_null(&pool, rng, 5)).collect();
            let lcol: Vec<V> = (0..len)
                .map(|_| if rng.chance(1, 6) { V::Null } else { V::List((0..rng.usize(4)).map(|_| pick_or_null(&pool, rng, 4)).collect()) })
                .collect();
            (
                format!("C10 inlist {} {} {} {} {}", tyn, kind, gen_var(rng), col_str(&col), col_str(&lcol)),
                format!("op:inlist ty:{} {}", tyn, if len > 0 { "nt" } else { "" }),
            )
        }
        25 => {
            let pairs: &[(&str, &str)] = &[
                ("i32", "i64"),
                ("utf8", "lutf8"),
                ("utf8", "bin"),
                ("dict:i8:utf8", "utf8"),
                ("ree:i16:i32", "ree:i32:i32"),
                ("list:i32", "list:i64"),
                ("list:i32", "llist:i32"),
                ("struct:1:i32", "struct:2:i32:i32"),
                ("struct:1:i32", "struct:1:i64"),
                ("f32", "f64"),
                ("dict:i8:i32", "dict:i16:i32"),
                ("dict:u32:utf8", "dict:i32:utf8"),
            ];
            let (a, b) = *rng.pick(pairs);
            let (a, b) = if rng.bool() { (a, b) } else { (b, a) };
            let (ta, tb) = (ty_of(a), ty_of(b));
            let (la, lb) = (1 + rng.usize(3), 1 + rng.usize(3));
            let (ca, cb) = (gen_col(&ta, rng, la), gen_col(&tb, rng, lb));
            let kf = if matches!((&ta, &tb), (Ty::Dict(..), Ty::Dict(..))) { " kf:dict-key-mismatch" } else { "" };
            (format!("C10 cmpty {} {} {} {}", a, b, col_str(&ca), col_str(&cb)), format!("op:cmpty nt{}", kf))
        }
        _ => {
            let len = gen_len(rng);
            let v: Vec<i64> = (0..len).map(|_| rng.range(-5, 5)).collect();
            let lim = rng.usize(len + 1);
            (format!("C10 psort {} {}", lim, show_list(&v)), format!("op:psort {}", if len > 1 && lim > 0 { "nt" } else { "" }))
        }
    }
}

// ------------------------------------------------------------------------------ fixed boundary block

fn opt4() -> [&'static str; 4] {
    ["af", "al", "df", "dl"]
}
const KOPS: [&str; 8] = ["eq", "neq", "lt", "lt_eq", "gt", "gt_eq", "distinct", "not_distinct"];

/// byte strings around the 4-byte prefix key and the 12-byte inline limit, many differing only
/// in length / trailing NUL bytes (all valid UTF-8)
fn bytes_family() -> Vec<V> {
    let strs: Vec<&[u8]> = vec![
        b"", b"\0", b"\0\0", b"\0\0\0", b"\0\0\0\0", b"\0\0\0\0\0", b"a", b"a\0", b"a\0\0", b"a\0\0\0", b"a\0\0\0\0", b"ab", b"ab\0", b"ab\0\0",
        b"abc", b"abc\0", b"abc\0\0", b"abcd", b"abcd\0", b"abcd\0\0", b"abcde", b"abcdf", b"abcd\0e", b"abce", b"abcdefghijk", b"abcdefghijk\0",
        b"abcdefghijkl", b"abcdefghijkl\0", b"abcdefghijkl\0\0", b"abcdefghijkm", b"abcdefghijklm", b"abcdefghijkln", b"abcdefghijklmnopqrst",
        b"abcdXfghijklmnopqrst", b"abcdefghijklXnopqrst",
    ];
    strs.into_iter().map(|b| V::Bytes(b.to_vec())).collect()
}

fn float_family(w: u8) -> Vec<V> {
    let (ebits, mbits) = match w {
        16 => (5u32, 10u32),
        32 => (8, 23),
        _ => (11, 52),
    };
    let emax = (1u64 << ebits) - 1;
    let mmask = (1u64 << mbits) - 1;
    let bodies = [
        0,
        1,
        mmask,
        1 << mbits,
        ((emax >> 1) << mbits),
        ((emax - 1) << mbits) | mmask,
        emax << mbits,
        (emax << mbits) | 1,
        (emax << mbits) | (1 << (mbits - 1)),
        (emax << mbits) | mmask,
    ];
    let mut out = vec![];
    for b in bodies {
        out.push(V::F(w, b));
        out.push(V::F(w, b | (1u64 << (w as u32 - 1))));
    }
    out
}

fn int_family(p: &str) -> Vec<V> {
    let (lo, hi): (i128, i128) = match p {
        "i8" => (i8::MIN as i128, i8::MAX as i128),
        "i16" => (i16::MIN as i128, i16::MAX as i128),
        "u8" => (0, u8::MAX as i128),
        "u16" => (0, u16::MAX as i128),
        "u32" => (0, u32::MAX as i128),
        "u64" => (0, u64::MAX as i128),
        "i64" | "d64" | "date64" | "ts_s" | "ts_ms" | "ts_us" | "ts_ns" | "dur_s" | "dur_ms" | "dur_us" | "dur_ns" | "t64us" | "t64ns" => (i64::MIN as i128, i64::MAX as i128),
        "d128" | "d256" => (i128::MIN, i128::MAX),
        _ => (i32::MIN as i128, i32::MAX as i128),
    };
    let mut xs = vec![lo, lo + 1, hi - 1, hi, 0, 1, 1];
    if lo < 0 {
        xs.push(-1);
    }
    let mut out: Vec<V> = xs.into_iter().map(|x| V::Int(i256::from_i128(x))).collect();
    if p == "d256" {
        out.push(V::Int(i256::MAX));
        out.push(V::Int(i256::MIN));
        out.push(V::Int(i256::from_i128(i128::MAX).wrapping_add(i256::ONE)));
    }
    out
}

fn rotate(v: &[V], k: usize) -> Vec<V> {
    if v.is_empty() { vec![] } else { (0..v.len()).map(|i| v[(i + k) % v.len()].clone()).collect() }
}

/// A deterministic block of boundary cases emitted at the start of every run.
fn fixed_block() -> Vec<(String, String)> {
    let mut out: Vec<(String, String)> = vec![];
    let mut rng = Rng::new(0xC10_F1ED);
    let lim_s = |l: Option<usize>| l.map(|x| x.to_string()).unwrap_or("-".into());
    // ---- A. byte strings: prefix keys, inline limit, trailing NULs
    let fam = bytes_family();
    let mut fam_n = fam.clone();
    fam_n.insert(7, V::Null);
    fam_n.push(V::Null);
    for ty in ["utf8", "lutf8", "bin", "lbin", "utf8v", "binv", "dict:i8:utf8", "dict:i16:binv", "ree:i32:utf8", "ree:i16:binv", "dict:u8:bin"] {
        for o in opt4() {
            for lim in [None, Some(3), Some(fam_n.len())] {
                for var in [0u64, 128 + 1024, 2 + 16 + 2048] {
                    let col = rotate(&fam_n, (var as usize + o.len() + lim.unwrap_or(5)) % 7);
                    out.push((format!("C10 sort {} {} {} {} {}", ty, var, o, lim_s(lim), col_str(&col)), "blk:bytes op:sort nt".into()));
                }
            }
        }
    }
    for ty in ["utf8", "lutf8", "bin", "lbin", "utf8v", "binv"] {
        for var in [0u64, 128] {
            out.push((format!("C10 cmp {} {} {} af {} {}", ty, var, var ^ 128, col_str(&fam_n), col_str(&fam)), "blk:bytes op:cmp nt".into()));
            out.push((format!("C10 cmp {} {} {} dl {} {}", ty, var, var, col_str(&fam), col_str(&fam_n)), "blk:bytes op:cmp nt".into()));
        }
        for o in opt4() {
            out.push((format!("C10 rank {} 0 {} {}", ty, o, col_str(&fam_n)), "blk:bytes op:rank nt".into()));
            out.push((format!("C10 lexsort - 2 i32 0 {} {} {} 3 {} {}", o, col_str(&(0..fam_n.len()).map(|i| V::Int(i256::from_i128((i % 3) as i128))).collect::<Vec<_>>()), ty, o, col_str(&fam_n)), "blk:bytes op:lexsort nt".into()));
        }
        for op in KOPS {
            for k in [1usize, 2, 9] {
                out.push((format!("C10 kernel {} {} {} 0 128 aa {} {}", op, ty, ty, col_str(&fam_n), col_str(&rotate(&fam_n, k))), "blk:bytes op:kernel sc:aa nt".into()));
            }
            out.push((format!("C10 kernel {} dict:i8:{} ree:i32:{} 48 17 aa {} {}", op, ty, ty, col_str(&fam_n), col_str(&rotate(&fam_n, 3))), "blk:bytes op:kernel sc:aa nt".into()));
        }
        // scalar needles of every short length (eq_inline_scalar for views)
        for needle in fam.iter().take(24) {
            for op in ["eq", "neq", "lt", "gt_eq", "distinct"] {
                for var in [0u64, 128] {
                    out.push((format!("C10 kernel {} {} {} {} 0 as {} {}", op, ty, ty, var, col_str(&fam_n), tok(needle)), "blk:bytes op:kernel sc:as nt".into()));
                    out.push((format!("C10 kernel {} {} {} 1 {} sa {} {}", op, ty, ty, var, tok(needle), col_str(&fam_n)), "blk:bytes op:kernel sc:sa nt".into()));
                }
            }
        }
    }
    for ty in ["utf8v", "binv"] {
        for (vl, vr) in [(0u64, 0u64), (128, 0), (0, 128), (128, 128), (1, 2)] {
            out.push((format!("C10 viewcmp {} {} {} {} {}", ty, vl, vr, col_str(&fam), col_str(&fam)), "blk:bytes op:viewcmp nt".into()));
        }
    }
    for ty in ["list:utf8", "llist:binv", "lview:bin", "fsl:2:utf8v"] {
        let rows: Vec<V> = (0..fam.len() - 1).map(|i| V::List(vec![fam[i].clone(), if i % 5 == 0 { V::Null } else { fam[i + 1].clone() }])).collect();
        for o in opt4() {
            out.push((format!("C10 sort {} 0 {} - {}", ty, o, col_str(&rows)), "blk:bytes op:sort nt".into()));
        }
    }
    for n in [4usize, 5] {
        let vals: Vec<V> = fam.iter().map(|v| match v { V::Bytes(b) => { let mut x = b.clone(); x.resize(n, 0); V::Bytes(x) } _ => unreachable!() }).collect();
        for o in opt4() {
            out.push((format!("C10 sort fsb:{} 0 {} - {}", n, o, col_str(&vals)), "blk:bytes op:sort nt".into()));
        }
        out.push((format!("C10 kernel lt fsb:{} fsb:{} 0 0 aa {} {}", n, n, col_str(&vals), col_str(&rotate(&vals, 1))), "blk:bytes op:kernel sc:aa nt".into()));
    }
    // ---- B. floats
    for (w, ty) in [(16u8, "f16"), (32, "f32"), (64, "f64")] {
        let f = float_family(w);
        let mut fnull = f.clone();
        fnull.insert(3, V::Null);
        fnull.push(V::Null);
        for o in opt4() {
            for lim in [None, Some(5)] {
                out.push((format!("C10 sort {} 1024 {} {} {}", ty, o, lim_s(lim), col_str(&rotate(&fnull, 4))), "blk:float op:sort nt".into()));
                out.push((format!("C10 sort dict:i8:{} 48 {} {} {}", ty, o, lim_s(lim), col_str(&rotate(&fnull, 9))), "blk:float op:sort nt".into()));
            }
            out.push((format!("C10 rank {} 0 {} {}", ty, o, col_str(&fnull)), "blk:float op:rank nt".into()));
        }
        out.push((format!("C10 cmp {} 0 0 af {} {}", ty, col_str(&fnull), col_str(&f)), "blk:float op:cmp nt".into()));
        out.push((format!("C10 partition 1 {} 0 {}", ty, col_str(&fnull)), "blk:float op:partition nt".into()));
        for op in KOPS {
            for k in [0usize, 1, 2] {
                out.push((format!("C10 kernel {} {} {} 0 0 aa {} {}", op, ty, ty, col_str(&fnull), col_str(&rotate(&fnull, k))), "blk:float op:kernel sc:aa nt".into()));
            }
        }
        for k in [0usize, 1, 2, 7] {
            for (a, b) in f.iter().zip(rotate(&f, k).iter()) {
                out.push((format!("C10 native {} {} {}", ty, tok(a), tok(b)), "blk:float op:native nt".into()));
            }
        }
        let lists: Vec<V> = (0..f.len()).map(|i| V::List(vec![f[i].clone(), f[(i * 7 + 1) % f.len()].clone()])).collect();
        out.push((format!("C10 inlist {} list 0 {} {}", ty, col_str(&rotate(&f, 1)), col_str(&lists)), "blk:float op:inlist nt".into()));
    }
    // ---- C. integer boundaries
    for p in INT_PRIMS {
        let mut v = int_family(p);
        v.push(V::Null);
        for o in opt4() {
            out.push((format!("C10 sort {} 1024 {} - {}", p, o, col_str(&v)), "blk:int op:sort nt".into()));
        }
        out.push((format!("C10 kernel lt {} {} 1024 1024 aa {} {}", p, p, col_str(&v), col_str(&rotate(&v, 1))), "blk:int op:kernel sc:aa nt".into()));
        out.push((format!("C10 rank {} 0 dl {}", p, col_str(&v)), "blk:int op:rank nt".into()));
    }
    for p in ["i8", "i16", "i32", "i64", "u8", "u16", "u32", "u64", "d128", "d256"] {
        let v = int_family(p);
        for (a, b) in v.iter().zip(rotate(&v, 1).iter()).chain(v.iter().zip(v.iter())) {
            out.push((format!("C10 native {} {} {}", p, tok(a), tok(b)), "blk:int op:native nt".into()));
        }
    }
    // ---- D. lexsort top-k heap (limit <= rows/10) and the path switch at rows/10 + 1
    for rows in [10usize, 11, 19, 20, 21, 30, 31, 50] {
        for lim in 1..=rows / 10 + 1 {
            for ncols in [2usize, 3, 4, 5, 6] {
                let mut s = format!("C10 lexsort {} {}", lim, ncols);
                for c in 0..ncols {
                    let col: Vec<V> = (0..rows).map(|_| if rng.chance(1, 7) { V::Null } else { V::Int(i256::from_i128(rng.range(0, 1 + c as i64) as i128)) }).collect();
                    s += &format!(" i32 0 {} {}", opt4()[rng.usize(4)], col_str(&col));
                }
                out.push((s, format!("blk:heap op:lexsort {} nt", if lim <= rows / 10 { "path:heap" } else { "path:sort" })));
            }
        }
    }
    // ---- E. lengths across the 64-bit words of the bit-packed paths
    for len in [63usize, 64, 65, 127, 128, 129] {
        let ints: Vec<V> = (0..len).map(|i| if i % 7 == 3 || i == len - 1 { V::Null } else { V::Int(i256::from_i128(((i * 37) % 11) as i128)) }).collect();
        let ints2: Vec<V> = (0..len).map(|i| if i % 5 == 1 || i == 63 { V::Null } else { V::Int(i256::from_i128(((i * 17) % 11) as i128)) }).collect();
        let strs: Vec<V> = (0..len).map(|i| if i % 9 == 0 { V::Null } else { fam[(i * 5) % fam.len()].clone() }).collect();
        let bools: Vec<V> = (0..len).map(|i| if i % 6 == 2 { V::Null } else { V::Int(i256::from_i128(((i / 3) % 2) as i128)) }).collect();
        let runs: Vec<V> = (0..len).map(|i| V::Int(i256::from_i128((i / 5) as i128))).collect();
        for op in KOPS {
            out.push((format!("C10 kernel {} i32 i32 1024 3 aa {} {}", op, col_str(&ints), col_str(&ints2)), "blk:len64 op:kernel sc:aa nt".into()));
            out.push((format!("C10 kernel {} i32 i32 0 0 as {} i4", op, col_str(&ints)), "blk:len64 op:kernel sc:as nt".into()));
            out.push((format!("C10 kernel {} utf8v dict:i16:utf8v 128 0 aa {} {}", op, col_str(&strs), col_str(&rotate(&strs, 1))), "blk:len64 op:kernel sc:aa nt".into()));
        }
        out.push((format!("C10 kernel lt bool bool 1024 0 aa {} {}", col_str(&bools), col_str(&rotate(&bools, 1))), "blk:len64 op:kernel sc:aa nt".into()));
        out.push((format!("C10 kernel eq ree:i32:i32 ree:i16:i32 17 0 aa {} {}", col_str(&runs), col_str(&rotate(&runs, 2))), "blk:len64 op:kernel sc:aa nt".into()));
        out.push((format!("C10 partition 2 i32 0 {} bool 0 {}", col_str(&runs), col_str(&bools)), "blk:len64 op:partition nt".into()));
        out.push((format!("C10 partition 1 utf8 2 {}", col_str(&strs)), "blk:len64 op:partition nt".into()));
        for o in opt4() {
            out.push((format!("C10 sort i32 1 {} - {}", o, col_str(&ints)), "blk:len64 op:sort nt".into()));
            out.push((format!("C10 sort utf8 0 {} 64 {}", o, col_str(&strs)), "blk:len64 op:sort nt".into()));
            out.push((format!("C10 sort bool 2 {} 65 {}", o, col_str(&bools)), "blk:len64 op:sort nt".into()));
            out.push((format!("C10 rank bool 0 {} {}", o, col_str(&bools)), "blk:len64 op:rank nt".into()));
        }
        out.push((format!("C10 rank i32 0 af {}", col_str(&ints)), "blk:len64 op:rank nt".into()));
        out.push((format!("C10 pvalid i32 3 {}", col_str(&ints)), "blk:len64 op:pvalid nt".into()));
        out.push((format!("C10 pvalid utf8 0 {}", col_str(&strs)), "blk:len64 op:pvalid nt".into()));
    }
    // ---- F. data type mismatches
    for (a, b) in [("i32", "i64"), ("utf8", "lutf8"), ("dict:i8:utf8", "utf8"), ("ree:i16:i32", "ree:i32:i32"), ("list:i32", "list:i64"), ("struct:1:i32", "struct:2:i32:i32")] {
        out.push((format!("C10 cmpty {} {} {} {}", a, b, col_str(&gen_col(&ty_of(a), &mut rng, 2)), col_str(&gen_col(&ty_of(b), &mut rng, 2))), "blk:types op:cmpty nt".into()));
    }
    for (a, b) in [("dict:i8:i32", "dict:i16:i32"), ("dict:u64:utf8", "dict:i64:utf8")] {
        out.push((format!("C10 cmpty {} {} {} {}", a, b, col_str(&gen_col(&ty_of(a), &mut rng, 2)), col_str(&gen_col(&ty_of(b), &mut rng, 2))), "blk:types op:cmpty nt kf:dict-key-mismatch".into()));
    }
    // ---- F2. documented errors and degenerate inputs
    for ty in ["struct:1:i32", "map:utf8:i32", "union:d:1:i32", "list:struct:1:i32", "dict:i8:list:i32", "fsl:2:fsb:2"] {
        let c = gen_col(&ty_of(ty), &mut rng, 3);
        out.push((format!("C10 unsup sort {} {}", ty, col_str(&c)), "blk:errors op:unsup nt".into()));
    }
    for ty in ["struct:1:i32", "list:i32", "fsb:2", "dict:i8:i32", "ree:i32:i32"] {
        let c = gen_col(&ty_of(ty), &mut rng, 3);
        out.push((format!("C10 unsup rank {} {}", ty, col_str(&c)), "blk:errors op:unsup nt".into()));
    }
    for ty in ["struct:1:i32", "list:i32", "fsl:1:i32", "dict:i8:list:i32", "ree:i32:struct:1:i32", "map:utf8:i32"] {
        let c = gen_col(&ty_of(ty), &mut rng, 3);
        out.push((format!("C10 unsup kernel {} {}", ty, col_str(&c)), "blk:errors op:unsup nt".into()));
    }
    out.push(("C10 lexsort - 0".into(), "blk:errors op:lexsort".into()));
    out.push(("C10 lexsort 2 2 i32 0 af i1,i2 i32 0 af i1,i2,i3".into(), "blk:errors op:lexsort nt".into()));
    out.push(("C10 partition 0".into(), "blk:errors op:partition".into()));
    out.push(("C10 partition 2 i32 0 i1,i2 i32 0 i1,i2,i3".into(), "blk:errors op:partition nt".into()));
    out.push(("C10 kernel eq i32 i32 0 0 aa i1,i2 i1,i2,i3".into(), "blk:errors op:kernel sc:aa nt".into()));
    out.push(("C10 inlist i32 list 0 i1,i2 [i1]".into(), "blk:errors op:inlist nt".into()));
    for o in opt4() {
        out.push((format!("C10 cmp null 0 3 {} n,n,n n,n", o), "blk:errors op:cmp ty:null nt".into()));
    }
    for op in KOPS {
        out.push((format!("C10 kernel {} null null 0 0 aa n,n,n n,n,n", op), "blk:errors op:kernel ty:null sc:aa nt".into()));
    }
    out.push(("C10 partition 2 null 0 n,n,n i32 0 i1,i1,i2".into(), "blk:errors op:partition ty:null nt".into()));
    // ---- G. maps and unions
    for ty in ["map:utf8:i32", "map:i32:list:utf8", "union:d:2:i32:utf8", "union:s:3:i32:f64:bin"] {
        let t = ty_of(ty);
        for o in opt4() {
            for var in [0u64, 1 + 4, 64 + 2] {
                let pool = gen_pool(&t, &mut rng, 5);
                let l: Vec<V> = (0..7).map(|_| pick_or_null(&pool, &mut rng, 5)).collect();
                let r: Vec<V> = (0..7).map(|_| pick_or_null(&pool, &mut rng, 5)).collect();
                out.push((format!("C10 cmp {} {} {} {} {} {}", ty, var, var, o, col_str(&l), col_str(&r)), format!("blk:nested op:cmp {} nt", ty_tags(&t))));
                out.push((format!("C10 lexsort - 2 {} {} {} {} i32 0 af {}", ty, var, o, col_str(&l), col_str(&(0..7).map(|i| V::Int(i256::from_i128(i))).collect::<Vec<_>>())), format!("blk:nested op:lexsort {} nt", ty_tags(&t))));
                out.push((format!("C10 partition 1 {} {} {}", ty, var, col_str(&l)), format!("blk:nested op:partition {} nt", ty_tags(&t))));
            }
        }
    }
    out
}

fn main() {
    let args = parse_args();
    if std::env::var("VERIF_LOUD").is_err() {
        quiet_panics();
    }
    let mut sink = Sink::new(&args.out);
    let emit = |sink: &mut Sink, line: String, tags: &str| {
        let o = run_case(&line);
        for w in o.oracle.iter().take(3) {
            sink.oracle_failure(line.clone(), w.clone(), tags);
        }
        sink.case(line, o.answer, tags);
    };
    if args.mode == "replay" {
        for line in read_cases(args.replay.as_ref().unwrap()) {
            emit(&mut sink, line, "replay");
        }
    } else {
        let mut rng = Rng::new(args.seed ^ 0xC10);
        let n = n_cases(&args, 20000, 400000);
        for (line, tags) in fixed_block() {
            emit(&mut sink, line, &tags);
        }
        for _ in 0..n {
            let (line, tags) = gen_case(&mut rng);
            emit(&mut sink, line, &tags);
        }
    }
    let _ = out;
    sink.finish();
}
