//! C20 correspondence harness: arrow-string predicates and functions on Unicode strings.
//!
//! Case lines (strings are hex of UTF-8; a row list is comma separated, `~` = null row,
//! `_` = empty string, `-` = no rows):
//!   C20 like|nlike|ilike|nilike|sw|ew|ct|eqi <var> <patterns> <haystacks>
//!        (one pattern = broadcast; answer: one char per row, 0/1/n)
//!   C20 rx <var> <regexes> <haystacks>            regexp_is_match / regexp_is_match_scalar
//!   C20 substr <kind> <start> <len|N> <rows>      kind s0..s3 = Utf8/LargeUtf8/Utf8View/Dict, b0..b3 = Binary/LargeBinary/BinaryView/FixedSizeBinary
//!   C20 substrc <var> <start> <len|N> <rows>      substring_by_char
//!   C20 len|bitlen <kind> <rows>
//!   C20 concat <var> <lefts> <rights>
//! `var` selects which input encoding / scalar-vs-array configuration's answer is *reported*
//! (compared with the Lean model); every other configuration is run as well and must give the
//! same answer (oracle: results identical for Utf8, LargeUtf8, Utf8View, dictionary; scalar
//! and array patterns), and a naive backtracking matcher inside the harness must agree too.
use arrow_array::builder::*;
use arrow_array::cast::AsArray;
use arrow_array::types::*;
use arrow_array::*;
use arrow_schema::ArrowError;
use std::cell::RefCell;
use std::collections::HashMap;
use std::sync::Arc;
use vcommon::*;

type Row = Option<String>;

// ------------------------------------------------------------------ line protocol
fn parse_row(t: &str) -> Row {
    match t {
        "~" => None,
        "_" => Some(String::new()),
        h => Some(String::from_utf8(unhex(h)).expect("utf8 row")),
    }
}
fn parse_rows(t: &str) -> Vec<Row> {
    if t == "-" { vec![] } else { t.split(',').map(parse_row).collect() }
}
fn show_row_bytes(r: &Option<Vec<u8>>) -> String {
    match r {
        None => "~".into(),
        Some(b) if b.is_empty() => "_".into(),
        Some(b) => hex(b),
    }
}
fn show_row(r: &Row) -> String {
    show_row_bytes(&r.as_ref().map(|s| s.as_bytes().to_vec()))
}
fn show_rows(rs: &[Row]) -> String {
    if rs.is_empty() { "-".into() } else { rs.iter().map(show_row).collect::<Vec<_>>().join(",") }
}
fn show_rows_bytes(rs: &[Option<Vec<u8>>]) -> String {
    if rs.is_empty() { "-".into() } else { rs.iter().map(show_row_bytes).collect::<Vec<_>>().join(",") }
}
fn show_tri(rs: &[Option<bool>]) -> String {
    if rs.is_empty() {
        "-".into()
    } else {
        rs.iter().map(|r| match r { None => 'n', Some(true) => '1', Some(false) => '0' }).collect()
    }
}
fn err_class(e: &ArrowError) -> String {
    match e {
        ArrowError::ComputeError(_) => "ERR:compute".into(),
        ArrowError::InvalidArgumentError(_) => "ERR:invalid-arg".into(),
        ArrowError::NotYetImplemented(_) => "ERR:not-impl".into(),
        _ => "ERR:other".into(),
    }
}

// ------------------------------------------------------------------ array construction
const JUNK_HEAD: &str = "J\u{212A}\u{e9}lvin-junk-row-longer-than-12";
const JUNK_TAIL: &str = "tail\u{1F600}";

/// string array in encoding `enc` (0 Utf8, 1 LargeUtf8, 2 Utf8View, 3 Dictionary<Int32,Utf8>);
/// `sliced` builds a longer array and slices it (non-zero offset, trailing garbage).
fn mk_str(rows: &[Row], enc: usize, sliced: bool) -> ArrayRef {
    let mut all: Vec<Row> = Vec::with_capacity(rows.len() + 3);
    if sliced {
        all.push(Some(JUNK_HEAD.to_string()));
        all.push(None);
    }
    all.extend(rows.iter().cloned());
    if sliced {
        all.push(Some(JUNK_TAIL.to_string()));
    }
    let it = all.iter().map(|r| r.as_deref());
    let a: ArrayRef = match enc {
        0 => Arc::new(it.collect::<StringArray>()),
        1 => Arc::new(it.collect::<LargeStringArray>()),
        2 => Arc::new(it.collect::<StringViewArray>()),
        _ => {
            let mut b = StringDictionaryBuilder::<Int32Type>::new();
            for r in it {
                match r {
                    Some(s) => {
                        b.append_value(s);
                    }
                    None => b.append_null(),
                }
            }
            Arc::new(b.finish())
        }
    };
    if sliced { a.slice(2, rows.len()) } else { a }
}

/// the value type matching encoding `enc` (patterns for a dictionary haystack are plain Utf8)
fn val_enc(enc: usize) -> usize {
    if enc == 3 { 0 } else { enc }
}

fn bool_rows(b: &BooleanArray) -> Vec<Option<bool>> {
    (0..b.len()).map(|i| if b.is_null(i) { None } else { Some(b.value(i)) }).collect()
}

/// rows of any string-ish array (Utf8 / LargeUtf8 / Utf8View / Binary* / FSB / dictionary of those)
fn bytes_rows(a: &dyn Array) -> Vec<Option<Vec<u8>>> {
    use arrow_schema::DataType::*;
    let n = a.len();
    let get = |i: usize| -> Option<Vec<u8>> {
        if a.is_null(i) {
            return None;
        }
        Some(match a.data_type() {
            Utf8 => a.as_string::<i32>().value(i).as_bytes().to_vec(),
            LargeUtf8 => a.as_string::<i64>().value(i).as_bytes().to_vec(),
            Utf8View => a.as_string_view().value(i).as_bytes().to_vec(),
            Binary => a.as_binary::<i32>().value(i).to_vec(),
            LargeBinary => a.as_binary::<i64>().value(i).to_vec(),
            BinaryView => a.as_binary_view().value(i).to_vec(),
            FixedSizeBinary(_) => a.as_fixed_size_binary().value(i).to_vec(),
            t => panic!("unexpected type {t}"),
        })
    };
    if let Some(d) = a.as_any().downcast_ref::<DictionaryArray<Int32Type>>() {
        let vals = bytes_rows(d.values().as_ref());
        return (0..n)
            .map(|i| if d.is_null(i) { None } else { vals[d.keys().value(i) as usize].clone() })
            .collect();
    }
    (0..n).map(get).collect()
}

/// validity of the UTF-8 actually stored in a string array (bypassing the typed accessors)
fn stored_utf8_ok(a: &dyn Array) -> bool {
    use arrow_schema::DataType::*;
    if let Some(d) = a.as_any().downcast_ref::<DictionaryArray<Int32Type>>() {
        return stored_utf8_ok(d.values().as_ref());
    }
    match a.data_type() {
        Utf8 => {
            let s = a.as_string::<i32>();
            (0..s.len()).all(|i| {
                let o = s.value_offsets();
                std::str::from_utf8(&s.value_data()[o[i] as usize..o[i + 1] as usize]).is_ok()
            })
        }
        LargeUtf8 => {
            let s = a.as_string::<i64>();
            (0..s.len()).all(|i| {
                let o = s.value_offsets();
                std::str::from_utf8(&s.value_data()[o[i] as usize..o[i + 1] as usize]).is_ok()
            })
        }
        Utf8View => {
            let s = a.as_string_view();
            (0..s.len()).all(|i| s.is_null(i) || std::str::from_utf8(s.value(i).as_bytes()).is_ok())
        }
        _ => true,
    }
}

// ------------------------------------------------------------------ naive oracles (harness side)
#[derive(Clone, Copy, PartialEq, Debug)]
enum Tok {
    Lit(char),
    One,
    Many,
}
fn tokenise(p: &[char]) -> Vec<Tok> {
    let mut out = vec![];
    let mut i = 0;
    while i < p.len() {
        match p[i] {
            '\\' => {
                if i + 1 < p.len() {
                    out.push(Tok::Lit(p[i + 1]));
                    i += 1;
                } else {
                    out.push(Tok::Lit('\\'));
                }
            }
            '%' => out.push(Tok::Many),
            '_' => out.push(Tok::One),
            c => out.push(Tok::Lit(c)),
        }
        i += 1;
    }
    out
}
fn like_naive(p: &[Tok], s: &[char], eqv: &dyn Fn(char, char) -> bool) -> bool {
    match p.first() {
        None => s.is_empty(),
        Some(Tok::Lit(c)) => !s.is_empty() && eqv(*c, s[0]) && like_naive(&p[1..], &s[1..], eqv),
        Some(Tok::One) => !s.is_empty() && like_naive(&p[1..], &s[1..], eqv),
        Some(Tok::Many) => (0..=s.len()).any(|k| like_naive(&p[1..], &s[k..], eqv)),
    }
}

thread_local! {
    static FOLD: RefCell<HashMap<(char, char), bool>> = RefCell::new(HashMap::new());
}
/// "a and b are equal under Unicode simple case folding **as implemented by the regex engine**":
/// the one-character case-insensitive regex for `a` matches `b`.
fn fold_eq(a: char, b: char) -> bool {
    if a == b {
        return true;
    }
    FOLD.with(|m| {
        *m.borrow_mut().entry((a, b)).or_insert_with(|| {
            let re = regex::RegexBuilder::new(&format!("^(?:{})$", regex::escape(&a.to_string())))
                .case_insensitive(true)
                .dot_matches_new_line(true)
                .build()
                .unwrap();
            re.is_match(&b.to_string())
        })
    })
}
fn ascii_fold_eq(a: char, b: char) -> bool {
    a.to_ascii_lowercase() == b.to_ascii_lowercase()
}

// --- tiny backtracking regex matcher for the generated regex subset
#[derive(Debug, Clone)]
enum Re {
    Lit(char),
    Any,
    Class(bool, Vec<char>),
    Start,
    End,
    Group(Vec<Vec<Re>>), // alternation of sequences
    Star(Box<Re>),
    Plus(Box<Re>),
    Opt(Box<Re>),
}
fn re_parse_alt(p: &[char], i: &mut usize) -> Option<Vec<Vec<Re>>> {
    let mut alts = vec![vec![]];
    while *i < p.len() {
        let c = p[*i];
        let atom = match c {
            ')' => break,
            '|' => {
                *i += 1;
                alts.push(vec![]);
                continue;
            }
            '(' => {
                *i += 1;
                let g = re_parse_alt(p, i)?;
                if *i >= p.len() || p[*i] != ')' {
                    return None;
                }
                *i += 1;
                Re::Group(g)
            }
            '[' => {
                *i += 1;
                let neg = *i < p.len() && p[*i] == '^';
                if neg {
                    *i += 1;
                }
                let mut set = vec![];
                while *i < p.len() && p[*i] != ']' {
                    if p[*i] == '\\' {
                        *i += 1;
                    }
                    set.push(*p.get(*i)?);
                    *i += 1;
                }
                if *i >= p.len() {
                    return None;
                }
                *i += 1;
                Re::Class(neg, set)
            }
            '.' => {
                *i += 1;
                Re::Any
            }
            '^' => {
                *i += 1;
                Re::Start
            }
            '$' => {
                *i += 1;
                Re::End
            }
            '\\' => {
                *i += 1;
                let c = *p.get(*i)?;
                *i += 1;
                Re::Lit(c)
            }
            '*' | '+' | '?' | '{' | '}' | ']' => return None,
            c => {
                *i += 1;
                Re::Lit(c)
            }
        };
        let atom = if *i < p.len() {
            match p[*i] {
                '*' => {
                    *i += 1;
                    Re::Star(Box::new(atom))
                }
                '+' => {
                    *i += 1;
                    Re::Plus(Box::new(atom))
                }
                '?' => {
                    *i += 1;
                    Re::Opt(Box::new(atom))
                }
                _ => atom,
            }
        } else {
            atom
        };
        alts.last_mut().unwrap().push(atom);
    }
    Some(alts)
}
struct ReCtx<'a> {
    s: &'a [char],
    ci: bool,
    dotall: bool,
}
impl ReCtx<'_> {
    fn ceq(&self, a: char, b: char) -> bool {
        if self.ci { fold_eq(a, b) } else { a == b }
    }
    /// match `seq` at position `pos`, then continuation `k`
    fn seq(&self, seq: &[Re], pos: usize, k: &dyn Fn(usize) -> bool) -> bool {
        match seq.first() {
            None => k(pos),
            Some(r) => self.one(r, pos, &|p2| self.seq(&seq[1..], p2, k)),
        }
    }
    fn one(&self, r: &Re, pos: usize, k: &dyn Fn(usize) -> bool) -> bool {
        let s = self.s;
        match r {
            Re::Lit(c) => pos < s.len() && self.ceq(*c, s[pos]) && k(pos + 1),
            Re::Any => pos < s.len() && (self.dotall || s[pos] != '\n') && k(pos + 1),
            Re::Class(neg, set) => pos < s.len() && (set.iter().any(|c| self.ceq(*c, s[pos])) != *neg) && k(pos + 1),
            Re::Start => pos == 0 && k(pos),
            Re::End => pos == s.len() && k(pos),
            Re::Group(alts) => alts.iter().any(|a| self.seq(a, pos, k)),
            Re::Opt(a) => self.one(a, pos, k) || k(pos),
            Re::Plus(a) => self.one(a, pos, &|p2| self.one(&Re::Star(a.clone()), p2, k)),
            Re::Star(a) => k(pos) || self.one(a, pos, &|p2| p2 > pos && self.one(r, p2, k)),
        }
    }
}
/// `Some(result)` when the regex text is in the supported subset
fn regex_naive(re: &str, flags: &str, s: &str) -> Option<bool> {
    if re.is_empty() && flags.is_empty() {
        return Some(true);
    }
    let p: Vec<char> = re.chars().collect();
    let mut i = 0;
    let alts = re_parse_alt(&p, &mut i)?;
    if i != p.len() {
        return None;
    }
    let sc: Vec<char> = s.chars().collect();
    let ctx = ReCtx { s: &sc, ci: flags.contains('i'), dotall: flags.contains('s') };
    let top = Re::Group(alts);
    Some((0..=sc.len()).any(|st| ctx.one(&top, st, &|_| true)))
}

// ------------------------------------------------------------------ running the real code
type LikeFn = fn(&dyn Datum, &dyn Datum) -> Result<BooleanArray, ArrowError>;
fn like_fn(op: &str) -> LikeFn {
    use arrow_string::like::*;
    match op {
        "like" => like,
        "nlike" => nlike,
        "ilike" => ilike,
        "nilike" => nilike,
        "sw" => starts_with,
        "ew" => ends_with,
        "ct" => contains,
        "eqi" => eq_ignore_ascii_case,
        _ => panic!("op"),
    }
}

#[derive(Clone, Copy, Debug, PartialEq)]
struct Cfg {
    enc: usize,
    sliced: bool,
    scalar: bool,
    /// array pattern given as a dictionary (only enc 0 / 3)
    dict_pat: bool,
}
fn cfg_of(var: usize, one_pat: bool) -> Cfg {
    let enc = var % 4;
    Cfg { enc, sliced: (var / 4) % 2 == 1, scalar: one_pat && (var / 8) % 2 == 1, dict_pat: (var / 16) % 2 == 1 && (enc == 0 || enc == 3) }
}
fn cfg_name(c: &Cfg) -> String {
    format!(
        "enc:{}{}{}{}",
        ["utf8", "large", "view", "dict"][c.enc],
        if c.sliced { "+sliced" } else { "" },
        if c.scalar { "+scalar" } else { "+array" },
        if c.dict_pat { "+dictpat" } else { "" }
    )
}

fn run_like_cfg(op: &str, c: Cfg, pats: &[Row], hays: &[Row]) -> String {
    let f = like_fn(op);
    let pats = pats.to_vec();
    let hays = hays.to_vec();
    guarded(move || {
        let h = mk_str(&hays, c.enc, c.sliced);
        let r = if c.scalar {
            let p = mk_str(&pats[..1], if c.dict_pat { 3 } else { val_enc(c.enc) }, false);
            f(&h, &Scalar::new(p))
        } else {
            let full: Vec<Row> = if pats.len() == 1 { vec![pats[0].clone(); hays.len()] } else { pats.clone() };
            let p = mk_str(&full, if c.dict_pat { 3 } else { val_enc(c.enc) }, c.sliced);
            f(&h, &p)
        };
        match r {
            Ok(b) => show_tri(&bool_rows(&b)),
            Err(e) => err_class(&e),
        }
    })
}

/// starts_with / ends_with / contains on Binary / LargeBinary / BinaryView holding the same bytes
/// (`binary_like.rs`, `binary_predicate.rs`)
fn run_like_bin(op: &str, kind: usize, scalar: bool, sliced: bool, pats: &[Row], hays: &[Row]) -> String {
    let f = like_fn(op);
    let pats = pats.to_vec();
    let hays = hays.to_vec();
    guarded(move || {
        let h = mk_bin(&hays, kind, sliced);
        let r = if scalar {
            f(&h, &Scalar::new(mk_bin(&pats[..1], kind, false)))
        } else {
            let full: Vec<Row> = if pats.len() == 1 { vec![pats[0].clone(); hays.len()] } else { pats.clone() };
            f(&h, &mk_bin(&full, kind, false))
        };
        match r {
            Ok(b) => show_tri(&bool_rows(&b)),
            Err(e) => err_class(&e),
        }
    })
}

fn run_rx_cfg(var: usize, c: Cfg, flags: Option<&str>, pats: &[Row], hays: &[Row]) -> String {
    use arrow_string::regexp::*;
    let pats = pats.to_vec();
    let hays = hays.to_vec();
    let flags = flags.map(|s| s.to_string());
    let _ = var;
    guarded(move || {
        let enc = val_enc(c.enc);
        let h = mk_str(&hays, enc, c.sliced);
        let r = if c.scalar {
            match &pats[0] {
                None => return "SCALAR-NULL".to_string(),
                Some(p) => match enc {
                    0 => regexp_is_match_scalar(h.as_string::<i32>(), p, flags.as_deref()),
                    1 => regexp_is_match_scalar(h.as_string::<i64>(), p, flags.as_deref()),
                    _ => regexp_is_match_scalar(h.as_string_view(), p, flags.as_deref()),
                },
            }
        } else {
            let full: Vec<Row> = if pats.len() == 1 { vec![pats[0].clone(); hays.len()] } else { pats.clone() };
            let p = mk_str(&full, enc, c.sliced);
            let fl: Option<Vec<Row>> = flags.as_ref().map(|f| vec![Some(f.clone()); hays.len()]);
            match enc {
                0 => {
                    let fa = fl.map(|f| mk_str(&f, 0, false));
                    regexp_is_match(h.as_string::<i32>(), p.as_string::<i32>(), fa.as_ref().map(|a| a.as_string::<i32>()))
                }
                1 => {
                    let fa = fl.map(|f| mk_str(&f, 1, false));
                    regexp_is_match(h.as_string::<i64>(), p.as_string::<i64>(), fa.as_ref().map(|a| a.as_string::<i64>()))
                }
                _ => {
                    let fa = fl.map(|f| mk_str(&f, 2, false));
                    regexp_is_match(h.as_string_view(), p.as_string_view(), fa.as_ref().map(|a| a.as_string_view()))
                }
            }
        };
        match r {
            Ok(b) => show_tri(&bool_rows(&b)),
            Err(e) => err_class(&e),
        }
    })
}

fn mk_bin(rows: &[Row], kind: usize, sliced: bool) -> ArrayRef {
    let mut all: Vec<Option<Vec<u8>>> = vec![];
    let w = rows.iter().flatten().map(|s| s.len()).next().unwrap_or(0);
    if sliced {
        all.push(Some(if kind == 3 { vec![0xA5; w] } else { JUNK_HEAD.as_bytes().to_vec() }));
    }
    all.extend(rows.iter().map(|r| r.as_ref().map(|s| s.as_bytes().to_vec())));
    let it = all.iter().map(|r| r.as_deref());
    let a: ArrayRef = match kind {
        0 => Arc::new(it.collect::<BinaryArray>()),
        1 => Arc::new(it.collect::<LargeBinaryArray>()),
        2 => Arc::new(it.collect::<BinaryViewArray>()),
        _ => Arc::new(FixedSizeBinaryArray::try_from_sparse_iter_with_size(it, w as i32).unwrap()),
    };
    if sliced { a.slice(1, rows.len()) } else { a }
}

struct Out {
    answer: String,
    oracle: Vec<String>,
    tags: String,
}

fn classify_tag(p: &str) -> &'static str {
    let clp = |s: &str| s.bytes().any(|b| b == b'%' || b == b'_' || b == b'\\');
    if !clp(p) {
        "pred:eq"
    } else if p.ends_with('%') && !clp(&p[..p.len() - 1]) {
        "pred:startswith"
    } else if p.starts_with('%') && !clp(&p[1..]) {
        "pred:endswith"
    } else if p.starts_with('%') && p.ends_with('%') && p.len() >= 2 && !clp(&p[1..p.len() - 1]) {
        "pred:contains"
    } else {
        "pred:regex"
    }
}

fn run_case(line: &str) -> Out {
    let t: Vec<&str> = line.split(' ').collect();
    assert_eq!(t[0], "C20");
    let mut oracle = vec![];
    let mut tags = format!("op:{}", t[1]);
    let answer = match t[1] {
        op @ ("like" | "nlike" | "ilike" | "nilike" | "sw" | "ew" | "ct" | "eqi") => {
            let var: usize = t[2].parse().unwrap();
            let pats = parse_rows(t[3]);
            let hays = parse_rows(t[4]);
            let one = pats.len() == 1;
            let c = cfg_of(var, one);
            tags.push(' ');
            tags.push_str(&cfg_name(&c));
            let ans = run_like_cfg(op, c, &pats, &hays);
            // harness-side naive answer
            let full: Vec<Row> = if one { vec![pats[0].clone(); hays.len()] } else { pats.clone() };
            let naive: Vec<Option<bool>> = full
                .iter()
                .zip(hays.iter())
                .map(|(p, h)| {
                    let (p, h) = (p.as_ref()?, h.as_ref()?);
                    let pc: Vec<char> = p.chars().collect();
                    let hc: Vec<char> = h.chars().collect();
                    Some(match op {
                        "like" => like_naive(&tokenise(&pc), &hc, &|a, b| a == b),
                        "nlike" => !like_naive(&tokenise(&pc), &hc, &|a, b| a == b),
                        "ilike" => like_naive(&tokenise(&pc), &hc, &fold_eq),
                        "nilike" => !like_naive(&tokenise(&pc), &hc, &fold_eq),
                        "sw" => hc.len() >= pc.len() && hc[..pc.len()] == pc[..],
                        "ew" => hc.len() >= pc.len() && hc[hc.len() - pc.len()..] == pc[..],
                        "ct" => pc.is_empty() || hc.windows(pc.len()).any(|w| w == &pc[..]),
                        _ => hc.len() == pc.len() && hc.iter().zip(pc.iter()).all(|(a, b)| ascii_fold_eq(*a, *b)),
                    })
                })
                .collect();
            let naive = show_tri(&naive);
            if full.len() == hays.len() && ans != naive {
                oracle.push(format!("{}: impl {} vs naive char-level matcher {}", cfg_name(&c), ans, naive));
            }
            // every other configuration must give the same answer
            for enc in 0..4 {
                for scalar in [false, true] {
                    for sliced in [false, true] {
                        if (scalar && !one) || (sliced && (enc + var) % 2 == 0) {
                            continue;
                        }
                        let c2 = Cfg { enc, sliced, scalar, dict_pat: false };
                        if c2 == c {
                            continue;
                        }
                        let a2 = run_like_cfg(op, c2, &pats, &hays);
                        if a2 != ans {
                            oracle.push(format!("encodings differ: {} gives {} but {} gives {}", cfg_name(&c), ans, cfg_name(&c2), a2));
                        }
                    }
                }
            }
            if op == "sw" || op == "ew" || op == "ct" {
                for kind in 0..3 {
                    for scalar in [false, true] {
                        if scalar && !one {
                            continue;
                        }
                        let a2 = run_like_bin(op, kind, scalar, (kind + var) % 2 == 1, &pats, &hays);
                        if a2 != ans {
                            oracle.push(format!("encodings differ: {} gives {} but binary kind {} scalar {} gives {}", cfg_name(&c), ans, kind, scalar, a2));
                        }
                    }
                }
                tags.push_str(" binary-checked");
            }
            if op == "like" || op == "nlike" || op == "ilike" || op == "nilike" {
                for p in pats.iter().flatten().take(3) {
                    tags.push(' ');
                    tags.push_str(classify_tag(p));
                    if p.ends_with('\\') && !p.ends_with("\\\\") {
                        tags.push_str(" trailing-backslash");
                    }
                    if p.contains('\\') {
                        tags.push_str(" escape");
                    }
                }
            }
            if !pats.iter().flatten().all(|p| p.is_ascii()) {
                tags.push_str(" pat-nonascii");
            }
            if !hays.iter().flatten().all(|p| p.is_ascii()) {
                tags.push_str(" hay-nonascii");
            } else if op == "ilike" || op == "nilike" {
                tags.push_str(" ascii-fast-path-eligible");
            }
            if hays.iter().flatten().any(|h| h.len() > 12) {
                tags.push_str(" long-view");
            }
            if ans.contains('0') && ans.contains('1') {
                tags.push_str(" nt");
            }
            // known finding: a dictionary whose values array is empty (all rows null) reaches
            // `normalized_keys` (assert_ne!(v_len, 0)) whenever the pattern is an array; the
            // dictionary+array configuration is always among the ones run for this line
            if hays.iter().all(|h| h.is_none()) || (!c.scalar && c.dict_pat && pats.iter().all(|p| p.is_none())) {
                tags.push_str(" kf:dict-empty-values");
            }
            ans
        }
        "rx" => {
            let var: usize = t[2].parse().unwrap();
            let pats = parse_rows(t[3]);
            let hays = parse_rows(t[4]);
            let one = pats.len() == 1;
            let c = cfg_of(var, one);
            let flags: Option<&str> = match (var / 32) % 4 {
                0 => None,
                1 => Some("i"),
                2 => Some("s"),
                _ => Some("is"),
            };
            tags.push_str(&format!(" {} flags:{}", cfg_name(&Cfg { enc: val_enc(c.enc), ..c }), flags.unwrap_or("none")));
            let ans = run_rx_cfg(var, c, flags, &pats, &hays);
            let full: Vec<Row> = if one { vec![pats[0].clone(); hays.len()] } else { pats.clone() };
            // naive answer (null handling of the array kernel: null if either side null;
            // the scalar kernel keeps the haystack's nulls)
            let mut supported = true;
            let naive: Vec<Option<bool>> = full
                .iter()
                .zip(hays.iter())
                .map(|(p, h)| {
                    let (p, h) = (p.as_ref()?, h.as_ref()?);
                    match regex_naive(p, flags.unwrap_or(""), h) {
                        Some(b) => Some(b),
                        None => {
                            supported = false;
                            None
                        }
                    }
                })
                .collect();
            if supported && !ans.starts_with("ERR") && ans != "SCALAR-NULL" && full.len() == hays.len() {
                let naive = show_tri(&naive);
                if ans != naive {
                    oracle.push(format!("{}: impl {} vs naive backtracking regex matcher {}", cfg_name(&c), ans, naive));
                }
                tags.push_str(" naive-checked");
            }
            if ans != "SCALAR-NULL" {
                for enc in 0..3 {
                    for scalar in [false, true] {
                        if scalar && (!one || pats[0].is_none()) {
                            continue;
                        }
                        let c2 = Cfg { enc, sliced: false, scalar, dict_pat: false };
                        let a2 = run_rx_cfg(var, c2, flags, &pats, &hays);
                        if a2 != ans {
                            oracle.push(format!("encodings differ: {} gives {} but {} gives {}", cfg_name(&c), ans, cfg_name(&c2), a2));
                        }
                    }
                }
            }
            if ans.contains('0') && ans.contains('1') {
                tags.push_str(" nt");
            }
            ans
        }
        "substr" => {
            let kind = t[2];
            let start: i64 = t[3].parse().unwrap();
            let len: Option<u64> = if t[4] == "N" { None } else { Some(t[4].parse().unwrap()) };
            let rows = parse_rows(t[5]);
            let is_str = kind.starts_with('s');
            let k: usize = kind[1..2].parse().unwrap();
            let sliced = kind.len() > 2;
            let rows2 = rows.clone();
            let run = move |is_str: bool, k: usize, sliced: bool| -> (String, bool) {
                let rows = rows2.clone();
                let mut utf8_ok = true;
                let u = &mut utf8_ok;
                let s = guarded(move || {
                    let a = if is_str { mk_str(&rows, k, sliced) } else { mk_bin(&rows, k, sliced) };
                    match arrow_string::substring::substring(a.as_ref(), start, len) {
                        Ok(r) => {
                            if r.len() != rows.len() {
                                return format!("WRONG-LEN:{}", r.len());
                            }
                            *u = stored_utf8_ok(r.as_ref());
                            show_rows_bytes(&bytes_rows(r.as_ref()))
                        }
                        Err(e) => err_class(&e),
                    }
                });
                (s, utf8_ok)
            };
            let (ans, ok) = run(is_str, k, sliced);
            if !ok {
                oracle.push("substring returned a string array holding invalid UTF-8".into());
            }
            tags.push_str(&format!(" kind:{}", kind));
            // same answer for the other encodings of the same family
            if is_str {
                for k2 in 0..4 {
                    if k2 != k {
                        let (a2, ok2) = run(true, k2, false);
                        if a2 != ans || !ok2 {
                            oracle.push(format!("encodings differ: s{} gives {} but s{} gives {} (utf8 ok {})", k, ans, k2, a2, ok2));
                        }
                    }
                }
            } else {
                let same_len = rows.iter().flatten().map(|s| s.len()).collect::<std::collections::BTreeSet<_>>().len() <= 1;
                for k2 in 0..4 {
                    if k2 != k && (k2 != 3 || same_len) && (k != 3 || same_len) {
                        let (a2, _) = run(false, k2, false);
                        if a2 != ans {
                            oracle.push(format!("encodings differ: b{} gives {} but b{} gives {}", k, ans, k2, a2));
                        }
                    }
                }
            }
            if ans.starts_with("ERR") {
                tags.push_str(" boundary-error");
            }
            // known finding: start / length at or beyond the i32 offset range (all encodings of the
            // family are run for every line, so the i32 limit is the relevant one)
            const SAFE: u64 = (1 << 31) - 65536;
            if start.unsigned_abs() >= SAFE || len.is_some_and(|l| l >= SAFE) {
                tags.push_str(" kf:substr-huge-arg");
            }
            // known finding: a sliced dictionary still holds the junk rows as unreferenced values
            if is_str && k == 3 && sliced {
                let bad = [JUNK_HEAD, JUNK_TAIL].iter().any(|v| {
                    let n = v.len() as i128;
                    let st = if start > 0 { (start as i128).min(n) } else if start == 0 { 0 } else { (n + start as i128).max(0) };
                    let en = match len {
                        Some(l) => (st + l as i128).min(n),
                        None => n,
                    };
                    !v.is_char_boundary(st as usize) || !v.is_char_boundary(en as usize)
                });
                if bad {
                    tags.push_str(" kf:substr-dict-unreferenced");
                }
            }
            if start < 0 {
                tags.push_str(" neg-start");
            }
            if rows.iter().flatten().any(|s| !s.is_ascii()) && (start != 0 || len.is_some()) {
                tags.push_str(" nt");
            }
            ans
        }
        "substrc" => {
            let var: usize = t[2].parse().unwrap();
            let start: i64 = t[3].parse().unwrap();
            let len: Option<u64> = if t[4] == "N" { None } else { Some(t[4].parse().unwrap()) };
            let rows = parse_rows(t[5]);
            let rows2 = rows.clone();
            let run = move |large: bool, sliced: bool| -> String {
                let rows = rows2.clone();
                guarded(move || {
                    let a = mk_str(&rows, if large { 1 } else { 0 }, sliced);
                    let r: Result<ArrayRef, ArrowError> = if large {
                        arrow_string::substring::substring_by_char(a.as_string::<i64>(), start, len).map(|x| Arc::new(x) as ArrayRef)
                    } else {
                        arrow_string::substring::substring_by_char(a.as_string::<i32>(), start, len).map(|x| Arc::new(x) as ArrayRef)
                    };
                    match r {
                        Ok(r) => {
                            if !stored_utf8_ok(r.as_ref()) {
                                return "INVALID-UTF8".into();
                            }
                            show_rows_bytes(&bytes_rows(r.as_ref()))
                        }
                        Err(e) => err_class(&e),
                    }
                })
            };
            let ans = run(var % 2 == 1, (var / 2) % 2 == 1);
            let other = run(var % 2 == 0, false);
            if other != ans {
                oracle.push(format!("encodings differ: {} vs {}", ans, other));
            }
            // naive: char-indexed substring on Rust strings
            let naive: Vec<Row> = rows
                .iter()
                .map(|r| {
                    r.as_ref().map(|s| {
                        let cs: Vec<char> = s.chars().collect();
                        let n = cs.len() as i128;
                        let st = if start >= 0 { (start as i128).min(n) } else { (n + start as i128).max(0) };
                        let en = match len {
                            None => n,
                            Some(l) => (st + l as i128).min(n),
                        };
                        cs[st as usize..en as usize].iter().collect::<String>()
                    })
                })
                .collect();
            if show_rows(&naive) != ans {
                oracle.push(format!("impl {} vs naive char-indexed substring {}", ans, show_rows(&naive)));
            }
            tags.push_str(if rows.iter().flatten().all(|s| s.is_ascii()) { " ascii-path" } else { " utf8-path nt" });
            if start < 0 {
                tags.push_str(" neg-start");
            }
            ans
        }
        op @ ("len" | "bitlen") => {
            let kind: usize = t[2].parse().unwrap();
            let rows = parse_rows(t[3]);
            let rows2 = rows.clone();
            let run = move |kind: usize| -> String {
                let rows = rows2.clone();
                guarded(move || {
                    let a = if kind < 4 { mk_str(&rows, kind, false) } else if kind < 8 { mk_str(&rows, kind - 4, true) } else { mk_bin(&rows, kind - 8, false) };
                    let r = if op == "len" { arrow_string::length::length(a.as_ref()) } else { arrow_string::length::bit_length(a.as_ref()) };
                    match r {
                        Ok(r) => {
                            let ints = |x: &dyn Array, i: usize| -> i64 {
                                match x.data_type() {
                                    arrow_schema::DataType::Int32 => x.as_primitive::<Int32Type>().value(i) as i64,
                                    _ => x.as_primitive::<Int64Type>().value(i),
                                }
                            };
                            let v: Vec<String> = (0..r.len())
                                .map(|i| {
                                    if r.is_null(i) {
                                        "~".to_string()
                                    } else if let Some(d) = r.as_any().downcast_ref::<DictionaryArray<Int32Type>>() {
                                        ints(d.values().as_ref(), d.keys().value(i) as usize).to_string()
                                    } else {
                                        ints(r.as_ref(), i).to_string()
                                    }
                                })
                                .collect();
                            if r.len() != rows.len() {
                                return format!("WRONG-LEN:{}", r.len());
                            }
                            show_list(&v)
                        }
                        Err(e) => err_class(&e),
                    }
                })
            };
            let ans = run(kind);
            for k2 in 0..11 {
                if k2 != kind {
                    let a2 = run(k2);
                    if a2 != ans {
                        oracle.push(format!("encodings differ: kind {} gives {} but kind {} gives {}", kind, ans, k2, a2));
                    }
                }
            }
            tags.push_str(&format!(" kind:{}", kind));
            if rows.iter().flatten().any(|s| !s.is_ascii()) {
                tags.push_str(" nt");
            }
            ans
        }
        "concat" => {
            let var: usize = t[2].parse().unwrap();
            let l = parse_rows(t[3]);
            let r = parse_rows(t[4]);
            let (l2, r2) = (l.clone(), r.clone());
            let run = move |enc: usize, sliced: bool| -> String {
                let (l, r) = (l2.clone(), r2.clone());
                guarded(move || {
                    let a = mk_str(&l, enc, sliced);
                    let b = mk_str(&r, enc, sliced && enc != 2);
                    let res: Result<ArrayRef, ArrowError> = match enc {
                        0 => arrow_string::concat_elements::concat_elements_utf8(a.as_string::<i32>(), b.as_string::<i32>()).map(|x| Arc::new(x) as ArrayRef),
                        1 => arrow_string::concat_elements::concat_elements_utf8(a.as_string::<i64>(), b.as_string::<i64>()).map(|x| Arc::new(x) as ArrayRef),
                        _ => arrow_string::concat_elements::concat_elements_dyn(a.as_ref(), b.as_ref()),
                    };
                    match res {
                        Ok(x) => {
                            if !stored_utf8_ok(x.as_ref()) {
                                return "INVALID-UTF8".into();
                            }
                            show_rows_bytes(&bytes_rows(x.as_ref()))
                        }
                        Err(e) => err_class(&e),
                    }
                })
            };
            let ans = run(var % 3, (var / 3) % 2 == 1);
            for enc in 0..3 {
                let a2 = run(enc, false);
                if a2 != ans {
                    oracle.push(format!("encodings differ: {} vs enc {} {}", ans, enc, a2));
                }
            }
            if l.len() == r.len() {
                // also the n-ary kernel with three operands: l ++ r ++ l
                let many = {
                    let (l, r) = (l.clone(), r.clone());
                    guarded(move || {
                        let a = mk_str(&l, 0, false);
                        let b = mk_str(&r, 0, true);
                        match arrow_string::concat_elements::concat_elements_utf8_many(&[a.as_string::<i32>(), b.as_string::<i32>(), a.as_string::<i32>()]) {
                            Ok(x) => show_rows_bytes(&bytes_rows(&x)),
                            Err(e) => err_class(&e),
                        }
                    })
                };
                let want: Vec<Row> = l.iter().zip(r.iter()).map(|(a, b)| Some(format!("{}{}{}", a.as_ref()?, b.as_ref()?, a.as_ref()?))).collect();
                if many != show_rows(&want) {
                    oracle.push(format!("concat_elements_utf8_many: {} vs {}", many, show_rows(&want)));
                }
            }
            tags.push_str(&format!(" enc:{}", ["utf8", "large", "view"][var % 3]));
            if l.iter().chain(r.iter()).flatten().any(|s| !s.is_ascii()) {
                tags.push_str(" nt");
            }
            ans
        }
        _ => "bad-op".to_string(),
    };
    Out { answer, oracle, tags }
}

// ------------------------------------------------------------------ generators
const ALPHA: &[char] = &[
    'a', 'b', 'A', 'k', 'K', '\u{212A}', 's', 'S', '\u{17F}', '\u{DF}', '\u{130}', 'i', 'I', '\u{131}', '\u{e9}', '\u{c9}', 'e', '\u{301}',
    '\u{20AC}', '\u{4E2D}', '\u{1F600}', '\u{10FFFF}', '\u{7FF}', '\u{800}', '\u{FFFF}', '\u{10000}', '\u{80}', '\u{7f}', '.', '^', '$', '*', '+', '?',
    '(', ')', '[', ']', '{', '}', '|', '\\', '%', '_', '\n', ' ', '-', '#', '&', '~', '\r', '\u{3c3}', '\u{3c2}', '\u{3a3}',
];
const ASCII_ALPHA: &[char] = &['a', 'b', 'A', 'B', 'k', 'K', 's', 'S', 'z', 'Z', '@', '[', '`', '{', '.', '*', '\\', '%', '_', '\n', ' ', '0'];
const PAT_SYMS: &[char] = &['%', '_', '\\', 'a', '\u{e9}', '.', '\n'];
const HAY_SYMS: &[char] = &['a', '\u{e9}', '.', '\n', '\\', '%', '_'];
const IPAT_SYMS: &[char] = &['%', '_', '\\', 'a', 'A', 'k'];
const IHAY_SYMS: &[char] = &['a', 'A', 'k', 'K', '\\', '%'];

/// all strings over `syms` of length ≤ n
fn all_strings(syms: &[char], n: usize) -> Vec<String> {
    let mut out = vec![String::new()];
    let mut last = vec![String::new()];
    for _ in 0..n {
        let mut next = vec![];
        for s in &last {
            for c in syms {
                let mut t = s.clone();
                t.push(*c);
                next.push(t);
            }
        }
        out.extend(next.iter().cloned());
        last = next;
    }
    out
}

fn rand_string(rng: &mut Rng, alpha: &[char], max: usize) -> String {
    let n = rng.usize(max + 1);
    (0..n).map(|_| *rng.pick(alpha)).collect()
}

fn rand_pattern(rng: &mut Rng, alpha: &[char]) -> String {
    let n = match rng.below(10) {
        0 => 0,
        1..=5 => 1 + rng.usize(4),
        _ => 1 + rng.usize(9),
    };
    let mut p = String::new();
    for _ in 0..n {
        match rng.below(10) {
            0 | 1 => p.push('%'),
            2 => p.push('_'),
            3 => p.push('\\'),
            _ => p.push(*rng.pick(alpha)),
        }
    }
    // shape bias: make the shortcut shapes and their near misses frequent
    match rng.below(12) {
        0 => format!("{}%", p.replace(['%', '_', '\\'], "x")),
        1 => format!("%{}", p.replace(['%', '_', '\\'], "y")),
        2 => format!("%{}%", p.replace(['%', '_', '\\'], "z")),
        3 => p.replace(['%', '_', '\\'], "w"),
        4 => format!("{}\\%", p.replace(['%', '_', '\\'], "x")),
        5 => format!("{}\\", p),
        6 => format!("%{}\\%", p.replace(['%', '_', '\\'], "x")),
        _ => p,
    }
}

/// a haystack derived from the pattern (so that matches are frequent), possibly perturbed
fn instantiate(rng: &mut Rng, p: &str, alpha: &[char]) -> String {
    let pc: Vec<char> = p.chars().collect();
    let mut s = String::new();
    for t in tokenise(&pc) {
        match t {
            Tok::Lit(c) => {
                if rng.chance(1, 6) {
                    // case variants and the non-ASCII members of the simple-case-folding class
                    let mut alts: Vec<char> = c.to_uppercase().chain(c.to_lowercase()).collect();
                    match c {
                        'k' | 'K' => alts.push('\u{212A}'),
                        's' | 'S' => alts.push('\u{17F}'),
                        '\u{DF}' => alts.push('\u{1E9E}'),
                        '\u{3c3}' | '\u{3c2}' | '\u{3a3}' => alts.extend(['\u{3c3}', '\u{3c2}', '\u{3a3}']),
                        '\u{212A}' => alts.extend(['k', 'K']),
                        '\u{17F}' => alts.extend(['s', 'S']),
                        _ => {}
                    }
                    s.push(*rng.pick(&alts));
                } else {
                    s.push(c)
                }
            }
            Tok::One => s.push(*rng.pick(alpha)),
            Tok::Many => s.push_str(&rand_string(rng, alpha, 3)),
        }
    }
    match rng.below(8) {
        0 => {
            s.push(*rng.pick(alpha));
        }
        1 => {
            s.insert(0, *rng.pick(alpha));
        }
        2 => {
            s.pop();
        }
        3 => {
            if !s.is_empty() {
                s.remove(0);
            }
        }
        _ => {}
    }
    s
}

fn gen_rows(rng: &mut Rng, alpha: &[char], n: usize, maxlen: usize, pats: &[String]) -> Vec<Row> {
    let mut rows = gen_rows0(rng, alpha, n, maxlen, pats);
    // all-null columns are rare: as a dictionary they have an empty values array, on which
    // `AnyDictionaryArray::normalized_keys` asserts (known finding kf:dict-empty-values)
    if n > 0 && rows.iter().all(|r| r.is_none()) && !rng.chance(1, 4) {
        rows[0] = Some(rand_string(rng, alpha, maxlen));
    }
    // a modest share of all-null columns (known finding kf:dict-empty-values)
    if n > 0 && n <= 3 && rng.chance(1, 80) {
        rows.iter_mut().for_each(|r| *r = None);
    }
    rows
}
fn gen_rows0(rng: &mut Rng, alpha: &[char], n: usize, maxlen: usize, pats: &[String]) -> Vec<Row> {
    (0..n)
        .map(|_| {
            if rng.chance(1, 15) {
                None
            } else if !pats.is_empty() && rng.chance(2, 3) {
                let p = rng.pick(pats).clone();
                Some(instantiate(rng, &p, alpha))
            } else if rng.chance(1, 8) {
                // long (> 12 bytes: out-of-line view)
                let mut s = rand_string(rng, alpha, maxlen);
                while s.len() <= 12 {
                    s.push(*rng.pick(alpha));
                }
                Some(s)
            } else {
                Some(rand_string(rng, alpha, maxlen))
            }
        })
        .collect()
}

fn regex_escape_char(c: char) -> String {
    if "\\.+*?()|[]{}^$#&-~".contains(c) { format!("\\{}", c) } else { c.to_string() }
}
/// random regex text in the subset the naive matcher understands
fn rand_regex(rng: &mut Rng, alpha: &[char], depth: usize) -> String {
    let n = 1 + rng.usize(4);
    let mut s = String::new();
    for _ in 0..n {
        let atom = match rng.below(12) {
            0 => ".".to_string(),
            1 if depth < 2 => format!("({}|{})", rand_regex(rng, alpha, depth + 1), rand_regex(rng, alpha, depth + 1)),
            2 => {
                let k = 1 + rng.usize(3);
                let body: String = (0..k)
                    .map(|_| {
                        let c = *rng.pick(alpha);
                        if "\\]^[-&~".contains(c) { format!("\\{}", c) } else { c.to_string() }
                    })
                    .collect();
                format!("[{}{}]", if rng.chance(1, 4) { "^" } else { "" }, body)
            }
            _ => regex_escape_char(*rng.pick(alpha)),
        };
        s.push_str(&atom);
        match rng.below(10) {
            0 => s.push('*'),
            1 => s.push('+'),
            2 => s.push('?'),
            _ => {}
        }
    }
    if depth == 0 {
        if rng.chance(1, 4) {
            s.insert(0, '^');
        }
        if rng.chance(1, 4) {
            s.push('$');
        }
    }
    s
}

struct Gen {
    rng: Rng,
    thorough: bool,
}

fn like_line(op: &str, var: usize, pats: &[Row], hays: &[Row]) -> String {
    format!("C20 {} {} {} {}", op, var, show_rows(pats), show_rows(hays))
}

impl Gen {

    fn random_case(&mut self) -> String {
        let rng = &mut self.rng;
        let var = rng.usize(64);
        match rng.below(100) {
            0..=29 => {
                // like / nlike, one pattern
                let alpha: &[char] = if rng.chance(1, 4) { ASCII_ALPHA } else { ALPHA };
                let p = rand_pattern(rng, alpha);
                let n = 1 + rng.usize(12);
                let hays = gen_rows(rng, alpha, n, 16, &[p.clone()]);
                let pat = if rng.chance(1, 40) { None } else { Some(p) };
                let op = if rng.chance(1, 3) { "nlike" } else { "like" };
                like_line(op, var, &[pat], &hays)
            }
            30..=39 => {
                // like with per-row patterns (exercises the predicate cache of binary_predicate)
                let alpha: &[char] = ALPHA;
                let k = 1 + rng.usize(3);
                let ps: Vec<String> = (0..k).map(|_| rand_pattern(rng, alpha)).collect();
                let n = 2 + rng.usize(10);
                let mut pats: Vec<Row> = vec![];
                let mut cur = rng.pick(&ps).clone();
                for _ in 0..n {
                    if rng.chance(1, 3) {
                        cur = rng.pick(&ps).clone();
                    }
                    pats.push(if rng.chance(1, 15) { None } else { Some(cur.clone()) });
                }
                let hays = gen_rows(rng, alpha, n, 14, &ps);
                let op = *rng.pick(&["like", "nlike", "ilike", "nilike"]);
                like_line(op, var, &pats, &hays)
            }
            40..=57 => {
                // ilike / nilike: ASCII (fast paths + Lean model) or full alphabet (oracle only)
                let ascii = rng.chance(1, 2);
                let alpha: &[char] = if ascii { ASCII_ALPHA } else { ALPHA };
                let p = rand_pattern(rng, alpha);
                let n = 1 + rng.usize(12);
                let hays = gen_rows(rng, alpha, n, 16, &[p.clone()]);
                let op = if rng.chance(1, 3) { "nilike" } else { "ilike" };
                like_line(op, var, &[Some(p)], &hays)
            }
            58..=69 => {
                // starts_with / ends_with / contains / eq_ignore_ascii_case
                let alpha: &[char] = if rng.chance(1, 4) { ASCII_ALPHA } else { ALPHA };
                let n = 1 + rng.usize(12);
                let hays = gen_rows(rng, alpha, n, 16, &[]);
                let op = *rng.pick(&["sw", "ew", "ct", "ct", "eqi"]);
                let mk_needle = |rng: &mut Rng, hays: &[Row]| -> Row {
                    if rng.chance(1, 20) {
                        return None;
                    }
                    // mostly a piece of some haystack
                    let h: Vec<&String> = hays.iter().flatten().collect();
                    if !h.is_empty() && rng.chance(3, 4) {
                        let cs: Vec<char> = rng.pick(&h).chars().collect();
                        let a = rng.usize(cs.len() + 1);
                        let b = a + rng.usize(cs.len() - a + 1);
                        let (a, b) = match op {
                            "sw" if rng.chance(2, 3) => (0, b),
                            "ew" if rng.chance(2, 3) => (a, cs.len()),
                            "eqi" => (0, cs.len()),
                            _ => (a, b),
                        };
                        let s: String = cs[a..b].iter().collect();
                        Some(if op == "eqi" && rng.bool() { s.to_ascii_uppercase() } else { s })
                    } else {
                        Some(rand_string(rng, alpha, 4))
                    }
                };
                let pats: Vec<Row> = if rng.bool() { vec![mk_needle(rng, &hays)] } else { (0..n).map(|_| mk_needle(rng, &hays)).collect() };
                like_line(op, var, &pats, &hays)
            }
            70..=77 => {
                // regexp_is_match
                let alpha: &[char] = if rng.chance(1, 3) { ASCII_ALPHA } else { ALPHA };
                let n = 1 + rng.usize(8);
                let one = rng.bool();
                let res: Vec<String> = (0..if one { 1 } else { 1 + rng.usize(3) }).map(|_| if rng.chance(1, 25) { String::new() } else { rand_regex(rng, alpha, 0) }).collect();
                let pats: Vec<Row> = if one {
                    vec![Some(res[0].clone())]
                } else {
                    (0..n).map(|_| if rng.chance(1, 12) { None } else { Some(rng.pick(&res).clone()) }).collect()
                };
                let hays: Vec<Row> = (0..n)
                    .map(|_| {
                        if rng.chance(1, 12) {
                            None
                        } else {
                            // strings built from the regex's own literal characters
                            let src: Vec<char> = rng.pick(&res).chars().filter(|c| !"\\()[]|*+?^$".contains(*c)).collect();
                            let mut s = String::new();
                            for _ in 0..rng.usize(6) {
                                if !src.is_empty() && rng.chance(3, 4) { s.push(*rng.pick(&src)) } else { s.push(*rng.pick(alpha)) }
                            }
                            Some(s)
                        }
                    })
                    .collect();
                let var = rng.usize(128);
                format!("C20 rx {} {} {}", var, show_rows(&pats), show_rows(&hays))
            }
            78..=87 => {
                // substring (byte indexed)
                let is_str = rng.chance(2, 3);
                let k = rng.usize(4);
                let n = 1 + rng.usize(6);
                let alpha: &[char] = if rng.chance(1, 4) { ASCII_ALPHA } else { ALPHA };
                let rows: Vec<Row> = if !is_str && k == 3 {
                    // fixed size binary: equal byte lengths
                    let w = rng.usize(9);
                    (0..n)
                        .map(|_| {
                            if rng.chance(1, 10) {
                                None
                            } else {
                                let mut s = String::new();
                                while s.len() < w {
                                    let c = *rng.pick(alpha);
                                    if s.len() + c.len_utf8() <= w { s.push(c) } else { s.push('x') }
                                }
                                Some(s)
                            }
                        })
                        .collect()
                } else {
                    gen_rows(rng, alpha, n, 8, &[])
                };
                let maxb = rows.iter().flatten().map(|s| s.len()).max().unwrap_or(0) as i64;
                let start = rng.pick_or(&[0, 1, -1, 2, -2, maxb, -maxb, maxb + 1, -maxb - 1, 1000, -1000], -maxb - 2, maxb + 2);
                let len = match rng.below(6) {
                    0 => "N".to_string(),
                    1 => "0".to_string(),
                    2 => "1000".to_string(),
                    _ => rng.range(0, maxb + 2).to_string(),
                };
                let sliced = (is_str || k != 2) && rng.chance(1, 3);
                // a modest share of huge arguments (known finding kf:substr-huge-arg)
                let (start, len) = if rng.chance(1, 25) {
                    let hs: [i64; 9] = [i32::MAX as i64, 1 << 31, (1 << 32) + 1, i64::MAX, i64::MIN, -(1 << 31), -(1 << 31) - 1, -(1 << 32) - 1, 1];
                    let hl: [u64; 7] = [i32::MAX as u64, 1 << 31, 1 << 32, i64::MAX as u64, 1 << 63, u64::MAX, 2];
                    if rng.bool() { (*rng.pick(&hs), len) } else { (start, rng.pick(&hl).to_string()) }
                } else {
                    (start, len)
                };
                format!("C20 substr {}{}{} {} {} {}", if is_str { 's' } else { 'b' }, k, if sliced { "x" } else { "" }, start, len, show_rows(&rows))
            }
            88..=93 => {
                // substring_by_char
                let n = 1 + rng.usize(6);
                let alpha: &[char] = if rng.chance(1, 3) { ASCII_ALPHA } else { ALPHA };
                let rows = gen_rows(rng, alpha, n, 8, &[]);
                let maxc = rows.iter().flatten().map(|s| s.chars().count()).max().unwrap_or(0) as i64;
                let start = rng.pick_or(&[0, 1, -1, 2, -2, maxc, -maxc, maxc + 1, -maxc - 1, 1000, -1000, i64::MAX, i64::MIN], -maxc - 2, maxc + 2);
                let len = match rng.below(7) {
                    0 => "N".to_string(),
                    1 => "0".to_string(),
                    2 => "1000".to_string(),
                    3 => u64::MAX.to_string(),
                    _ => rng.range(0, maxc + 2).to_string(),
                };
                format!("C20 substrc {} {} {} {}", rng.usize(4), start, len, show_rows(&rows))
            }
            94..=96 => {
                let n = rng.usize(8);
                let rows = gen_rows(rng, ALPHA, n, 20, &[]);
                format!("C20 {} {} {}", if rng.bool() { "len" } else { "bitlen" }, rng.usize(11), show_rows(&rows))
            }
            _ => {
                let n = rng.usize(8);
                let l = gen_rows(rng, ALPHA, n, 10, &[]);
                let r = gen_rows(rng, ALPHA, n, 10, &[]);
                format!("C20 concat {} {} {}", rng.usize(6), show_rows(&l), show_rows(&r))
            }
        }
    }
}

fn main() {
    let args = parse_args();
    if std::env::var("VERIF_LOUD").is_err() {
        quiet_panics();
    }
    let mut sink = Sink::new(&args.out);
    let emit = |sink: &mut Sink, line: String, extra: &str| {
        let o = run_case(&line);
        let tags = format!("{} {}", o.tags, extra);
        for w in o.oracle {
            sink.oracle_failure(line.clone(), w, &tags);
        }
        sink.case(line, o.answer, &tags);
    };
    if args.mode == "replay" {
        for line in read_cases(args.replay.as_ref().unwrap()) {
            emit(&mut sink, line, "replay");
        }
    } else {
        let thorough = args.tier == "thorough";
        let mut g = Gen { rng: Rng::new(args.seed ^ 0xC20), thorough };
        if args.cases.is_none() {
            // exhaustive block: every pattern over {%, _, \, a, é, ., newline} up to length L
            // against every string over {a, é, ., newline, \, %, _} up to length L
            let l = if g.thorough { 4 } else { 3 };
            let hays: Vec<Row> = all_strings(HAY_SYMS, l).into_iter().map(Some).collect();
            for (i, p) in all_strings(PAT_SYMS, l).into_iter().enumerate() {
                let op = if i % 5 == 4 { "nlike" } else { "like" };
                let line = like_line(op, g.rng.usize(32), &[Some(p)], &hays);
                emit(&mut sink, line, "exhaustive");
            }
            // the same for ILIKE over an ASCII alphabet with case variants
            let li = if g.thorough { 4 } else { 3 };
            let ihays: Vec<Row> = all_strings(IHAY_SYMS, li).into_iter().map(Some).collect();
            for (i, p) in all_strings(IPAT_SYMS, li).into_iter().enumerate() {
                let op = if i % 5 == 4 { "nilike" } else { "ilike" };
                let line = like_line(op, g.rng.usize(32), &[Some(p)], &ihays);
                emit(&mut sink, line, "exhaustive");
            }
            // substring: every start / length on a few fixed multi-byte strings
            let fixed = vec![Some("a\u{e9}\u{20AC}\u{1F600}b".to_string()), Some(String::new()), None, Some("xyz".to_string()), Some("\u{301}e\u{301}".to_string())];
            let mut ctr = 0usize;
            for start in -12i64..=12 {
                for len in [None, Some(0u64), Some(1), Some(2), Some(3), Some(4), Some(5), Some(11), Some(12)] {
                    let ls = len.map(|l| l.to_string()).unwrap_or("N".into());
                    for kind in ["s0", "s1", "s2", "s3", "b0", "b2", "s0x"] {
                        ctr += 1;
                        if !g.thorough && ctr % 3 != 0 {
                            continue;
                        }
                        emit(&mut sink, format!("C20 substr {} {} {} {}", kind, start, ls, show_rows(&fixed)), "exhaustive");
                    }
                    if g.thorough || (start + len.unwrap_or(7) as i64) % 2 == 0 {
                        emit(&mut sink, format!("C20 substrc {} {} {} {}", (start + 12) % 4, start, ls, show_rows(&fixed)), "exhaustive");
                    }
                }
            }
        }
        let n = n_cases(&args, 6000, 200000);
        for _ in 0..n {
            let line = g.random_case();
            emit(&mut sink, line, "");
        }
    }
    sink.finish();
}
